#!/usr/bin/env python3
"""Maintain /verif/known_findings.json.  usage:
   findings_tool.py fixed <property> <commit> <signature> <what failed>
   findings_tool.py open  <property> <signature> <call_site> <what fails>
"""
import json, sys
p='/verif/known_findings.json'
d=json.load(open(p))
kind=sys.argv[1]
if kind=='fixed':
    prop,commit,sig,what=sys.argv[2:6]
    d['findings'].append({"property":prop,"status":"fixed","commit":commit,"signature":sig,"failure":what,
                          "line":f"fixed: property={prop} {commit} {what}"})
elif kind=='open':
    prop,sig,site,what=sys.argv[2:6]
    d['findings'].append({"property":prop,"status":"open","signature":sig,"call_site":site,"failure":what})
json.dump(d,open(p,'w'),indent=1)

#!/usr/bin/env python3
"""Replace the seed table in DESIGN.md (section 10.3) with the output of gen_seed_table.py."""
import subprocess,re
tab=subprocess.run(['python3','/verif/py/gen_seed_table.py'],capture_output=True,text=True).stdout.rstrip('\n').split('\n')
lines=open('/verif/DESIGN.md').read().split('\n')
start=next(i for i,l in enumerate(lines) if l.startswith('| Seed |'))
end=start
while end<len(lines) and lines[end].startswith('|'): end+=1
lines[start:end]=tab
open('/verif/DESIGN.md','w').write('\n'.join(lines))
print('rows',len(tab)-2)

#!/bin/bash
# confirm_seed.sh <worktree> <seed-out-dir> <seed-id> <property> : confirm a seeded defect myself
# (compiles, 254 baseline tests pass with it, demo fails with it and passes without it) and
# store it under /verif/seeded/<seed-id>/ .
set -u
WT=$1; SD=$2; ID=$3; PROP=$4
DEST=/verif/seeded/$ID; mkdir -p $DEST
cd $WT && git checkout -q -- . && git clean -fdq -e target
# where does the demo go?
DEMO=$(ls $SD/demo*.rs | head -1)
KIND=tests; grep -qi "examples/" $SD/meta.txt && ! grep -qi "tests/seed_demo" $SD/meta.txt && KIND=examples
mkdir -p quizx/$KIND; cp $DEMO quizx/$KIND/seed_demo.rs
REL=${DEMO_RELEASE:+--release}
run_demo() { if [ $KIND = tests ]; then cargo test $REL --offline -p quizx --test seed_demo >/tmp/demo-$ID.log 2>&1; else cargo run --offline -p quizx --example seed_demo >/tmp/demo-$ID.log 2>&1; fi; echo $?; }
CLEAN=$(run_demo)
git apply $SD/patch.diff || { echo "{\"id\":\"$ID\",\"error\":\"patch does not apply\"}" > $DEST/meta.json; exit 1; }
MUT=$(run_demo)
rm -f quizx/$KIND/seed_demo.rs
TESTS=$(cargo nextest run --workspace --no-fail-fast --test-threads 8 --offline 2>&1 | grep -E "Summary" | tail -1)
git checkout -q -- . ; git clean -fdq -e target
cp $SD/patch.diff $DEST/patch.diff; cp $DEMO $DEST/demo.rs; cp $SD/meta.txt $DEST/author_notes.txt
python3 - "$ID" "$PROP" "$KIND" "$CLEAN" "$MUT" "$TESTS" <<'PY'
import json,sys
i,prop,kind,clean,mut,tests=sys.argv[1:7]
m={"id":i,"property":prop,"demo_location":f"quizx/{kind}/seed_demo.rs",
   "confirmed":{"demo_exit_on_clean_tree":int(clean),"demo_exit_with_patch":int(mut),"baseline_suite_with_patch":tests.strip()},
   "ok": int(clean)==0 and int(mut)!=0 and "254 passed" in tests}
json.dump(m,open(f"/verif/seeded/{i}/meta.json","w"),indent=1); print(json.dumps(m))
PY

#!/usr/bin/env python3
"""Print the markdown table of seeded defects (DESIGN.md section 10.3) from seeded/*/meta.json."""
import json, os, re
rows=[]
for d in sorted(os.listdir('/verif/seeded')):
    mp=f'/verif/seeded/{d}/meta.json'
    if not os.path.exists(mp): continue
    m=json.load(open(mp))
    notes=open(f'/verif/seeded/{d}/author_notes.txt').read() if os.path.exists(f'/verif/seeded/{d}/author_notes.txt') else ''
    lines=[l.strip() for l in notes.splitlines() if l.strip() and not set(l.strip())<=set('=-')]
    # site: first line mentioning a .rs file
    diff=open(f'/verif/seeded/{d}/patch.diff').read()
    files=re.findall(r'^\+\+\+ b/(\S+)',diff,re.M)
    hunks=re.findall(r'^@@[^@]*@@ *(.*)$',diff,re.M)
    site=', '.join(f.replace('quizx/src/','') for f in files)+((' @ '+hunks[0][:50]) if hunks and hunks[0] else '')
    det=m.get('detection',{})
    if det.get('status')=='run':
        checks=', '.join(f"{k}" for k,v in det['checks'].items() if v['distinct_violation_signatures']>0) or '-'
        sig=(det.get('first_signatures') or [''])[0]
        detected='yes' if det.get('detected') else '**NO**'
    else:
        checks='-'; sig=det.get('status','not run'); detected='?'
    first='missed' if str(m.get('first_run','')).startswith(('missed','seen only')) else ''
    rnd=m.get('round','')
    rows.append(f"| {d} | {rnd} | `{site.replace('quizx/src/','')}` | {first} | {detected} | {checks} | `{sig[:80]}` |")
print("| Seed | Round | Site | First run | Caught now (quick, seed 1) | By | First signature (hits) |")
print("|------|-------|------|-----------|----------------------------|----|------------------------|")
print('\n'.join(rows))

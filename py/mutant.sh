#!/bin/bash
# Mutation trial in isolation: copy /repo and the harness to a scratch dir, apply a patch to
# the copy of /repo, build the harness against it, run the given checks (quick tier) with
# outputs redirected to the scratch dir. /repo and /verif are not touched.
#   usage: mutant.sh <patch.diff | -> <Cxx> [<Cyy> ...]      ("-" = no patch: baseline run)
set -u
PATCH="$1"; shift
M=${MUT_DIR:-/tmp/mut}
mkdir -p $M/out
rsync -a --delete --exclude target --exclude '.git' /repo/ $M/repo/
# the harness: the committed state (HEAD) by default, so that seeds can be re-run in the
# background while the working tree is being edited; MUT_WORKTREE=1 takes the working tree
if [ "${MUT_WORKTREE:-0}" = 1 ]; then
  rsync -a --delete --exclude 'target*' /verif/harness/ $M/harness/
else
  rm -rf $M/harness.new && mkdir -p $M/harness.new && git -C /verif archive HEAD harness | tar -x -C $M/harness.new \
    && rsync -a --delete --checksum --exclude 'target*' $M/harness.new/harness/ $M/harness/ && rm -rf $M/harness.new
fi
cp /verif/known_findings.json $M/out/ 2>/dev/null
sed -i "s#/repo/quizx#$M/repo/quizx#" $M/harness/Cargo.toml
# while other monitors are being written their files may be mid-edit: unless MUT_ALL=1, stub
# every monitor that was not requested and use the committed lib.rs of the stub commit
if [ "${MUT_ALL:-0}" != 1 ]; then
  git -C /verif show c21aa14:harness/src/lib.rs > $M/harness/src/lib.rs
  for n in 05 06 07 08 09 11 12 13 14 15 16 17 18 19 20; do
    case " $* " in *" C$n "*) ;; *) git -C /verif show c21aa14:harness/src/mon/c$n.rs > $M/harness/src/mon/c$n.rs;; esac
  done
  rm -rf $M/harness/src/bin/miri_* $M/harness/src/bin/tsan_* 2>/dev/null
fi
if [ "$PATCH" != "-" ]; then
  (cd $M/repo && patch -p1 --no-backup-if-mismatch < "$PATCH") >/dev/null || { echo "PATCH-FAILED"; exit 2; }
fi
export CARGO_NET_OFFLINE=true CARGO_TARGET_DIR=$M/target QVMON_VERIF_DIR=$M/out
(cd $M/harness && cargo build --release --offline 2>&1 | grep -E "^error" -A6 | head -20)
NEEDCLI=0; for id in "$@"; do case $id in C03|C06) NEEDCLI=1;; esac; done
if [ $NEEDCLI = 1 ]; then
  (cd $M/repo/quizx && cargo build --release --offline --features verif --bin quizx --target-dir $M/target-cli 2>&1 | grep -E "^error" -A6 | head)
  export QVMON_CLI=$M/target-cli/release/quizx
fi
for id in "$@"; do
  # the summary line first (a run with hundreds of distinct signatures must not push it out of the head)
  $M/target/release/qvmon $id --tier ${MUT_TIER:-quick} --seed ${VERIF_SEED:-1} > $M/out/last-$id.log 2>&1
  grep -E "VIOLATION|signature|HARNESS" $M/out/last-$id.log | head -${MUT_LINES:-8}
  grep -E "^$id (quick|thorough) seed=" $M/out/last-$id.log | tail -n 1
done

#!/usr/bin/env python3
"""Regenerate /verif/MANIFEST.json from the table below (single source of truth)."""
import json, subprocess

HOOK_COMMITS = []  # filled from git log below

# what the adversarial seeding rounds 4-7 added on top of the level texts below (DESIGN.md section 5, table)
ADDED = {
 "C01": " Added after seeding rounds 4-7: long sparse diagrams (40-120 spiders), hubs of degree 129-220, near-matches of gadget fusion, and sequences of 2-4 procedures on the same graph object.",
 "C02": " Added: 7-8 qubit and 100-400 gate circuits, compound gates and rational phases (thirds, fifths) next to ancilla handling.",
 "C03": " Added: 7-qubit circuits, three times the library cases (a CPU-bound hang is a violation), CLI inputs in variant spellings (several registers, unused classical registers, built-in CX, zero-gate programs), phase denominators above 4096 through the printed text, -o over existing files.",
 "C04": " Added: long sparse diagrams and hubs (vertex ids above 64/128; all tuples probed, follow-ups sampled), near-matches of gadget fusion, and walks of up to 14 accepted applications on the same object with rejected checked calls interleaved.",
 "C05": " Added: parallel-stress (T-count 9-13/18, about 120 000 parallel runs per quick run over pools of 2-16 threads) and sherlock-nosimp (T-dense diagrams, repeated randomised runs with the step log on).",
 "C06": " Added: the same circuits in variant spellings (several registers, built-in CX, mixed angle expressions, decimals, comments, unused classical registers), -o over existing files.",
 "C07": " Added: Sum / Product over empty and one-element iterators.",
 "C08": " Added: 8-9 qubit circuits, diagrams with 16-17 open indices, in-place helpers on 2^15-2^17 entries, one-wire chains of 200-3600 spiders (thousands of Hadamard edges), random cosmetic coordinates.",
 "C09": " Added: histories on 40-220 vertices with hubs above degree 128 and tiny neighbourhood selections for subgraph_from_vertices.",
 "C10": " Added: 9-40 variables with sampled assignments (2n+26), variable numbers around 63/127/2^16/2^20, scalar-factor tables of 60-300 entries, explicit measurement outcomes that are parities of several variables, rule walks under assignments.",
 "C11": " Added: chains of plug / adjoint / append_graph / clone on the same receiver.",
 "C12": " Added: 7-8 qubit pairs of every construction.",
 "C13": " Added: a second round trip judged against the original, files of 100-230 kB, writing over existing (longer) files.",
 "C14": " Added: circuits assembled with push_front / reverse, Display and to_qasm, from_qasm and from_file, comment lines, 300 qubits / 2500 gates, chains of 5-15 nested gate definitions (supported and hiding unsupported constructs).",
 "C15": " Added: 1000-4200 gate circuits, very unequal concatenations, parity phases of arity 8, denominators up to 2^61 incl. phases one unit away from Clifford values, operands that keep their deque layout (wrapped, spare capacity) when moved into an operator.",
 "C16": " Added: operands whose denominators share a factor of 2^30-2^52, Fibonacci-like continued fractions of up to 90 terms with bounds at late convergents.",
 "C17": "",
 "C18": " Added: graphs of 65-175 vertices (bit-row cut-rank oracle), the start tree installed with new + set_init_decomp, a second run() on the same annealer.",
 "C19": " Added: 16-300 qubit instances, million-gate circuits with probabilities summing to exactly one (128 million gates per quick run), parameters written into the builders' public fields on fresh and reused builders.",
 "C20": " Added: sparse diagrams of 20-140 spiders, vertex ids above 2^32, construction detours (extra spiders added and removed in different orders, a rejected named insertion), a second call on the diagram left by the first.",
}

CHECKS = {
 # id: (built, technique, level text, level note, design ref)
 "C01": (True, "runtime monitor: before/after snapshots of every simplifier x backend evaluated by an independent exact ZX evaluator; rewrite-budget hook for termination; panics as data",
         "Exploration: every simplification procedure is executed on generated well-formed diagrams (arbitrary, graph-like, gadget-rich, circuit-derived; exhaustive for <=2 (quick) / <=3 (thorough) spiders) in both backends and the linear map before/after is compared exactly in Z[omega][1/2] (1e-8 for non-pi/4 phases). Held on the executions produced, not a proof.",
         "Trusted base: harness oracles O1 (ring) and O2 (evaluator), self-tested and cross-checked against O3 at every start; termination only in bounded-progress form (rewrite budget).", "6/C01"),
 "C02": (True, "runtime monitor: differential check of the real translation (3 modes x 2 backends) - independent ZX evaluator on the produced diagram vs independent gate-matrix simulator on the circuit",
         "Exploration: generated circuits over the whole supported gate set (exhaustive single-gate placements for n<=3/4; random unitary, ancilla/post-selection interleaved, swap-heavy, CCZ/Toffoli families) are translated by the real code in all three modes and both backends; the diagram's tensor (O2) must equal the circuit's matrix (O3) exactly incl. scalar (1e-8 for non-pi/4 phases).",
         "Trusted base: oracles O2 and O3, written from the definitions, self-tested and cross-checked against each other at every start.", "6/C02"),
 "C03": (True, "runtime monitor: real simplify+extract pipeline (10 configurations x 2 backends) and the real `quizx opt` binary as a subprocess, judged by an independent simulator (exact projective comparison) and an independent QASM mini-parser",
         "Exploration: for generated unitary circuits every (strategy, extractor) configuration must return Ok, keep the qubit count, emit only H/ZPhase/CZ/CNOT/SWAP and be proportional to the input (exact cross-multiplication in Z[omega][1/2] for pi/4 phases; existence of an input permutation for up_to_perm); the CLI is run end to end on harness-printed QASM and its output is parsed independently and by from_qasm.",
         "Trusted base: simulator O3 and the 60-line QASM reader; CLI runs use a 120 s watchdog whose firing is inconclusive.", "6/C03"),
 "C04": (True, "runtime monitor: every primitive rule x every argument tuple (incl. equal, boundary, non-existent ids) x 2 backends; accepted => independent evaluator before/after, rejected => derived PartialEq of the backend; exhaustive over tiny diagrams",
         "Exploration with an exhaustive core: all diagrams with <=2 (quick) / <=3 (thorough) spiders over {Z,X} x 5 phases x {none,N,H} edges x <=2 boundaries are enumerated completely, plus random arbitrary / graph-like / gadget-rich diagrams; for each, all 15 matcher/rule pairs are driven on every vertex / ordered vertex pair and two missing ids.",
         "Trusted base: evaluator O2 / ring O1; 'bit-for-bit unchanged' = backend PartialEq.", "6/C04"),
 "C10": (True, "runtime monitor: rules and simplifiers on diagrams with variable parities, compared under ALL assignments by harness-side instantiation + independent evaluator; measurement circuits vs independent simulator with projected outcomes",
         "Exploration: diagrams whose spiders carry XORs over {b0,b1,b2,b5} (variable 0 included on purpose); every accepted rule application and all 13 simplifiers are checked under every assignment (2^n, n<=5) in both backends; circuits with measure_d/measure_r (explicit and fresh variables) are translated in 3 modes x 2 backends and compared with the projected map for every outcome.",
         "Trusted base: O1/O2/O3; instantiation reads vars(), scalar_factors(), Expr/Parity iterators (constant bit recovered through PartialEq).", "6/C10"),
 "C15": (True, "runtime monitor: circuit adjoint / basic-gate expansion / concatenation / statistics executed on generated circuits and judged by the independent gate-matrix simulator (exact) and an own gate classifier",
         "Exploration: every gate kind on every ordered qubit tuple up to 5 qubits (exhaustive one-gate circuits) plus random circuits with CCZ/Toffoli/parity-phase gates of every arity and rational phases; U(c;c^dagger)=I, U(to_basic_gates(c))=U(c) exactly, gate counts, all Add/AddAssign forms, reverse twice, statistics partition.",
         "Trusted base: simulator O3; 'basic' = not CCZ/TOFF/ParityPhase acting on one or two distinct in-range qubits.", "6/C15"),
 "C19": (True, "runtime monitor: seeded generators executed repeatedly (same seed twice, across threads) and their promises checked with the independent simulator/evaluator (hidden-shift outcome probability exactly 1, stabiliser states unit norm, gadget structure)",
         "Exploration: 2000 (quick) instances per generator over seeds and admissible parameters; hidden shift n in {6,8,10,12} with the full exact output state; stabiliser states up to 8 qubits in both backends; Pauli-gadget structure and phases.",
         "Trusted base: O3/O2/O1; 'at most depth gates' read literally; documented panics on inadmissible parameters are counted, not flagged.", "6/C19"),
 "C20": (True, "runtime monitor: detection_webs run on Pauli diagrams under several vertex numberings; every returned web checked against the spider constraints, independence by own F2 elimination, completeness against an independent edge-based linear system and brute-force firing enumeration, span equality across numberings",
         "Exploration with an exhaustive core: every diagram shape up to 4 spiders with up to 2 boundaries (22399 shapes) plus random diagrams, each under 6 numberings (boundaries first/last/interleaved/random); brute-force enumeration for <=10 spiders.",
         "Trusted base: oracle f2small (self-tested) and the edge-based formulation; reading: own-colour Pauli of a Z spider is X (what firing it generates), of an X spider Z.", "6/C20"),
 "C06": (True, "runtime monitor: the real `quizx sim` binary run as a subprocess on generated circuits (amplitude / expectation / sampling, all method x parallel configurations, malformed queries), judged by the independent simulator; per-draw trace hook (H4) checks each sampled bit's conditional probability exactly instead of statistically",
         "Exploration: ~18 000 CLI invocations (quick) over Clifford+T, other-phase, special and malformed families; printed probabilities/expectations vs O3 (1e-9 / 1e-6), every traced Bernoulli draw vs the Born conditional, printed samples consistent with the trace and of non-zero probability, answers equal across --cats/--bss/--parallel, malformed queries rejected without panic.",
         "Trusted base: simulator O3; 120 s per-call watchdog (firing = inconclusive); hook H4 only reports the probability handed to the RNG.", "6/C06"),
 "C17": (True, "runtime monitor: Mat2 gauss/rank/inverse/nullspace/algebra executed on exhaustive small matrices x all block sizes x both modes and biased random matrices, judged by an independent bit-row F2 oracle and by replaying the reported row operations on a second object",
         "Exploration with an exhaustive core: all matrices of 26 small shapes (incl. 3x4, 4x3, 4x4) x every block size x both reduction modes, plus 60 000 random matrices up to 24x24 in 9 bias classes; rank, row-space equality, (reduced) echelon form, operation replay on an unrelated object, inverse iff invertible and two-sided, null-space annihilation/independence/count, 21 algebraic laws.",
         "Trusted base: oracle f2 (self-tested against enumeration at every start).", "6/C17"),
 "C18": (True, "runtime monitor: move histories on rank-decomposition trees (all small graphs + random), after every move a structural check, is_valid_for_graph and cached width/score vs clone-with-cleared-cache vs brute-force cut ranks from an independent F2 oracle; annealer parameter grid",
         "Exploration: every labelled graph on 2-4 vertices x first move x seeds, 8000 random histories (n<=14, up to 200 moves, 3 backends, 3 RNGs: ~875 000 moves, ~887 000 width comparisons with empty/partial/full caches), annealer grid of 270 parameter points.",
         "Trusted base: oracle f2 and the harness's own leaf-partition computation; rank_decomp uses rand::rng() so those 80 cases are judged on the returned tree only.", "6/C18"),
 "C08": (True, "runtime monitor: the library's own tensor evaluation (diagrams and circuits, exact and float) compared entry by entry with the independent evaluator/simulator; comparison helpers against a model relation on generated tensor pairs; constructors/plug_n_qubits against a flat-tensor model in several memory layouts; Miri on a miniature workload (thorough)",
         "Exploration: ~180 000 evaluations (quick): arbitrary/graph-like/gadget-rich/listed-shape/exhaustive-tiny diagrams in both backends, circuits over all supported gates, 11 classes of tensor pairs for ==/scalar_eq/compare/scalar_compare, constructors and in-place helpers in standard/swapped/column-major/strided layouts; thorough adds a Miri run (tree borrows) of 32 cases through to_tensor4/hadamard_at/plug_n_qubits.",
         "Trusted base: O1/O2/O3 and the flat-tensor model tmodel (self-tested against O3). TensorF helpers are judged only on float-robust clauses.", "6/C08"),
 "C11": (True, "runtime monitor: plug/append_graph/adjoint/plug_inputs/plug_outputs/plug_vertex/is_identity executed on generated composable pairs (seam-stress shapes, both and mixed backends) and compared with tensor algebra on the independent evaluator's results",
         "Exploration: ~124 000 evaluations (quick): forced-arity pair generator with Hadamard boundary edges, bare wires, caps/cups, many seam wires into one spider; every list length 0..=n and all 5^len lists (len<=2, sampled beyond) for basis plugging; 9 near-identity variants for is_identity.",
         "Trusted base: O1/O2 and the compose/tensor/dagger helpers (self-tested).", "6/C11"),
 "C12": (True, "runtime monitor: all eight equality entry points called on generated circuit pairs with known relation; ground truth from the independent simulator/evaluator; definite answers counted so the check is not vacuous",
         "Exploration: ~118 000 evaluations (quick) over independent, different-arity, re-extracted, commuted, cancelling, one-gate, global-phase, Hadamard-on-wire, wire-permutation and float-heavy pairs; Some(true) must mean equal for the requested mode, Some(false) not exactly equal, None allowed but counted; tensor check iff exactly equal (exact pool), dim check iff equal arities.",
         "Trusted base: O3/O2; equal_graph_tensor calls predicted to be wider than 16 are not issued (counted).", "6/C12"),
 "C13": (True, "runtime monitor: qgraph encode/decode and serde round trips executed on generated and simplifier-produced diagrams in all backend combinations, judged by an anchored isomorphism oracle, exact scalar comparison and the independent evaluator",
         "Exploration: ~71 000 round-trip paths (quick): diagrams left by 8 simplifiers on Clifford+T inputs, arbitrary diagrams with H-boxes / coordinate modes / denominators <=256 and >256, every sqrt2^p*omega^k scalar for |p|<=40; iso with ordered inputs/outputs, phases, edge kinds, coordinates; scalar exact resp. 1e-9; E(decoded)=E(original).",
         "Trusted base: oracle iso (every witness re-verified; self-tested), O1/O2.", "6/C13"),
 "C14": (True, "runtime monitor: to_qasm/from_qasm round trips (exhaustive k/d for d<=16), generated QASM texts with independently computed expected circuits, and a rejection corpus that must yield Err without panic",
         "Exploration with an exhaustive core: all 607 single-gate round trips for every k/d, d<=16, plus 8000 random circuits (zero gates, idle qubits, ancilla gates), 10 000 texts (several registers, 10 phase-expression forms, nested user gates, broadcasts, measure), 5000 rejection texts (barrier, reset, if, U, undefined / include-only names) with the construct first/middle/last/alone.",
         "Trusted base: the monitor's own expected-circuit computation; decimals are compared within the f32 precision the parser documents; 0-qubit circuits excluded (OpenQASM has no empty register).", "6/C14"),
 "C05": (True, "runtime monitor: all decomposition drivers x simplification levels x component splitting x sequential/parallel (rayon pools of 1..16 threads) on generated closed Clifford+T diagrams vs the independent exact evaluator; per-step identity checked offline on the recorded step log (hook H3) incl. steps executed on worker threads; saved terms of open diagrams; Miri (8 schedules) and ThreadSanitizer stress in the thorough tier",
         "Exploration: ~160 000 decomposer runs and direct steps (quick) over 84 configurations, ~450 000 logged steps of every Decomp kind embedded in host graphs on >300 distinct threads, parallel == sequential for k in {1,2,3,4,8,16}; saved terms of BssTOnly/BssWithCats on diagrams with 1-3 outputs; thorough adds T-count <= 12, Miri with tree borrows on 8 scheduler seeds and a TSan stress with a canary race.",
         "Trusted base: O1/O2; schedules are sampled, not enumerated (the parallel code shares no mutable state); Sherlock is driven with three-entry `tries` only.", "6/C05"),
 "C07": (True, "runtime monitor: random expression trees over Scalar4/Dyadic; after every node the stored value (read through the verif_raw hook) is compared with an exact BigInt model; approx-flag honesty, predicates, conversions and ordering checked against the model",
         "Exploration: ~4 million expression nodes (quick) with operands biased to the edge cases (alignment shifts 0/1/63/64/65/>128, 64-significant-bit mantissas, cancellation to zero, approx-flagged zeros); unflagged => exactly equal to the model; is_zero/is_one/==/exact_phase_and_sqrt2_pow agree with the model value; complex_value/f64 conversions vs exact nearest-f64 within 1e-12; Dyadic cmp/</abs_diff_eq vs the order of the reals.",
         "Trusted base: ring O1 (BigInt) and oracle ratio; exponents kept where i32 cannot overflow ('supported range'); conversions are judged inside the window the conversion itself accepts (the window's extent is reported as an observation).", "6/C07"),
 "C09": (True, "runtime monitor: operation histories over the whole public graph interface applied to the vector backend, the hash backend and a BTreeMap reference model; full observable state compared after every operation; pack/clone/copy judged through harness tags",
         "Exploration: 24 000 histories / 1.7 million operations / 3.5 million state comparisons (quick), every operation kind >= 1400 times, heavy delete/re-add churn (206 000 hole reuses), named insertion in all four id classes, all smart-edge cases, packs with renaming, clones with independence checks; first hit of each signature is delta-debugged.",
         "Trusted base: reference model refgraph (self-tested); only arguments the documentation calls valid are issued; copy() follows the behaviour shared by both backends (vertices and edges only).", "6/C09"),
 "C16": (True, "runtime monitor: Phase operations on generated rationals/integers/floats compared with exact BigInt rational arithmetic modulo 2; limit_denominator against a literal CPython port, brute force for m <= 64 and - offline over a recorded event log - the real Python fractions.Fraction",
         "Exploration: 544 000 evaluations (quick): normal form in (-1,1], == iff equal classes, +,-,neg,*i64, predicates depend only on the class, limit_denominator for m in [2,10^4] (19 840 events re-checked by python3 fractions per quick run), from_f64/to_f64 round trip within 4 ulp.",
         "Trusted base: oracle ratio (self-tested), CPython's fractions module for the offline log check (python failure = inconclusive). One open known finding (from_f64 on golden-ratio-like floats, root cause in num-rational).", "6/C16"),
}

NOT_YET = {}

def main():
    props = [json.loads(l) for l in open('/verif/properties.jsonl')]
    log = subprocess.run(['git','-C','/repo','log','--format=%H %s'],capture_output=True,text=True).stdout.splitlines()
    hooks = [l.split()[0] for l in log if l.split(' ',1)[1].startswith('verif hook')]
    checks=[]; na=[]
    for p in props:
        pid=p['id']
        ent=CHECKS.get(pid)
        if ent and ent[0]:
            checks.append({
              "property_id": pid,
              "quick_cmd": f"./check {pid} quick",
              "thorough_cmd": f"./check {pid} thorough",
              "evidence_file": f"/verif/evidence/{pid}.json",
              "replay_cmd_template": f"./check {pid} --replay {{path}}",
              "engine": "qvmon",
              "level_claimed": {"category":"exploration","text":ent[2]+ADDED.get(pid,""),"design_ref":ent[4]},
              "level_note": ent[3],
              "technique": ent[1],
            })
        else:
            na.append({"property_id": pid, "reason": NOT_YET.get(pid, "monitor not built yet in this session (work in progress; planned in DESIGN.md section 6) - not a statement about applicability")})
    m={
      "version":1,
      "setup_cmd":"./setup.sh",
      "hooks":{
        "guard":"cargo feature `verif` of crate quizx (off by default)",
        "enable":"the harness depends on quizx = { path = \"/repo/quizx\", features = [\"verif\"] }; the CLI is built with --features verif",
        "baseline_off_cmd":"cd /repo && cargo nextest run --workspace --no-fail-fast --test-threads 8 --offline",
        "source_commits": hooks,
        "add_only": True,
      },
      "engines":[{"name":"qvmon","path":"/verif/harness","serves_properties":[c['property_id'] for c in checks],
                  "kind_free_text":"Rust harness crate: independent oracles (exact Z[omega][1/2] ring, ZX evaluator, gate-matrix simulator, reference models), workload generators, one runtime monitor per property; runs the real quizx code (path dependency, feature verif) and observes executions at the API/CLI boundary"}],
      "checks":checks,
      "not_applicable":na,
      "notes":"All verdicts are 'held on the executions observed'. See DESIGN.md. known_findings.json lists genuine defects (fixed ones as documentation).",
    }
    json.dump(m,open('/verif/MANIFEST.json','w'),indent=1)
    print("checks:",[c['property_id'] for c in checks],"na:",len(na))
main()

#!/usr/bin/env python3
"""Regenerate /verif/MANIFEST.json from the table below (single source of truth)."""
import json, subprocess

HOOK_COMMITS = []  # filled from git log below

CHECKS = {
 # id: (built, technique, level text, level note, design ref)
 "C01": (True, "runtime monitor: before/after snapshots of every simplifier x backend evaluated by an independent exact ZX evaluator; rewrite-budget hook for termination; panics as data",
         "Exploration: every simplification procedure is executed on generated well-formed diagrams (arbitrary, graph-like, gadget-rich, circuit-derived; exhaustive for <=2 (quick) / <=3 (thorough) spiders) in both backends and the linear map before/after is compared exactly in Z[omega][1/2] (1e-8 for non-pi/4 phases). Held on the executions produced, not a proof.",
         "Trusted base: harness oracles O1 (ring) and O2 (evaluator), self-tested and cross-checked against O3 at every start; termination only in bounded-progress form (rewrite budget).", "6/C01"),
}

NOT_YET = {}

def main():
    props = [json.loads(l) for l in open('/verif/properties.jsonl')]
    log = subprocess.run(['git','-C','/repo','log','--format=%H %s'],capture_output=True,text=True).stdout.splitlines()
    hooks = [l.split()[0] for l in log if l.split(' ',1)[1].startswith('verif hook')]
    checks=[]; na=[]
    for p in props:
        pid=p['id']
        ent=CHECKS.get(pid)
        if ent and ent[0]:
            checks.append({
              "property_id": pid,
              "quick_cmd": f"./check {pid} quick",
              "thorough_cmd": f"./check {pid} thorough",
              "evidence_file": f"/verif/evidence/{pid}.json",
              "replay_cmd_template": f"./check {pid} --replay {{path}}",
              "engine": "qvmon",
              "level_claimed": {"category":"exploration","text":ent[2],"design_ref":ent[4]},
              "level_note": ent[3],
              "technique": ent[1],
            })
        else:
            na.append({"property_id": pid, "reason": NOT_YET.get(pid, "monitor not built yet in this session (work in progress; planned in DESIGN.md section 6) - not a statement about applicability")})
    m={
      "version":1,
      "setup_cmd":"./setup.sh",
      "hooks":{
        "guard":"cargo feature `verif` of crate quizx (off by default)",
        "enable":"the harness depends on quizx = { path = \"/repo/quizx\", features = [\"verif\"] }; the CLI is built with --features verif",
        "baseline_off_cmd":"cd /repo && cargo nextest run --workspace --no-fail-fast --test-threads 8 --offline",
        "source_commits": hooks,
        "add_only": True,
      },
      "engines":[{"name":"qvmon","path":"/verif/harness","serves_properties":[c['property_id'] for c in checks],
                  "kind_free_text":"Rust harness crate: independent oracles (exact Z[omega][1/2] ring, ZX evaluator, gate-matrix simulator, reference models), workload generators, one runtime monitor per property; runs the real quizx code (path dependency, feature verif) and observes executions at the API/CLI boundary"}],
      "checks":checks,
      "not_applicable":na,
      "notes":"All verdicts are 'held on the executions observed'. See DESIGN.md. known_findings.json lists genuine defects (fixed ones as documentation).",
    }
    json.dump(m,open('/verif/MANIFEST.json','w'),indent=1)
    print("checks:",[c['property_id'] for c in checks],"na:",len(na))
main()

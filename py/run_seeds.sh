#!/bin/bash
# Run every seeded defect under /verif/seeded against the check of its property (quick tier)
# in an isolated copy of /repo + harness (py/mutant.sh) and record the outcome in meta.json.
#   usage: run_seeds.sh [seed-id ...]      (default: all)
cd /verif/seeded
# one mutant directory per invocation (MUT_DIR, default /tmp/mut): serialise invocations that share it
export MUT_DIR=${MUT_DIR:-/tmp/mut}
exec 9>/tmp/run_seeds.$(basename $MUT_DIR).lock; flock 9
IDS="$@"; [ -z "$IDS" ] && IDS=$(ls -d */ | tr -d /)
for id in $IDS; do
  prop=$(python3 -c "import json;print(json.load(open('/verif/seeded/$id/meta.json'))['property'])")
  extra=$(python3 -c "import json;print(' '.join(json.load(open('/verif/seeded/$id/meta.json')).get('also_run',[])))")
  out=$(MUT_ALL=1 MUT_LINES=400 /verif/py/mutant.sh /verif/seeded/$id/patch.diff $prop $extra 2>&1)
  python3 - "$id" "$prop" <<PY
import json,sys,re
i,prop=sys.argv[1:3]
out='''$out'''
m=json.load(open(f'/verif/seeded/{i}/meta.json'))
res={}
if 'PATCH-FAILED' in out:
    res={'status':'patch does not apply to the current tree'}
else:
    sigs=re.findall(r'signature: (.*?)  \(x(\d+)\)',out)
    runs=re.findall(r'^(C\d+) quick seed=(\d+).*violations=(\d+)',out,re.M)
    res={'status':'run','tier':'quick','checks':{r[0]:{'seed':int(r[1]),'distinct_violation_signatures':int(r[2])} for r in runs},
         'first_signatures':[f'{s} (x{n})' for s,n in sigs[:6]],
         'detected': any(int(r[2])>0 for r in runs)}
m['detection']=res
json.dump(m,open(f'/verif/seeded/{i}/meta.json','w'),indent=1)
print(i, res.get('detected'), res.get('status'), (res.get('first_signatures') or [''])[0][:100])
PY
done

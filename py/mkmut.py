#!/usr/bin/env python3
"""mkmut.py <repo-relative-file> <old> <new> [occurrence] : print a unified diff replacing the
n-th (default 1st) occurrence of <old> by <new> in /repo/<file>."""
import sys, difflib
f, old, new = sys.argv[1:4]
occ = int(sys.argv[4]) if len(sys.argv) > 4 else 1
src = open('/repo/' + f).read()
idx = -1
for _ in range(occ):
    idx = src.index(old, idx + 1)
dst = src[:idx] + new + src[idx + len(old):]
sys.stdout.writelines(difflib.unified_diff(src.splitlines(True), dst.splitlines(True), 'a/' + f, 'b/' + f))

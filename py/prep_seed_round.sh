#!/bin/bash
# prep_seed_round.sh <round-tag> <Cxx> [...]: create one scratch worktree of /repo per property
# under /tmp/seed<tag>-<Cxx> and the hand-out for a seeding sub-agent in /tmp/seed<tag>-<Cxx>-out
# (PROPERTY.txt = the text of the property + a one-line description of the changes earlier
# testers delivered + a hint about a generic defender; PROMPT.txt = what the agent is told).
# Nothing from /verif's checks goes into the hand-out. HINT_FILE=<file> replaces the built-in hint.
set -u
TAG=$1; shift
for p in "$@"; do
  [ -d /tmp/seed$TAG-$p ] || git -C /repo worktree add -q --detach /tmp/seed$TAG-$p HEAD
  mkdir -p /tmp/seed$TAG-$p-out
  echo "Read the instructions in /tmp/seed-prompt.txt and follow them exactly, with WT=/tmp/seed$TAG-$p and OUT=/tmp/seed$TAG-$p-out. OUT/PROPERTY.txt also contains (a) the changes earlier testers already delivered - do not repeat them - and (b) an ADVERSARIAL HINT describing the defender's test strategy: follow it, your two changes should be as hard as possible for that strategy to hit while remaining legal uses covered by the property's quantifier. (WT, OUT and /tmp/seed-prompt.txt are the only places you may read or write; do not look at /verif or /repo.) Keep every single message you write short (well under 2000 words): write long material to files under OUT instead of into messages." > /tmp/seed$TAG-$p-out/PROMPT.txt
done
python3 - "$TAG" "$@" <<'PY'
import json,os,re,sys
tag=sys.argv[1]; props=sys.argv[2:]
used={}
for d in sorted(os.listdir('/verif/seeded')):
    try: m=json.load(open(f'/verif/seeded/{d}/meta.json'))
    except Exception: continue
    diff=open(f'/verif/seeded/{d}/patch.diff').read()
    files=re.findall(r'^\+\+\+ b/(\S+)',diff,re.M)
    hunks=re.findall(r'^@@[^@]*@@ *(.*)$',diff,re.M)
    notes=open(f'/verif/seeded/{d}/author_notes.txt').read() if os.path.exists(f'/verif/seeded/{d}/author_notes.txt') else ''
    lines=[l.strip() for l in notes.splitlines() if l.strip() and not set(l.strip())<=set('=-')][:2]
    used.setdefault(m['property'],[]).append((', '.join(files)+' @ '+(hunks[0][:60] if hunks else '')+' :: '+' / '.join(lines))[:300])
HINT=("ADVERSARIAL HINT: assume the defender runs a randomised differential tester: thousands of small random inputs per run "
 "(diagrams with up to ~10 spiders, circuits with up to ~5 qubits and ~30 gates, operation histories of a few hundred steps, all phases "
 "multiples of pi/4 or small rationals), both graph backends, every public entry point named in the statement, compared against an "
 "independent exact oracle. Design changes that such a tester is UNLIKELY to hit: they should need the conjunction of at least three "
 "independent conditions (e.g. a specific backend AND a specific history of deletions AND a specific degree/edge-type pattern; or a "
 "specific gate triple on specific relative qubit positions; or sizes just above what a small-input tester generates, like 7+ qubits, "
 "65+ vertices, a denominator above 2^16, a circuit with 100+ gates), while still being reachable by legal use covered by the "
 "quantifier. State the estimated probability that a uniformly random small input triggers it.\n")
if os.environ.get('HINT_FILE'):
    HINT=open(os.environ['HINT_FILE']).read()
for l in open('/verif/properties.jsonl'):
    p=json.loads(l)
    if p['id'] in props:
        txt=f"{p['id']}: {p['title']}\n\nSTATEMENT: {p['statement']}\n\nQUANTIFIER: {p['quantifier']['text']}\n\nALREADY USED by earlier testers (yours must use DIFFERENT functions/mechanisms):\n"
        for u in used.get(p['id'],[]): txt+=f" - {u}\n"
        txt+="\n"+HINT
        open(f"/tmp/seed{tag}-{p['id']}-out/PROPERTY.txt",'w').write(txt)
PY
echo prepared: "$@"

#!/usr/bin/env python3
"""Offline checker for property C16 (limit_denominator clause).

Reads an event log written by the C16 monitor (JSON lines
  {"n": .., "d": .., "m": .., "rn": .., "rd": .., ["raw": 1]})
where n/d is the rational handed to quizx, m the denominator bound and rn/rd the
rational quizx returned, and re-checks every event against the *real*
fractions.Fraction.limit_denominator of the running CPython.

* events without "raw" come from `Phase::limit_denominator`: the expected result is
  Fraction(n, d).limit_denominator(m) normalised modulo 2 into (-1, 1] (what Phase does
  with every value it stores);
* events with "raw": 1 come from the free function `phase::utils::limit_denominator`
  and are compared without normalisation.

Output: one JSON line {"checked": N, "mismatches": K, "examples": [...], "python": "x.y.z"}.
Exit code 0 = all events agree, 1 = at least one mismatch, 2 = the checker itself failed
(unreadable log, malformed line) -- the monitor treats 2 / anything else as inconclusive.
"""
import json
import sys
from fractions import Fraction


def norm_mod2(x: Fraction) -> Fraction:
    """the representative in (-1, 1] of x modulo 2"""
    y = x % 2  # in [0, 2)
    if y > 1:
        y -= 2
    return y


def main(argv):
    if len(argv) != 2:
        print(json.dumps({"error": "usage: c16_fraction_check.py <events.jsonl>"}))
        return 2
    checked = 0
    mismatches = 0
    examples = []
    try:
        with open(argv[1], "r", encoding="utf-8") as fh:
            for lineno, line in enumerate(fh, 1):
                line = line.strip()
                if not line:
                    continue
                ev = json.loads(line)
                n, d, m = int(ev["n"]), int(ev["d"]), int(ev["m"])
                rn, rd = int(ev["rn"]), int(ev["rd"])
                if d == 0 or rd == 0 or m < 1:
                    raise ValueError(f"line {lineno}: malformed event {ev}")
                want = Fraction(n, d).limit_denominator(m)
                if not ev.get("raw"):
                    want = norm_mod2(want)
                got = Fraction(rn, rd)
                checked += 1
                if got != want:
                    mismatches += 1
                    if len(examples) < 5:
                        examples.append(
                            {
                                "event": ev,
                                "python": [want.numerator, want.denominator],
                                "quizx": [got.numerator, got.denominator],
                            }
                        )
    except Exception as exc:  # noqa: BLE001 - any failure of the checker is "inconclusive"
        print(json.dumps({"error": f"{type(exc).__name__}: {exc}", "checked": checked}))
        return 2
    print(
        json.dumps(
            {
                "checked": checked,
                "mismatches": mismatches,
                "examples": examples,
                "python": "%d.%d.%d" % sys.version_info[:3],
            }
        )
    )
    return 1 if mismatches else 0


if __name__ == "__main__":
    sys.exit(main(sys.argv))

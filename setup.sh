#!/bin/bash
# setup_cmd: offline build of the harness and of the hooked CLI from files on disk.
set -eu
export CARGO_NET_OFFLINE=true
cd /verif/harness
cargo build --release --offline
cargo build --release --offline --features verif --bin quizx \
  --manifest-path /repo/quizx/Cargo.toml --target-dir /verif/harness/target-cli
echo "setup ok"

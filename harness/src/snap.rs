//! Backend-independent snapshots of quizx graphs, taken through the public interface,
//! and their evaluation by the independent oracle.

use crate::oracle::eval::{self, Diag, EvalError, EK, VK};
use crate::oracle::ring::{r_of_scalar, scalar_is_approx, Cf, Num, R};
use quizx::graph::{EType, GraphLike, VType};
use serde_json::{json, Value};

#[derive(Clone, Debug)]
pub struct Snap {
    pub diag: Diag,
    pub scalar: R,
    pub scalar_approx: bool,
}

pub fn vk(t: VType) -> Option<VK> {
    match t {
        VType::B => Some(VK::B),
        VType::Z => Some(VK::Z),
        VType::X => Some(VK::X),
        _ => None,
    }
}

pub fn diag_of(g: &impl GraphLike) -> Result<Diag, String> {
    let mut verts = vec![];
    for v in g.vertices() {
        let t = g.vertex_type(v);
        let k = vk(t).ok_or_else(|| format!("vertex {v} has unsupported kind {t:?}"))?;
        let r = g.phase(v).to_rational();
        verts.push((v, k, *r.numer(), *r.denom()));
    }
    verts.sort();
    let mut edges = vec![];
    for (s, t, et) in g.edges() {
        let k = match et {
            EType::N => EK::N,
            EType::H => EK::H,
            other => return Err(format!("edge ({s},{t}) has unsupported kind {other:?}")),
        };
        edges.push((s.min(t), s.max(t), k));
    }
    edges.sort();
    Ok(Diag { verts, edges, inputs: g.inputs().clone(), outputs: g.outputs().clone() })
}

pub fn snap(g: &impl GraphLike) -> Result<Snap, String> {
    Ok(Snap { diag: diag_of(g)?, scalar: r_of_scalar(g.scalar()), scalar_approx: scalar_is_approx(g.scalar()) })
}

#[derive(Clone, Debug)]
pub enum Tens {
    Exact(Vec<R>),
    Float(Vec<Cf>),
    /// float tensor whose entries carry a non-negligible absolute cancellation noise (see
    /// `eval::eval_float_noise`); only produced by `eval_snap` when that noise is larger
    /// than 1% of the comparison tolerance
    FloatN(Vec<Cf>, f64),
}

impl Tens {
    pub fn to_float(&self) -> Vec<Cf> {
        match self {
            Tens::Exact(v) => v.iter().map(|r| r.to_cf()).collect(),
            Tens::Float(v) | Tens::FloatN(v, _) => v.clone(),
        }
    }
    pub fn len(&self) -> usize {
        match self {
            Tens::Exact(v) => v.len(),
            Tens::Float(v) | Tens::FloatN(v, _) => v.len(),
        }
    }
    /// absolute noise allowance of this tensor's entries (0 unless FloatN)
    pub fn noise(&self) -> f64 {
        match self {
            Tens::FloatN(_, n) => *n,
            _ => 0.0,
        }
    }
    pub fn is_exact(&self) -> bool {
        matches!(self, Tens::Exact(_))
    }
    /// exact equality when both are exact, otherwise closeness with tolerance
    pub fn same(&self, other: &Tens, tol: f64) -> bool {
        match (self, other) {
            (Tens::Exact(a), Tens::Exact(b)) => a == b,
            _ => {
                let noise = self.noise() + other.noise();
                if noise == 0.0 {
                    eval::close(&self.to_float(), &other.to_float(), tol)
                } else {
                    let (a, b) = (self.to_float(), other.to_float());
                    if a.len() != b.len() {
                        return false;
                    }
                    let m = a.iter().chain(b.iter()).map(|x| x.norm()).fold(1.0f64, f64::max);
                    m.is_finite() && a.iter().zip(b.iter()).all(|(x, y)| (x - y).norm() <= tol * m + noise)
                }
            }
        }
    }
    pub fn proportional(&self, other: &Tens, tol: f64) -> bool {
        match (self, other) {
            (Tens::Exact(a), Tens::Exact(b)) => eval::proportional_exact(a, b),
            _ => eval::proportional_float(&self.to_float(), &other.to_float(), tol),
        }
    }
    pub fn is_all_zero(&self) -> bool {
        match self {
            Tens::Exact(v) => v.iter().all(|x| x.is_zero()),
            Tens::Float(v) => v.iter().all(|x| x.norm() < 1e-12),
            Tens::FloatN(v, n) => v.iter().all(|x| x.norm() < 1e-12 + n),
        }
    }
    pub fn brief(&self) -> Value {
        let f = self.to_float();
        let v: Vec<String> = f.iter().take(16).map(|c| format!("{:.6}{:+.6}i", c.re, c.im)).collect();
        json!({"exact": self.is_exact(), "len": f.len(), "head": v})
    }
}

pub const FLOAT_TOL: f64 = 1e-8;

/// Evaluate a snapshot: exactly when all phases are multiples of pi/4 and the scalar is
/// not flagged approximate, in floating point otherwise.
pub fn eval_snap(s: &Snap) -> Result<Tens, EvalError> {
    if s.diag.all_phases_pi4() && !s.scalar_approx {
        Ok(Tens::Exact(eval::eval_exact(&s.diag, &s.scalar)?))
    } else if s.diag.all_phases_pi4() {
        // only the stored scalar is inexact: keep the diagram part exact
        Ok(Tens::Float(eval::eval_exact_times_float(&s.diag, s.scalar.to_cf())?))
    } else {
        let (v, noise) = eval::eval_float_noise(&s.diag, s.scalar.to_cf())?;
        let m = v.iter().map(|x| x.norm()).fold(1.0f64, f64::max);
        if noise > 0.01 * FLOAT_TOL * m {
            Ok(Tens::FloatN(v, noise))
        } else {
            Ok(Tens::Float(v))
        }
    }
}

pub fn eval_graph(g: &impl GraphLike) -> Result<Tens, EvalError> {
    let s = snap(g).map_err(EvalError::IllFormed)?;
    eval_snap(&s)
}

pub fn diag_json(d: &Diag) -> Value {
    json!({
        "verts": d.verts.iter().map(|v| json!([v.0, format!("{:?}", v.1), format!("{}/{}", v.2, v.3)])).collect::<Vec<_>>(),
        "edges": d.edges.iter().map(|e| json!([e.0, e.1, format!("{:?}", e.2)])).collect::<Vec<_>>(),
        "inputs": d.inputs,
        "outputs": d.outputs,
    })
}

pub fn snap_json(s: &Snap) -> Value {
    let mut v = diag_json(&s.diag);
    v["scalar"] = json!(format!("{}", s.scalar));
    v["scalar_approx"] = json!(s.scalar_approx);
    v
}

pub fn graph_json(g: &impl GraphLike) -> Value {
    match snap(g) {
        Ok(s) => snap_json(&s),
        Err(e) => json!({"unsnappable": e}),
    }
}

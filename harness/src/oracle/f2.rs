//! O5/f2 -- matrices over the two-element field, written for the harness only.
//!
//! Representation: one `u64` per row, bit `j` of `r[i]` is the entry (i, j); at most 64
//! columns. Shares no code with `quizx::linalg` or `bitgauss`: elimination is the textbook
//! algorithm (find a pivot at or below the current row, SWAP it up, clear the column),
//! and for small sizes rank / row space / null space are computed by plain enumeration of
//! all linear combinations, which is the definition rather than an algorithm.

#[derive(Clone, PartialEq, Eq, Hash, Debug)]
pub struct F2 {
    pub rows: usize,
    pub cols: usize,
    pub r: Vec<u64>,
}

pub const MAX_COLS: usize = 64;

fn mask(cols: usize) -> u64 {
    if cols >= 64 {
        u64::MAX
    } else {
        (1u64 << cols) - 1
    }
}

impl F2 {
    pub fn zeros(rows: usize, cols: usize) -> F2 {
        assert!(cols <= MAX_COLS, "oracle overflow: F2 supports at most 64 columns");
        F2 { rows, cols, r: vec![0; rows] }
    }

    pub fn identity(n: usize) -> F2 {
        let mut m = F2::zeros(n, n);
        for i in 0..n {
            m.r[i] = 1u64 << i;
        }
        m
    }

    pub fn from_fn(rows: usize, cols: usize, f: impl Fn(usize, usize) -> bool) -> F2 {
        let mut m = F2::zeros(rows, cols);
        for i in 0..rows {
            for j in 0..cols {
                if f(i, j) {
                    m.r[i] |= 1u64 << j;
                }
            }
        }
        m
    }

    /// Entry (i,j) = bit `i*cols + j` of `bits` (row-major); used by exhaustive enumeration.
    pub fn from_bits(rows: usize, cols: usize, bits: u64) -> F2 {
        F2::from_fn(rows, cols, |i, j| (bits >> (i * cols + j)) & 1 == 1)
    }

    /// From nested 0/1 rows (any non-zero byte counts as 1 -- callers pass 0/1 only).
    /// `cols` is given explicitly because an empty row list carries no width.
    pub fn from_rows(cols: usize, d: &[Vec<u8>]) -> Option<F2> {
        let mut m = F2::zeros(d.len(), cols);
        for (i, row) in d.iter().enumerate() {
            if row.len() != cols {
                return None;
            }
            for (j, &x) in row.iter().enumerate() {
                if x > 1 {
                    return None;
                }
                if x == 1 {
                    m.r[i] |= 1u64 << j;
                }
            }
        }
        Some(m)
    }

    pub fn to_rows(&self) -> Vec<Vec<u8>> {
        (0..self.rows).map(|i| (0..self.cols).map(|j| self.get(i, j) as u8).collect()).collect()
    }

    pub fn get(&self, i: usize, j: usize) -> bool {
        (self.r[i] >> j) & 1 == 1
    }

    pub fn set(&mut self, i: usize, j: usize, b: bool) {
        if b {
            self.r[i] |= 1u64 << j;
        } else {
            self.r[i] &= !(1u64 << j);
        }
    }

    pub fn is_zero(&self) -> bool {
        self.r.iter().all(|&x| x == 0)
    }

    pub fn transpose(&self) -> F2 {
        assert!(self.rows <= MAX_COLS, "oracle overflow: transpose needs rows <= 64");
        F2::from_fn(self.cols, self.rows, |i, j| self.get(j, i))
    }

    /// Definition of the matrix product: c[i][j] = XOR_k a[i][k] & b[k][j].
    pub fn mul(&self, b: &F2) -> F2 {
        assert_eq!(self.cols, b.rows, "oracle: mul dimension mismatch");
        let mut c = F2::zeros(self.rows, b.cols);
        for i in 0..self.rows {
            for j in 0..b.cols {
                let mut s = false;
                for k in 0..self.cols {
                    s ^= self.get(i, k) & b.get(k, j);
                }
                c.set(i, j, s);
            }
        }
        c
    }

    /// M * x for a column vector given as a bit mask over the columns.
    pub fn apply(&self, x: u64) -> u64 {
        let mut out = 0u64;
        for i in 0..self.rows {
            if (self.r[i] & x).count_ones() % 2 == 1 {
                out |= 1u64 << i;
            }
        }
        out
    }

    pub fn vstack(&self, b: &F2) -> F2 {
        assert_eq!(self.cols, b.cols, "oracle: vstack dimension mismatch");
        let mut r = self.r.clone();
        r.extend_from_slice(&b.r);
        F2 { rows: self.rows + b.rows, cols: self.cols, r }
    }

    pub fn hstack(&self, b: &F2) -> F2 {
        assert_eq!(self.rows, b.rows, "oracle: hstack dimension mismatch");
        assert!(self.cols + b.cols <= MAX_COLS, "oracle overflow: hstack wider than 64 columns");
        F2::from_fn(self.rows, self.cols + b.cols, |i, j| if j < self.cols { self.get(i, j) } else { b.get(i, j - self.cols) })
    }

    pub fn row_add(&mut self, r0: usize, r1: usize) {
        let x = self.r[r0];
        self.r[r1] ^= x;
    }

    pub fn row_swap(&mut self, r0: usize, r1: usize) {
        self.r.swap(r0, r1);
    }

    pub fn col_add(&mut self, c0: usize, c1: usize) {
        for i in 0..self.rows {
            if self.get(i, c0) {
                self.r[i] ^= 1u64 << c1;
            }
        }
    }

    pub fn col_swap(&mut self, c0: usize, c1: usize) {
        for i in 0..self.rows {
            let (a, b) = (self.get(i, c0), self.get(i, c1));
            self.set(i, c0, b);
            self.set(i, c1, a);
        }
    }

    /// Textbook Gauss-Jordan with row swaps: returns (reduced row echelon form, pivot columns).
    pub fn rref(&self) -> (F2, Vec<usize>) {
        let mut m = self.clone();
        let mut piv = vec![];
        let mut row = 0;
        for col in 0..self.cols {
            if row == self.rows {
                break;
            }
            let Some(p) = (row..self.rows).find(|&i| m.get(i, col)) else { continue };
            m.r.swap(row, p);
            for i in 0..self.rows {
                if i != row && m.get(i, col) {
                    let x = m.r[row];
                    m.r[i] ^= x;
                }
            }
            piv.push(col);
            row += 1;
        }
        (m, piv)
    }

    pub fn rank(&self) -> usize {
        self.rref().1.len()
    }

    /// All vectors of the row space, sorted (enumerates every subset of rows). rows <= 20.
    pub fn row_space_brute(&self) -> Vec<u64> {
        assert!(self.rows <= 20, "oracle overflow: brute-force row space needs rows <= 20");
        let mut out = Vec::with_capacity(1 << self.rows);
        for s in 0u64..(1u64 << self.rows) {
            let mut v = 0u64;
            for i in 0..self.rows {
                if (s >> i) & 1 == 1 {
                    v ^= self.r[i];
                }
            }
            out.push(v);
        }
        out.sort_unstable();
        out.dedup();
        out
    }

    /// rank = log2 |row space| (definition). rows <= 20.
    pub fn rank_brute(&self) -> usize {
        let n = self.row_space_brute().len();
        debug_assert!(n.is_power_of_two());
        n.trailing_zeros() as usize
    }

    /// All x with M x = 0, sorted (enumerates all 2^cols vectors). cols <= 20.
    pub fn null_space_brute(&self) -> Vec<u64> {
        assert!(self.cols <= 20, "oracle overflow: brute-force null space needs cols <= 20");
        (0u64..(1u64 << self.cols)).filter(|&x| self.apply(x) == 0).collect()
    }

    /// Same row space, decided through the uniqueness of the reduced echelon form.
    pub fn same_row_space(&self, other: &F2) -> bool {
        if self.cols != other.cols {
            return false;
        }
        let (a, pa) = self.rref();
        let (b, pb) = other.rref();
        pa == pb && a.r[..pa.len()] == b.r[..pb.len()]
    }

    /// Column of the first 1 in row i.
    pub fn lead(&self, i: usize) -> Option<usize> {
        if self.r[i] == 0 {
            None
        } else {
            Some(self.r[i].trailing_zeros() as usize)
        }
    }

    pub fn nonzero_rows(&self) -> usize {
        self.r.iter().filter(|&&x| x != 0).count()
    }

    /// Row echelon form: zero rows last; each leading 1 strictly right of the one above.
    /// Returns Err(reason) for diagnostics.
    pub fn check_echelon(&self) -> Result<Vec<usize>, String> {
        let mut piv = vec![];
        let mut seen_zero = false;
        for i in 0..self.rows {
            match self.lead(i) {
                None => seen_zero = true,
                Some(c) => {
                    if seen_zero {
                        return Err(format!("non-zero row {i} below a zero row"));
                    }
                    if let Some(&last) = piv.last() {
                        if c <= last {
                            return Err(format!("leading 1 of row {i} (col {c}) not right of the one above (col {last})"));
                        }
                    }
                    piv.push(c);
                }
            }
        }
        Ok(piv)
    }

    /// Reduced row echelon form: echelon and every pivot column has a single 1.
    pub fn check_rref(&self) -> Result<Vec<usize>, String> {
        let piv = self.check_echelon()?;
        for (k, &c) in piv.iter().enumerate() {
            for i in 0..self.rows {
                if i != k && self.get(i, c) {
                    return Err(format!("pivot column {c} (row {k}) has another 1 in row {i}"));
                }
            }
        }
        Ok(piv)
    }

    /// Are the given vectors (bit masks) linearly independent?
    pub fn independent(cols: usize, vs: &[u64]) -> bool {
        let m = F2 { rows: vs.len(), cols, r: vs.iter().map(|v| v & mask(cols)).collect() };
        m.rank() == vs.len()
    }

    pub fn hash(&self) -> u64 {
        let mut h: u64 = 0xcbf29ce484222325 ^ ((self.rows as u64) << 32 | self.cols as u64);
        for &x in &self.r {
            h = (h ^ x).wrapping_mul(0x100000001b3);
            h ^= h >> 29;
        }
        h
    }

    pub fn to_json(&self) -> serde_json::Value {
        serde_json::json!({
            "rows": self.rows,
            "cols": self.cols,
            "m": (0..self.rows).map(|i| (0..self.cols).map(|j| if self.get(i, j) { '1' } else { '0' }).collect::<String>()).collect::<Vec<_>>(),
        })
    }
}

/// Self-test: the elimination-based routines against the enumeration-based definitions.
pub fn self_test() -> Result<(), String> {
    // literal facts
    let m = F2::from_rows(4, &[vec![1, 0, 1, 0], vec![1, 1, 1, 1], vec![0, 1, 0, 1]]).unwrap();
    if m.rank() != 2 || m.rank_brute() != 2 {
        return Err("rank of a known rank-2 matrix".into());
    }
    let m3 = F2::from_rows(4, &[vec![1, 0, 1, 0], vec![1, 1, 1, 1], vec![0, 0, 1, 1]]).unwrap();
    if m3.rank() != 3 || m3.rank_brute() != 3 {
        return Err("rank of a known rank-3 matrix".into());
    }
    let a = F2::from_rows(2, &[vec![1, 1], vec![0, 1]]).unwrap();
    if a.mul(&a) != F2::identity(2) {
        return Err("[[1,1],[0,1]]^2 != id".into());
    }
    if m.transpose().to_rows() != vec![vec![1, 1, 0], vec![0, 1, 1], vec![1, 1, 0], vec![0, 1, 1]] {
        return Err("transpose literal".into());
    }
    if F2::from_bits(2, 2, 0b0110).to_rows() != vec![vec![0, 1], vec![1, 0]] {
        return Err("from_bits layout".into());
    }
    // exhaustive: every matrix with rows, cols <= 3, and every 4x3 / 3x4
    for (rows, cols) in [(1, 1), (1, 3), (2, 2), (2, 3), (3, 2), (3, 3), (3, 4), (4, 3)] {
        for bits in 0u64..(1u64 << (rows * cols)) {
            let m = F2::from_bits(rows, cols, bits);
            check_one(&m).map_err(|e| format!("{e} on {}", m.to_json()))?;
        }
    }
    // pseudo-random larger ones (fixed stream), brute force still feasible
    let mut g = XorShift(0x1234_5678_9abc_def0u64);
    for k in 0..300 {
        let rows = 1 + (g.next() % 9) as usize;
        let cols = 1 + (g.next() % 9) as usize;
        let mut m = F2::zeros(rows, cols);
        for i in 0..rows {
            m.r[i] = g.next() & mask(cols);
            if k % 3 == 0 && i > 0 && g.next() % 2 == 0 {
                m.r[i] = m.r[(g.next() % i as u64) as usize];
            }
        }
        check_one(&m).map_err(|e| format!("{e} on {}", m.to_json()))?;
        // product laws on the oracle itself
        let bc = 1 + (g.next() % 5) as usize;
        let mut b = F2::zeros(cols, bc);
        for i in 0..cols {
            b.r[i] = g.next() & mask(bc);
        }
        if m.mul(&b).transpose() != b.transpose().mul(&m.transpose()) {
            return Err("(AB)^T != B^T A^T in the oracle".into());
        }
        if m.mul(&F2::identity(cols)) != m || F2::identity(rows).mul(&m) != m {
            return Err("identity law in the oracle".into());
        }
        // apply() agrees with mul() by a column vector
        let x = g.next() & mask(cols);
        let xv = F2::from_fn(cols, 1, |i, _| (x >> i) & 1 == 1);
        let y = m.mul(&xv);
        let yb: u64 = (0..rows).map(|i| (y.get(i, 0) as u64) << i).sum();
        if yb != m.apply(x) {
            return Err("apply() disagrees with mul()".into());
        }
    }
    Ok(())
}

struct XorShift(u64);
impl XorShift {
    fn next(&mut self) -> u64 {
        self.0 ^= self.0 << 13;
        self.0 ^= self.0 >> 7;
        self.0 ^= self.0 << 17;
        self.0.wrapping_mul(0x2545F4914F6CDD1D) >> 8
    }
}

fn check_one(m: &F2) -> Result<(), String> {
    let (e, piv) = m.rref();
    let rk = m.rank_brute();
    if piv.len() != rk {
        return Err(format!("rref rank {} != brute rank {rk}", piv.len()));
    }
    if e.check_rref().map_err(|x| format!("rref not reduced: {x}"))? != piv {
        return Err("pivot list disagrees with the echelon shape".into());
    }
    if e.row_space_brute() != m.row_space_brute() {
        return Err("rref changed the row space".into());
    }
    if e.nonzero_rows() != rk {
        return Err("non-zero rows of rref != rank".into());
    }
    let ns = m.null_space_brute();
    if ns.len() != 1usize << (m.cols - rk) {
        return Err(format!("|null space| = {} but cols - rank = {}", ns.len(), m.cols - rk));
    }
    if m.transpose().rank() != rk {
        return Err("row rank != column rank".into());
    }
    if m.transpose().transpose() != *m {
        return Err("transpose not an involution".into());
    }
    if !m.same_row_space(&e) {
        return Err("same_row_space(m, rref(m)) is false".into());
    }
    // a matrix with a strictly smaller row space must be told apart
    if rk > 0 {
        let mut sm = e.clone();
        sm.r[rk - 1] = 0;
        if m.same_row_space(&sm) {
            return Err("same_row_space does not separate a proper subspace".into());
        }
    }
    Ok(())
}

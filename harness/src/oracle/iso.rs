//! O5-iso: anchored isomorphism test between two labelled diagrams.
//!
//! A diagram is a simple undirected graph with vertex labels (kind, phase, coordinates),
//! edge labels (kind) and two ordered anchor lists (inputs, outputs). `find_iso(a, b)`
//! decides whether there is a bijection of vertices that
//!   * maps the i-th input/output of `a` to the i-th input/output of `b`,
//!   * preserves vertex kinds, phases and coordinates (under the tolerances in `IsoOpts`),
//!   * preserves adjacency and edge kinds.
//! The search is a backtracking search over candidate lists that were refined by
//! (kind, anchor role/position, degree, neighbour signature, phase, coordinate)
//! compatibility. Tolerant comparisons (coordinates, approximated phases) are not
//! transitive, so they are used as a compatibility *relation* between an `a`-vertex and a
//! `b`-vertex, never as an equivalence on one side.
//!
//! Shares no code with quizx. On a negative answer `classify` re-runs the search with
//! single clauses relaxed, to say *which* clause fails (discriminating condition of the
//! violation signature).

use std::collections::BTreeMap;

#[derive(Clone, Debug, PartialEq)]
pub struct IsoVert {
    /// vertex kind (opaque small integer chosen by the caller)
    pub kind: u8,
    /// phase in units of pi as numerator/denominator (denominator > 0)
    pub ph: (i64, i64),
    pub x: f64,
    pub y: f64,
}

#[derive(Clone, Debug, PartialEq)]
pub struct IsoGraph {
    pub verts: Vec<IsoVert>,
    /// (a, b, edge kind), a != b, at most one edge per unordered pair
    pub edges: Vec<(usize, usize, u8)>,
    pub inputs: Vec<usize>,
    pub outputs: Vec<usize>,
}

#[derive(Clone, Copy, Debug)]
pub struct IsoOpts {
    /// phases of `a`-vertices with denominator <= this must be matched exactly (mod 2)
    pub exact_phase_max_den: i64,
    /// other phases must be matched within this distance on the circle R/2Z
    pub approx_phase_tol: f64,
    /// |dx|,|dy| <= coord_tol * max(1, |x|)
    pub coord_tol: f64,
    /// number of search steps before giving up (=> `IsoResult::Budget`)
    pub budget: u64,
}

impl Default for IsoOpts {
    fn default() -> Self {
        IsoOpts { exact_phase_max_den: 256, approx_phase_tol: 1.0 / 512.0 + 1e-12, coord_tol: 1e-9, budget: 5_000_000 }
    }
}

#[derive(Clone, Copy, Debug, Default, PartialEq, Eq)]
pub struct Relax {
    pub coords: bool,
    pub phases: bool,
    pub io_order: bool,
    pub edge_kinds: bool,
    pub vertex_kinds: bool,
}

#[derive(Clone, Debug, PartialEq)]
pub enum IsoResult {
    /// map[i] = vertex of `b` that vertex i of `a` is sent to
    Iso(Vec<usize>),
    NotIso(String),
    Budget,
}

/// phase equality modulo 2 (exact, i128 cross-multiplication)
pub fn phase_eq_mod2(p: (i64, i64), q: (i64, i64)) -> bool {
    if p.1 <= 0 || q.1 <= 0 {
        return false;
    }
    let num = p.0 as i128 * q.1 as i128 - q.0 as i128 * p.1 as i128;
    let den = 2 * p.1 as i128 * q.1 as i128;
    num.rem_euclid(den) == 0
}

/// distance of two phases on the circle R/2Z
pub fn phase_circle_dist(p: (i64, i64), q: (i64, i64)) -> f64 {
    // exact difference as a rational first, then reduce mod 2 in i128, then to f64
    let num = p.0 as i128 * q.1 as i128 - q.0 as i128 * p.1 as i128;
    let den = p.1 as i128 * q.1 as i128;
    if den <= 0 {
        return f64::INFINITY;
    }
    let m = 2 * den;
    let r = num.rem_euclid(m); // in [0, 2*den)
    let r = if r > den { m - r } else { r };
    r as f64 / den as f64
}

pub fn coord_close(a: f64, b: f64, tol: f64) -> bool {
    if a == b {
        return true;
    }
    if !a.is_finite() || !b.is_finite() {
        return false;
    }
    (a - b).abs() <= tol * a.abs().max(1.0)
}

struct Prep {
    n: usize,
    /// adjacency matrix: 0 = no edge, k+1 = edge of kind k
    adj: Vec<u8>,
    deg: Vec<usize>,
    /// sorted (role, position) labels; role 1 = input, 2 = output
    anchors: Vec<Vec<(u8, usize)>>,
    nbrs: Vec<Vec<usize>>,
}

fn prep(g: &IsoGraph) -> Result<Prep, String> {
    let n = g.verts.len();
    let mut adj = vec![0u8; n * n];
    let mut deg = vec![0usize; n];
    let mut nbrs = vec![vec![]; n];
    for &(a, b, k) in &g.edges {
        if a >= n || b >= n {
            return Err(format!("edge ({a},{b}) out of range"));
        }
        if a == b {
            return Err(format!("self loop at {a}"));
        }
        if adj[a * n + b] != 0 {
            return Err(format!("parallel edge ({a},{b})"));
        }
        adj[a * n + b] = k + 1;
        adj[b * n + a] = k + 1;
        deg[a] += 1;
        deg[b] += 1;
        nbrs[a].push(b);
        nbrs[b].push(a);
    }
    let mut anchors = vec![vec![]; n];
    for (i, &v) in g.inputs.iter().enumerate() {
        if v >= n {
            return Err(format!("input {v} out of range"));
        }
        anchors[v].push((1u8, i));
    }
    for (i, &v) in g.outputs.iter().enumerate() {
        if v >= n {
            return Err(format!("output {v} out of range"));
        }
        anchors[v].push((2u8, i));
    }
    for a in anchors.iter_mut() {
        a.sort();
    }
    Ok(Prep { n, adj, deg, anchors, nbrs })
}

fn nbr_sig(g: &IsoGraph, p: &Prep, v: usize, rx: Relax) -> Vec<(u8, u8, usize)> {
    let mut s: Vec<(u8, u8, usize)> = p.nbrs[v]
        .iter()
        .map(|&w| {
            let ek = if rx.edge_kinds { 0 } else { p.adj[v * p.n + w] };
            let vk = if rx.vertex_kinds { 0 } else { g.verts[w].kind };
            (ek, vk, p.deg[w])
        })
        .collect();
    s.sort();
    s
}

fn roles_only(a: &[(u8, usize)]) -> Vec<u8> {
    let mut r: Vec<u8> = a.iter().map(|x| x.0).collect();
    r.sort();
    r
}

/// Anchored isomorphism search with selected clauses relaxed.
pub fn find_iso_relaxed(a: &IsoGraph, b: &IsoGraph, o: &IsoOpts, rx: Relax) -> IsoResult {
    let (pa, pb) = match (prep(a), prep(b)) {
        (Ok(x), Ok(y)) => (x, y),
        (Err(e), _) => return IsoResult::NotIso(format!("left graph malformed: {e}")),
        (_, Err(e)) => return IsoResult::NotIso(format!("right graph malformed: {e}")),
    };
    if pa.n != pb.n {
        return IsoResult::NotIso(format!("vertex-count {} vs {}", pa.n, pb.n));
    }
    if a.edges.len() != b.edges.len() {
        return IsoResult::NotIso(format!("edge-count {} vs {}", a.edges.len(), b.edges.len()));
    }
    if a.inputs.len() != b.inputs.len() || a.outputs.len() != b.outputs.len() {
        return IsoResult::NotIso(format!(
            "io-arity {}/{} vs {}/{}",
            a.inputs.len(),
            a.outputs.len(),
            b.inputs.len(),
            b.outputs.len()
        ));
    }
    let n = pa.n;
    if !rx.vertex_kinds {
        let mut ka: BTreeMap<u8, i64> = BTreeMap::new();
        for v in &a.verts {
            *ka.entry(v.kind).or_default() += 1;
        }
        for v in &b.verts {
            *ka.entry(v.kind).or_default() -= 1;
        }
        if ka.values().any(|&c| c != 0) {
            return IsoResult::NotIso("vertex-kind-multiset".into());
        }
    }
    if !rx.edge_kinds {
        let mut ka: BTreeMap<u8, i64> = BTreeMap::new();
        for e in &a.edges {
            *ka.entry(e.2).or_default() += 1;
        }
        for e in &b.edges {
            *ka.entry(e.2).or_default() -= 1;
        }
        if ka.values().any(|&c| c != 0) {
            return IsoResult::NotIso("edge-kind-multiset".into());
        }
    }
    let siga: Vec<_> = (0..n).map(|v| nbr_sig(a, &pa, v, rx)).collect();
    let sigb: Vec<_> = (0..n).map(|v| nbr_sig(b, &pb, v, rx)).collect();
    let compat = |u: usize, w: usize| -> bool {
        let (vu, vw) = (&a.verts[u], &b.verts[w]);
        if !rx.vertex_kinds && vu.kind != vw.kind {
            return false;
        }
        if rx.io_order {
            if roles_only(&pa.anchors[u]) != roles_only(&pb.anchors[w]) {
                return false;
            }
        } else if pa.anchors[u] != pb.anchors[w] {
            return false;
        }
        if pa.deg[u] != pb.deg[w] || siga[u] != sigb[w] {
            return false;
        }
        if !rx.phases {
            if vu.ph.1 <= o.exact_phase_max_den {
                if !phase_eq_mod2(vu.ph, vw.ph) {
                    return false;
                }
            } else if phase_circle_dist(vu.ph, vw.ph) > o.approx_phase_tol {
                return false;
            }
        }
        if !rx.coords && !(coord_close(vu.x, vw.x, o.coord_tol) && coord_close(vu.y, vw.y, o.coord_tol)) {
            return false;
        }
        true
    };
    let cand: Vec<Vec<usize>> = (0..n).map(|u| (0..n).filter(|&w| compat(u, w)).collect()).collect();
    if let Some(u) = (0..n).find(|&u| cand[u].is_empty()) {
        return IsoResult::NotIso(format!("no-candidate-for-vertex {u}"));
    }
    // static order: most already-ordered neighbours first, then fewest candidates
    let mut order: Vec<usize> = Vec::with_capacity(n);
    let mut placed = vec![false; n];
    let mut score = vec![0usize; n];
    for _ in 0..n {
        let mut best: Option<usize> = None;
        for u in 0..n {
            if placed[u] {
                continue;
            }
            best = match best {
                None => Some(u),
                Some(bu) => {
                    let key_u = (cand[u].len() == 1, score[u], usize::MAX - cand[u].len());
                    let key_b = (cand[bu].len() == 1, score[bu], usize::MAX - cand[bu].len());
                    if key_u > key_b {
                        Some(u)
                    } else {
                        Some(bu)
                    }
                }
            };
        }
        let u = best.unwrap();
        placed[u] = true;
        order.push(u);
        for &w in &pa.nbrs[u] {
            score[w] += 1;
        }
    }
    // backtracking
    let mut map = vec![usize::MAX; n];
    let mut used = vec![false; n];
    let mut steps: u64 = 0;
    let mut pos_choice = vec![0usize; n];
    let mut depth = 0usize;
    let edge_ok = |ka: u8, kb: u8| -> bool {
        if rx.edge_kinds {
            (ka == 0) == (kb == 0)
        } else {
            ka == kb
        }
    };
    loop {
        if depth == n {
            break;
        }
        let u = order[depth];
        let mut advanced = false;
        while pos_choice[depth] < cand[u].len() {
            let w = cand[u][pos_choice[depth]];
            pos_choice[depth] += 1;
            steps += 1;
            if steps > o.budget {
                return IsoResult::Budget;
            }
            if used[w] {
                continue;
            }
            let mut ok = true;
            for &u2 in &order[..depth] {
                let w2 = map[u2];
                if !edge_ok(pa.adj[u * n + u2], pb.adj[w * n + w2]) {
                    ok = false;
                    break;
                }
            }
            if ok {
                map[u] = w;
                used[w] = true;
                depth += 1;
                if depth < n {
                    pos_choice[depth] = 0;
                }
                advanced = true;
                break;
            }
        }
        if !advanced {
            if depth == 0 {
                return IsoResult::NotIso("search-exhausted".into());
            }
            depth -= 1;
            let u_prev = order[depth];
            used[map[u_prev]] = false;
            map[u_prev] = usize::MAX;
        }
    }
    // defensive verification of the witness (a failure here is an oracle bug)
    if rx == Relax::default() {
        if let Err(e) = verify_mapping(a, b, &map, o) {
            panic!("oracle iso: witness does not verify: {e}");
        }
    }
    IsoResult::Iso(map)
}

pub fn find_iso(a: &IsoGraph, b: &IsoGraph, o: &IsoOpts) -> IsoResult {
    find_iso_relaxed(a, b, o, Relax::default())
}

/// Check that `map` is an anchored, label-preserving isomorphism a -> b.
pub fn verify_mapping(a: &IsoGraph, b: &IsoGraph, map: &[usize], o: &IsoOpts) -> Result<(), String> {
    let n = a.verts.len();
    if b.verts.len() != n || map.len() != n {
        return Err("size".into());
    }
    let mut seen = vec![false; n];
    for &w in map {
        if w >= n || seen[w] {
            return Err("not a bijection".into());
        }
        seen[w] = true;
    }
    if a.inputs.len() != b.inputs.len() || a.outputs.len() != b.outputs.len() {
        return Err("io arity".into());
    }
    for (i, &v) in a.inputs.iter().enumerate() {
        if map[v] != b.inputs[i] {
            return Err(format!("input {i}"));
        }
    }
    for (i, &v) in a.outputs.iter().enumerate() {
        if map[v] != b.outputs[i] {
            return Err(format!("output {i}"));
        }
    }
    for u in 0..n {
        let (vu, vw) = (&a.verts[u], &b.verts[map[u]]);
        if vu.kind != vw.kind {
            return Err(format!("kind at {u}"));
        }
        let ph_ok = if vu.ph.1 <= o.exact_phase_max_den {
            phase_eq_mod2(vu.ph, vw.ph)
        } else {
            phase_circle_dist(vu.ph, vw.ph) <= o.approx_phase_tol
        };
        if !ph_ok {
            return Err(format!("phase at {u}"));
        }
        if !(coord_close(vu.x, vw.x, o.coord_tol) && coord_close(vu.y, vw.y, o.coord_tol)) {
            return Err(format!("coordinate at {u}"));
        }
    }
    let mut eb: BTreeMap<(usize, usize), u8> = BTreeMap::new();
    for &(x, y, k) in &b.edges {
        eb.insert((x.min(y), x.max(y)), k);
    }
    if eb.len() != a.edges.len() {
        return Err("edge count".into());
    }
    for &(x, y, k) in &a.edges {
        let (p, q) = (map[x], map[y]);
        if eb.get(&(p.min(q), p.max(q))) != Some(&k) {
            return Err(format!("edge ({x},{y})"));
        }
    }
    Ok(())
}

/// After a negative answer: which clause is responsible? Returns a short stable tag:
/// the first single relaxation (in a fixed order) under which an isomorphism exists.
pub fn classify(a: &IsoGraph, b: &IsoGraph, o: &IsoOpts) -> String {
    let trials: [(&str, Relax); 8] = [
        ("coordinates", Relax { coords: true, ..Default::default() }),
        ("io-order", Relax { io_order: true, ..Default::default() }),
        ("phases", Relax { phases: true, ..Default::default() }),
        ("edge-kinds", Relax { edge_kinds: true, ..Default::default() }),
        ("vertex-kinds", Relax { vertex_kinds: true, ..Default::default() }),
        ("phases+coordinates", Relax { phases: true, coords: true, ..Default::default() }),
        ("io-order+coordinates", Relax { io_order: true, coords: true, ..Default::default() }),
        (
            "labels(all)",
            Relax { phases: true, coords: true, io_order: true, edge_kinds: true, vertex_kinds: true },
        ),
    ];
    for (name, rx) in trials {
        match find_iso_relaxed(a, b, o, rx) {
            IsoResult::Iso(_) => return name.to_string(),
            IsoResult::Budget => return "unclassified(budget)".into(),
            IsoResult::NotIso(_) => {}
        }
    }
    "graph-structure".into()
}

pub fn self_test() -> Result<(), String> {
    let o = IsoOpts::default();
    let v = |kind: u8, n: i64, d: i64, x: f64, y: f64| IsoVert { kind, ph: (n, d), x, y };
    // in0 - Z(1/4) -H- X(1/2) - out0 ; Z(1/4) - Z(0) leaf ; plus an isolated Z(1)
    let a = IsoGraph {
        verts: vec![v(0, 0, 1, 0., 0.), v(1, 1, 4, 1., 0.), v(2, 1, 2, 2., 0.), v(0, 0, 1, 3., 0.), v(1, 0, 1, 1., 1.), v(1, 1, 1, 5., 5.)],
        edges: vec![(0, 1, 0), (1, 2, 1), (2, 3, 0), (1, 4, 0)],
        inputs: vec![0],
        outputs: vec![3],
    };
    // permuted copy: new index = perm[old]
    let perm = [3usize, 5, 0, 1, 2, 4];
    let permute = |g: &IsoGraph| -> IsoGraph {
        let mut verts = vec![g.verts[0].clone(); g.verts.len()];
        for (i, vv) in g.verts.iter().enumerate() {
            verts[perm[i]] = vv.clone();
        }
        IsoGraph {
            verts,
            edges: g.edges.iter().rev().map(|&(x, y, k)| (perm[y], perm[x], k)).collect(),
            inputs: g.inputs.iter().map(|&i| perm[i]).collect(),
            outputs: g.outputs.iter().map(|&i| perm[i]).collect(),
        }
    };
    let b = permute(&a);
    match find_iso(&a, &b, &o) {
        IsoResult::Iso(m) => {
            if m != perm.to_vec() {
                return Err(format!("iso: unexpected witness {m:?}"));
            }
        }
        other => return Err(format!("iso: permuted copy not recognised: {other:?}")),
    }
    // each single change must be detected and classified
    let mut c = b.clone();
    c.edges[0].2 ^= 1;
    if !matches!(find_iso(&a, &c, &o), IsoResult::NotIso(_)) || classify(&a, &c, &o) != "edge-kinds" {
        return Err("iso: edge kind change not detected".into());
    }
    let mut c = b.clone();
    c.verts[perm[1]].ph = (1, 2);
    if !matches!(find_iso(&a, &c, &o), IsoResult::NotIso(_)) || classify(&a, &c, &o) != "phases" {
        return Err("iso: phase change not detected".into());
    }
    let mut c = b.clone();
    c.verts[perm[1]].ph = (9, 4); // same phase mod 2
    if !matches!(find_iso(&a, &c, &o), IsoResult::Iso(_)) {
        return Err("iso: phase mod 2".into());
    }
    let mut c = b.clone();
    c.verts[perm[4]].y = 1.0 + 1e-6;
    if !matches!(find_iso(&a, &c, &o), IsoResult::NotIso(_)) || classify(&a, &c, &o) != "coordinates" {
        return Err("iso: coordinate change not detected".into());
    }
    let mut c = b.clone();
    c.verts[perm[4]].y = 1.0 + 1e-12;
    if !matches!(find_iso(&a, &c, &o), IsoResult::Iso(_)) {
        return Err("iso: coordinate tolerance".into());
    }
    let mut c = b.clone();
    std::mem::swap(&mut c.inputs, &mut c.outputs);
    if !matches!(find_iso(&a, &c, &o), IsoResult::NotIso(_)) {
        return Err("iso: input/output swap not detected".into());
    }
    let mut c = b.clone();
    c.verts[perm[2]].kind = 1;
    if !matches!(find_iso(&a, &c, &o), IsoResult::NotIso(_)) || classify(&a, &c, &o) != "vertex-kinds" {
        return Err("iso: kind change not detected".into());
    }
    let mut c = b.clone();
    c.edges.pop();
    c.edges.push((perm[4], perm[5], 0));
    if !matches!(find_iso(&a, &c, &o), IsoResult::NotIso(_)) || classify(&a, &c, &o) != "graph-structure" {
        return Err(format!("iso: rewiring not detected ({})", classify(&a, &c, &o)));
    }
    // two inputs on a symmetric diagram: order matters
    let s = IsoGraph {
        verts: vec![v(0, 0, 1, 0., 0.), v(0, 0, 1, 0., 0.), v(1, 0, 1, 0., 0.), v(1, 1, 4, 0., 0.)],
        edges: vec![(0, 2, 0), (1, 3, 0), (2, 3, 1)],
        inputs: vec![0, 1],
        outputs: vec![],
    };
    let mut t = s.clone();
    t.inputs = vec![1, 0];
    if !matches!(find_iso(&s, &t, &o), IsoResult::NotIso(_)) || classify(&s, &t, &o) != "io-order" {
        return Err("iso: input order not anchored".into());
    }
    // highly symmetric positive instance: star with 7 identical leaves, relabelled in reverse
    let mut star = IsoGraph { verts: vec![v(1, 0, 1, 0., 0.)], edges: vec![], inputs: vec![], outputs: vec![] };
    for i in 1..=7 {
        star.verts.push(v(1, 1, 4, 0., 0.));
        star.edges.push((0, i, 1));
    }
    let mut star2 = IsoGraph { verts: vec![], edges: vec![], inputs: vec![], outputs: vec![] };
    for _ in 0..7 {
        star2.verts.push(v(1, 1, 4, 0., 0.));
    }
    star2.verts.push(v(1, 0, 1, 0., 0.));
    for i in 0..7 {
        star2.edges.push((i, 7, 1));
    }
    if !matches!(find_iso(&star, &star2, &o), IsoResult::Iso(_)) {
        return Err("iso: star".into());
    }
    // approximate phase clause: 1000/1001 vs 1 is within 1/512, 1/2 is not
    let p = IsoGraph { verts: vec![v(1, 1000, 1001, 0., 0.)], edges: vec![], inputs: vec![], outputs: vec![] };
    let q1 = IsoGraph { verts: vec![v(1, 1, 1, 0., 0.)], edges: vec![], inputs: vec![], outputs: vec![] };
    let q2 = IsoGraph { verts: vec![v(1, 1, 2, 0., 0.)], edges: vec![], inputs: vec![], outputs: vec![] };
    let q3 = IsoGraph { verts: vec![v(1, -2000, 2001, 0., 0.)], edges: vec![], inputs: vec![], outputs: vec![] };
    if !matches!(find_iso(&p, &q1, &o), IsoResult::Iso(_)) || !matches!(find_iso(&p, &q2, &o), IsoResult::NotIso(_)) {
        return Err("iso: approximate phase clause".into());
    }
    if (phase_circle_dist((1000, 1001), (-1000, 1001)) - 2.0 / 1001.0).abs() > 1e-12 || !matches!(find_iso(&p, &q3, &o), IsoResult::Iso(_)) // 1000/1001 vs -2000/2001: distance 3001/2003001 < 1/512
    {
        return Err("iso: circle distance".into());
    }
    Ok(())
}

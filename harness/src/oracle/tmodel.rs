//! Model tensor algebra on flat qubit tensors (used by C08).
//!
//! A qubit tensor with `nd` indices is a flat `Vec` of `2^nd` entries, first index most
//! significant (the convention of `oracle::eval` / `oracle::sim`). Everything here is
//! written from the definitions, with plain loops over bit strings; it shares no code with
//! quizx or ndarray.

use super::ring::{Cf, Num, R};

/// The one constant `Num` lacks: 1/sqrt2.
pub trait InvSqrt2: Num {
    fn inv_sqrt2() -> Self;
}
impl InvSqrt2 for R {
    fn inv_sqrt2() -> Self {
        R::sqrt2_pow(-1)
    }
}
impl InvSqrt2 for Cf {
    fn inv_sqrt2() -> Self {
        Cf::new(std::f64::consts::FRAC_1_SQRT_2, 0.0)
    }
}

#[derive(Clone, Debug, PartialEq)]
pub struct MT<S> {
    pub nd: usize,
    pub data: Vec<S>,
}

#[inline]
pub fn bit(e: usize, nd: usize, ax: usize) -> usize {
    (e >> (nd - 1 - ax)) & 1
}

/// multi-index (one entry per axis) -> flat position
pub fn flat_of(ix: &[usize]) -> usize {
    ix.iter().fold(0usize, |acc, &b| (acc << 1) | (b & 1))
}

/// flat position -> multi-index
pub fn index_of(e: usize, nd: usize) -> Vec<usize> {
    (0..nd).map(|k| bit(e, nd, k)).collect()
}

impl<S: Num> MT<S> {
    pub fn new(nd: usize, data: Vec<S>) -> MT<S> {
        assert_eq!(data.len(), 1usize << nd, "MT::new: length");
        MT { nd, data }
    }
    pub fn from_fn(nd: usize, f: impl Fn(usize) -> S) -> MT<S> {
        MT { nd, data: (0..(1usize << nd)).map(f).collect() }
    }
    pub fn zeros(nd: usize) -> MT<S> {
        MT::from_fn(nd, |_| S::zero())
    }
    /// identity on q qubits: entry [i, o] = 1 iff i == o
    pub fn ident(q: usize) -> MT<S> {
        let m = (1usize << q) - 1;
        MT::from_fn(2 * q, |e| if (e >> q) == (e & m) { S::one() } else { S::zero() })
    }
    /// q-legged delta: 1 iff all indices are equal (q >= 1)
    pub fn delta(q: usize) -> MT<S> {
        let all = (1usize << q) - 1;
        MT::from_fn(q, |e| if e == 0 || e == all { S::one() } else { S::zero() })
    }
    /// identity on q qubits with e^{i pi num/den} at |1..1><1..1|
    pub fn cphase(num: i64, den: i64, q: usize) -> MT<S> {
        let all = (1usize << q) - 1;
        let mut t: MT<S> = MT::ident(q);
        let top = (all << q) | all;
        t.data[top] = t.data[top].mul(&S::from_phase(num, den));
        t
    }
    pub fn scale(&self, l: &S) -> MT<S> {
        MT { nd: self.nd, data: self.data.iter().map(|x| x.mul(l)).collect() }
    }
    /// multiply by delta(all indices in qs equal)
    pub fn delta_at(&self, qs: &[usize]) -> MT<S> {
        let nd = self.nd;
        MT::from_fn(nd, |e| {
            let b0 = bit(e, nd, qs[0]);
            if qs.iter().all(|&q| bit(e, nd, q) == b0) {
                self.data[e].clone()
            } else {
                S::zero()
            }
        })
    }
    /// multiply by e^{i pi num/den} where all indices in qs are 1
    pub fn cphase_at(&self, num: i64, den: i64, qs: &[usize]) -> MT<S> {
        let nd = self.nd;
        let f = S::from_phase(num, den);
        MT::from_fn(nd, |e| if qs.iter().all(|&q| bit(e, nd, q) == 1) { self.data[e].mul(&f) } else { self.data[e].clone() })
    }
    /// result[.., b, ..] = sum_a x[.., a, ..] * y[a, .. , b]-free form: contract the last n
    /// indices of self with the first n of other; result indices = self's first (nd-n),
    /// then other's last (nd-n).
    pub fn plug(&self, n: usize, other: &MT<S>) -> MT<S> {
        assert!(n <= self.nd && n <= other.nd);
        let ka = self.nd - n;
        let kb = other.nd - n;
        let mut data = Vec::with_capacity(1usize << (ka + kb));
        for x in 0..(1usize << ka) {
            for y in 0..(1usize << kb) {
                let mut s = S::zero();
                for m in 0..(1usize << n) {
                    let a = &self.data[(x << n) | m];
                    if a.is_zero() {
                        continue;
                    }
                    s = s.add(&a.mul(&other.data[(m << kb) | y]));
                }
                data.push(s);
            }
        }
        MT { nd: ka + kb, data }
    }
    /// result[ix] = self[ix with the values at axes i and j exchanged]
    pub fn swap_axes(&self, i: usize, j: usize) -> MT<S> {
        let nd = self.nd;
        MT::from_fn(nd, |e| {
            let mut ix = index_of(e, nd);
            ix.swap(i, j);
            self.data[flat_of(&ix)].clone()
        })
    }
    /// result[ix] = self[ix reversed]
    pub fn reverse_axes(&self) -> MT<S> {
        let nd = self.nd;
        MT::from_fn(nd, |e| {
            let mut ix = index_of(e, nd);
            ix.reverse();
            self.data[flat_of(&ix)].clone()
        })
    }
    /// result[ix] = self[ix with axis k complemented]
    pub fn flip_axis(&self, k: usize) -> MT<S> {
        let nd = self.nd;
        MT::from_fn(nd, |e| self.data[e ^ (1usize << (nd - 1 - k))].clone())
    }
    pub fn is_all_zero(&self) -> bool {
        self.data.iter().all(|x| x.is_zero())
    }
    pub fn first_nonzero(&self) -> Option<usize> {
        self.data.iter().position(|x| !x.is_zero())
    }
}

impl<S: InvSqrt2> MT<S> {
    /// normalised Hadamard (1/sqrt2)[[1,1],[1,-1]], flat [in, out]
    pub fn hadamard() -> MT<S> {
        let h = S::inv_sqrt2();
        MT::new(2, vec![h.clone(), h.clone(), h.clone(), h.neg()])
    }
    /// apply the normalised Hadamard to axis `ax`:
    /// result[.., b, ..] = (1/sqrt2) sum_a (-1)^{ab} self[.., a, ..]
    pub fn hadamard_at(&self, ax: usize) -> MT<S> {
        let nd = self.nd;
        let m = 1usize << (nd - 1 - ax);
        let h = S::inv_sqrt2();
        MT::from_fn(nd, |e| {
            let x0 = &self.data[e & !m];
            let x1 = &self.data[e | m];
            let s = if e & m == 0 { x0.add(x1) } else { x0.add(&x1.neg()) };
            s.mul(&h)
        })
    }
}

pub fn self_test() -> Result<(), String> {
    use super::eval;
    use super::sim::{tensor_exact, Circ, G};
    let w = |k: i64| R::omega_pow(k);
    // H . H = identity, through plug
    let h = MT::<R>::hadamard();
    if h.plug(1, &h) != MT::<R>::ident(1) {
        return Err("tmodel: H.H != id".into());
    }
    // hadamard_at on the identity gives the Hadamard matrix, on either axis
    if MT::<R>::ident(1).hadamard_at(0) != h || MT::<R>::ident(1).hadamard_at(1) != h {
        return Err("tmodel: hadamard_at(ident)".into());
    }
    // against the gate simulator (independent code): H on qubit 1 of 2, CZ, CCZ, T
    let sim = |gates: Vec<G>, n: usize| -> MT<R> {
        let (t, _, _) = tensor_exact(&Circ { n, gates });
        MT::new(2 * n, t)
    };
    if MT::<R>::ident(2).hadamard_at(1) != sim(vec![G::H(1)], 2) {
        return Err("tmodel: hadamard_at vs sim".into());
    }
    if MT::<R>::ident(2).cphase_at(1, 1, &[0, 1]) != sim(vec![G::Cz(0, 1)], 2) || MT::<R>::cphase(1, 1, 2) != sim(vec![G::Cz(0, 1)], 2) {
        return Err("tmodel: cphase vs sim CZ".into());
    }
    if MT::<R>::cphase(1, 1, 3) != sim(vec![G::Ccz(0, 1, 2)], 3) {
        return Err("tmodel: cphase vs sim CCZ".into());
    }
    if MT::<R>::cphase(1, 4, 1) != sim(vec![G::T(0)], 1) {
        return Err("tmodel: cphase vs sim T".into());
    }
    // CNOT = H_t CZ H_t built with the in-place operations on input axes
    let cx = MT::<R>::ident(2).hadamard_at(1).cphase_at(1, 1, &[0, 1]).hadamard_at(1);
    if cx != sim(vec![G::Cx(0, 1)], 2) {
        return Err("tmodel: CNOT".into());
    }
    // plug agrees with eval::compose, and is the circuit composition
    let a = sim(vec![G::H(0), G::T(0), G::Cx(0, 1)], 2);
    let b = sim(vec![G::Cx(1, 0), G::S(1), G::H(1)], 2);
    let ab = sim(vec![G::H(0), G::T(0), G::Cx(0, 1), G::Cx(1, 0), G::S(1), G::H(1)], 2);
    if a.plug(2, &b) != ab {
        return Err("tmodel: plug != composition".into());
    }
    if a.plug(2, &b).data != eval::compose(&a.data, 2, 2, &b.data, 2, 2) {
        return Err("tmodel: plug != eval::compose".into());
    }
    // plug with n = 0 is the outer product; plugging everything gives a number
    let v = MT::new(1, vec![w(1), R::int(2)]);
    let u = MT::new(1, vec![R::int(3), w(2)]);
    if v.plug(0, &u).data != vec![w(1).mul(&R::int(3)), w(3), R::int(6), R::int(2).mul(&w(2))] {
        return Err("tmodel: outer product".into());
    }
    if v.plug(1, &u).data != vec![w(1).mul(&R::int(3)).add(&R::int(2).mul(&w(2)))] {
        return Err("tmodel: full contraction".into());
    }
    // partial plug with other.nd != 2n: state (2 legs) into the first leg of a 3-leg delta
    let d3 = MT::<R>::delta(3);
    let st = MT::new(2, vec![R::int(1), R::int(2), R::int(3), R::int(4)]);
    // result[x, y, z] = sum_m st[x, m] d3[m, y, z] = st[x, y] if y == z else 0
    let p = st.plug(1, &d3);
    let expect = MT::from_fn(3, |e| if bit(e, 3, 1) == bit(e, 3, 2) { st.data[e >> 1].clone() } else { R::zero() });
    if p != expect {
        return Err("tmodel: partial plug".into());
    }
    // delta_at, swap/reverse/flip
    let t = MT::from_fn(3, |e| R::int(e as i64 + 1));
    if t.delta_at(&[0, 2]).data != [1, 0, 3, 0, 0, 6, 0, 8].map(R::int).to_vec() {
        return Err("tmodel: delta_at".into());
    }
    if t.swap_axes(0, 2).data != [1, 5, 3, 7, 2, 6, 4, 8].map(R::int).to_vec() || t.swap_axes(0, 2).swap_axes(2, 0) != t {
        return Err("tmodel: swap_axes".into());
    }
    if t.reverse_axes() != t.swap_axes(0, 2) || t.flip_axis(1).data != [3, 4, 1, 2, 7, 8, 5, 6].map(R::int).to_vec() {
        return Err("tmodel: reverse/flip".into());
    }
    if MT::<R>::delta(2) != MT::<R>::ident(1) || MT::<R>::delta(1).data != vec![R::one(), R::one()] {
        return Err("tmodel: delta".into());
    }
    // float version agrees with exact
    let hf = MT::<Cf>::ident(2).hadamard_at(0).cphase_at(1, 4, &[0, 1]);
    let hx: Vec<Cf> = MT::<R>::ident(2).hadamard_at(0).cphase_at(1, 4, &[0, 1]).data.iter().map(|r| r.to_cf()).collect();
    if !eval::close(&hf.data, &hx, 1e-14) {
        return Err("tmodel: float vs exact".into());
    }
    Ok(())
}

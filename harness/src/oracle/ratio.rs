//! O5 (part): exact rationals over BigInt with the explicit (-1,1] normal form of phases,
//! a literal port of CPython's `Fraction.limit_denominator`, a brute-force "closest
//! fraction with bounded denominator", and exact f64 <-> dyadic/rational conversions.
//!
//! Shares no code with quizx (nor with num-rational: only `BigInt` is used).

use num::bigint::BigInt;
use num::{Integer, One, Signed, ToPrimitive, Zero};
use std::cmp::Ordering;

/// Rational number n/d, always reduced, d > 0.
#[derive(Clone, PartialEq, Eq, Hash, Debug)]
pub struct Q {
    pub n: BigInt,
    pub d: BigInt,
}

impl Q {
    pub fn new(n: BigInt, d: BigInt) -> Q {
        assert!(!d.is_zero(), "oracle overflow: Q with zero denominator");
        let g = n.gcd(&d);
        let (mut n, mut d) = if g.is_zero() { (n, d) } else { (&n / &g, &d / &g) };
        if d.is_negative() {
            n = -n;
            d = -d;
        }
        Q { n, d }
    }
    pub fn from_i64s(n: i64, d: i64) -> Q {
        Q::new(BigInt::from(n), BigInt::from(d))
    }
    pub fn int(n: i64) -> Q {
        Q { n: BigInt::from(n), d: BigInt::one() }
    }
    pub fn zero() -> Q {
        Q::int(0)
    }
    pub fn is_zero(&self) -> bool {
        self.n.is_zero()
    }
    pub fn is_integer(&self) -> bool {
        self.d.is_one()
    }
    pub fn add(&self, o: &Q) -> Q {
        Q::new(&self.n * &o.d + &o.n * &self.d, &self.d * &o.d)
    }
    pub fn sub(&self, o: &Q) -> Q {
        Q::new(&self.n * &o.d - &o.n * &self.d, &self.d * &o.d)
    }
    pub fn neg(&self) -> Q {
        Q { n: -&self.n, d: self.d.clone() }
    }
    pub fn mul(&self, o: &Q) -> Q {
        Q::new(&self.n * &o.n, &self.d * &o.d)
    }
    pub fn mul_int(&self, k: i64) -> Q {
        Q::new(&self.n * BigInt::from(k), self.d.clone())
    }
    pub fn abs(&self) -> Q {
        Q { n: self.n.abs(), d: self.d.clone() }
    }
    pub fn cmp(&self, o: &Q) -> Ordering {
        (&self.n * &o.d).cmp(&(&o.n * &self.d))
    }
    pub fn lt(&self, o: &Q) -> bool {
        self.cmp(o) == Ordering::Less
    }
    pub fn le(&self, o: &Q) -> bool {
        self.cmp(o) != Ordering::Greater
    }
    /// floor(self)
    pub fn floor(&self) -> BigInt {
        self.n.div_floor(&self.d)
    }
    /// The unique representative in (-1, 1] of the class of `self` modulo 2.
    pub fn norm_mod2(&self) -> Q {
        // y = x - 2*ceil((x-1)/2)  lies in (-1,1]
        let two_d = &self.d * 2;
        // r = n mod 2d in [0, 2d)
        let r = self.n.mod_floor(&two_d);
        let r = if r > self.d { r - two_d } else { r };
        Q::new(r, self.d.clone())
    }
    /// Are self and o in the same class modulo 2?
    pub fn congruent_mod2(&self, o: &Q) -> bool {
        let diff = self.sub(o);
        diff.is_integer() && diff.n.is_even()
    }
    /// distance on the circle R/2Z, in [0,1]
    pub fn circle_dist(&self, o: &Q) -> Q {
        self.sub(o).norm_mod2().abs()
    }
    pub fn in_half_open_unit(&self) -> bool {
        // -d < n <= d
        -&self.d < self.n && self.n <= self.d
    }
    pub fn to_i64s(&self) -> Option<(i64, i64)> {
        Some((self.n.to_i64()?, self.d.to_i64()?))
    }
    /// nearest f64 (round half even); exact rational -> float
    pub fn to_f64_nearest(&self) -> f64 {
        if self.n.is_zero() {
            return 0.0;
        }
        // scale so that the quotient has >= 66 significant bits, then round once via
        // dyadic_to_f64_nearest with a sticky bit.
        let nb = self.n.bits() as i64;
        let db = self.d.bits() as i64;
        let sh = (66 - (nb - db)).max(0) as usize;
        let num: BigInt = self.n.abs() << sh;
        let (q, r) = num.div_rem(&self.d);
        // append a sticky bit
        let q2: BigInt = (q << 1usize) + if r.is_zero() { BigInt::zero() } else { BigInt::one() };
        let v = dyadic_to_f64_nearest(&q2, -(sh as i64) - 1);
        if self.n.is_negative() {
            -v
        } else {
            v
        }
    }
}

impl std::fmt::Display for Q {
    fn fmt(&self, f: &mut std::fmt::Formatter<'_>) -> std::fmt::Result {
        write!(f, "{}/{}", self.n, self.d)
    }
}

// ---------------------------------------------------------------------------------
// CPython's Fraction.limit_denominator, literal port.
//
// Lib/fractions.py (CPython 3.8 .. 3.11):
//
//     def limit_denominator(self, max_denominator=1000000):
//         if max_denominator < 1:
//             raise ValueError("max_denominator should be at least 1")
//         if self._denominator <= max_denominator:
//             return Fraction(self)
//         p0, q0, p1, q1 = 0, 1, 1, 0
//         n, d = self._numerator, self._denominator
//         while True:
//             a = n//d
//             q2 = q0+a*q1
//             if q2 > max_denominator:
//                 break
//             p0, q0, p1, q1 = p1, q1, p0+a*p1, q2
//             n, d = d, n-a*d
//         k = (max_denominator-q0)//q1
//         bound1 = Fraction(p0+k*p1, q0+k*q1)
//         bound2 = Fraction(p1, q1)
//         if abs(bound2 - self) <= abs(bound1-self):
//             return bound2
//         else:
//             return bound1
//
// (3.12 replaced the last five lines by an equivalent integer comparison; the older text
// is ported because it states the tie rule in terms of distances and is therefore not the
// same code as the Rust function under test.)
// ---------------------------------------------------------------------------------
pub fn limit_denominator_cpython(x: &Q, max_denominator: &BigInt) -> Q {
    assert!(*max_denominator >= BigInt::one(), "max_denominator should be at least 1");
    if x.d <= *max_denominator {
        return x.clone();
    }
    let (mut p0, mut q0, mut p1, mut q1) = (BigInt::zero(), BigInt::one(), BigInt::one(), BigInt::zero());
    let (mut n, mut d) = (x.n.clone(), x.d.clone());
    loop {
        let a = n.div_floor(&d);
        let q2 = &q0 + &a * &q1;
        if q2 > *max_denominator {
            break;
        }
        let np1 = &p0 + &a * &p1;
        p0 = p1;
        q0 = q1;
        p1 = np1;
        q1 = q2;
        let nd = &n - &a * &d;
        n = d;
        d = nd;
    }
    let k = (max_denominator - &q0).div_floor(&q1);
    let bound1 = Q::new(&p0 + &k * &p1, &q0 + &k * &q1);
    let bound2 = Q::new(p1, q1);
    if bound2.sub(x).abs().le(&bound1.sub(x).abs()) {
        bound2
    } else {
        bound1
    }
}

/// Brute force: all fractions with denominator 1..=m at minimal distance from x
/// (distinct values, ascending), and that distance.
pub fn closest_bruteforce(x: &Q, m: u64) -> (Q, Vec<Q>) {
    let mut best: Option<Q> = None;
    let mut who: Vec<Q> = vec![];
    for q in 1..=m {
        let qb = BigInt::from(q);
        // candidates floor(x*q)/q and ceil(x*q)/q
        let fl = (&x.n * &qb).div_floor(&x.d);
        for p in [fl.clone(), fl + 1] {
            let c = Q::new(p, qb.clone());
            let dist = c.sub(x).abs();
            match &best {
                None => {
                    best = Some(dist);
                    who = vec![c];
                }
                Some(b) => match dist.cmp(b) {
                    Ordering::Less => {
                        best = Some(dist);
                        who = vec![c];
                    }
                    Ordering::Equal => {
                        if !who.contains(&c) {
                            who.push(c);
                        }
                    }
                    Ordering::Greater => {}
                },
            }
        }
    }
    who.sort_by(|a, b| a.cmp(b));
    (best.unwrap(), who)
}

// ---------------------------------------------------------------------------------
// f64 <-> exact
// ---------------------------------------------------------------------------------

/// Decode a finite f64 into (signed integer mantissa, exponent) with value = m * 2^e,
/// straight from the IEEE-754 bit pattern.
pub fn f64_decode(x: f64) -> Option<(i64, i64)> {
    if !x.is_finite() {
        return None;
    }
    let bits = x.to_bits();
    let neg = (bits >> 63) == 1;
    let ebits = ((bits >> 52) & 0x7ff) as i64;
    let frac = (bits & ((1u64 << 52) - 1)) as i64;
    let (m, e) = if ebits == 0 { (frac, -1074) } else { (frac | (1i64 << 52), ebits - 1075) };
    Some((if neg { -m } else { m }, e))
}

/// Exact rational value of a finite f64.
pub fn q_of_f64(x: f64) -> Option<Q> {
    let (m, e) = f64_decode(x)?;
    Some(if e >= 0 { Q::new(BigInt::from(m) << (e as usize), BigInt::one()) } else { Q::new(BigInt::from(m), BigInt::one() << ((-e) as usize)) })
}

fn pow2_f64(k: i64) -> f64 {
    assert!((-1022..=1023).contains(&k));
    f64::from_bits(((k + 1023) as u64) << 52)
}

/// The f64 nearest to m * 2^e (round half to even; overflow gives +-inf, underflow
/// goes through the subnormals to +-0). Exact big-integer rounding, no float arithmetic
/// other than two exact scalings by powers of two.
pub fn dyadic_to_f64_nearest(m: &BigInt, e: i64) -> f64 {
    if m.is_zero() {
        return 0.0;
    }
    let neg = m.is_negative();
    let a = m.abs();
    let bits = a.bits() as i64;
    let top = bits + e; // value in [2^(top-1), 2^top)
    let r = if top > 1025 {
        f64::INFINITY
    } else if top < -1076 {
        0.0
    } else {
        let lsb = (top - 53).max(-1074);
        let q: BigInt = if e >= lsb {
            a << ((e - lsb) as usize)
        } else {
            let sh = (lsb - e) as usize;
            let fl: BigInt = &a >> sh;
            let rem: BigInt = &a - (&fl << sh);
            let half: BigInt = BigInt::one() << (sh - 1);
            match rem.cmp(&half) {
                Ordering::Less => fl,
                Ordering::Greater => fl + 1,
                Ordering::Equal => {
                    if fl.is_even() {
                        fl
                    } else {
                        fl + 1
                    }
                }
            }
        };
        // q <= 2^53, exactly representable
        let qf = q.to_u64().expect("q fits") as f64;
        // qf * 2^lsb in two exact steps
        let h1 = lsb / 2;
        let h2 = lsb - h1;
        qf * pow2_f64(h1) * pow2_f64(h2)
    };
    if neg {
        -r
    } else {
        r
    }
}

pub fn self_test() -> Result<(), String> {
    let q = |n: i64, d: i64| Q::from_i64s(n, d);
    // normal form
    let cases = [
        (q(3, 2), q(-1, 2)),
        (q(1, 1), q(1, 1)),
        (q(-1, 1), q(1, 1)),
        (q(5, 1), q(1, 1)),
        (q(-7, 4), q(1, 4)),
        (q(7, 4), q(-1, 4)),
        (q(0, 5), q(0, 1)),
        (q(2, 1), q(0, 1)),
        (q(-5, 3), q(1, 3)),
        (q(1, -3), q(-1, 3)),
        (q(-3, 1), q(1, 1)),
        (q(9, 4), q(1, 4)),
    ];
    for (x, want) in cases.iter() {
        let y = x.norm_mod2();
        if &y != want || !y.in_half_open_unit() || !y.congruent_mod2(x) {
            return Err(format!("norm_mod2({x}) = {y}, want {want}"));
        }
    }
    if q(1, 2).congruent_mod2(&q(3, 2)) || !q(1, 2).congruent_mod2(&q(-3, 2)) {
        return Err("congruent_mod2".into());
    }
    // CPython doc examples: Fraction('3.1415926535897932').limit_denominator(1000) = 355/113,
    // Fraction(cos(pi/3)).limit_denominator() = 1/2, and the quizx doc examples
    let pi = q_of_f64(3.141592653589793).unwrap();
    let ld = |x: &Q, m: i64| limit_denominator_cpython(x, &BigInt::from(m));
    if ld(&pi, 1000) != q(355, 113) || ld(&pi, 10) != q(22, 7) || ld(&pi, 100) != q(311, 99) {
        return Err("limit_denominator(pi)".into());
    }
    if ld(&q(4321, 8765), 10000) != q(4321, 8765) {
        return Err("limit_denominator exact hit".into());
    }
    if ld(&q_of_f64((std::f64::consts::PI / 3.0).cos()).unwrap(), 1_000_000) != q(1, 2) {
        return Err("limit_denominator cos(pi/3)".into());
    }
    // tie: 1/2 +- : x = 3/8 with m = 4 -> candidates 1/3 (dist 1/24), 1/2 (dist 1/8), 1/4 (1/8), 2/5 no
    if ld(&q(3, 8), 4) != q(1, 3) {
        return Err("limit_denominator 3/8".into());
    }
    // negative input, floor division semantics: -3/8 -> -1/3
    if ld(&q(-3, 8), 4) != q(-1, 3) {
        return Err("limit_denominator -3/8".into());
    }
    // port agrees with brute force on a grid (value must be among the closest)
    for d in 1..40i64 {
        for n in -45..45i64 {
            let x = q(n, d);
            for m in 1..12u64 {
                let r = ld(&x, m as i64);
                let (_dist, who) = closest_bruteforce(&x, m);
                if !who.contains(&r) {
                    return Err(format!("port not closest: {x} m={m} -> {r}, closest {who:?}"));
                }
                if r.d > BigInt::from(m) {
                    return Err("port denominator too large".into());
                }
            }
        }
    }
    // float conversions
    for &x in &[0.0, 1.0, -1.5, 0.1, 1e-300, 5e-324, f64::MAX, f64::MIN_POSITIVE, 2.2250738585072009e-308, 1e300, -3.5e-310] {
        let (m, e) = f64_decode(x).unwrap();
        let back = dyadic_to_f64_nearest(&BigInt::from(m), e);
        if back != x {
            return Err(format!("f64 decode/encode {x} -> {back}"));
        }
        let qx = q_of_f64(x).unwrap();
        if qx.to_f64_nearest() != x {
            return Err(format!("Q::to_f64_nearest {x}"));
        }
    }
    // rounding: 2^53 + 1 is a tie -> even (2^53); 2^53 + 3 -> 2^53 + 4
    let b = |v: u64| BigInt::from(v);
    if dyadic_to_f64_nearest(&b((1 << 53) + 1), 0) != 9007199254740992.0 {
        return Err("tie to even (down)".into());
    }
    if dyadic_to_f64_nearest(&b((1 << 53) + 3), 0) != 9007199254740996.0 {
        return Err("tie to even (up)".into());
    }
    if dyadic_to_f64_nearest(&b(u64::MAX), 0) != 18446744073709551616.0 {
        return Err("u64::MAX".into());
    }
    if dyadic_to_f64_nearest(&b(1), 1024) != f64::INFINITY || dyadic_to_f64_nearest(&b(1), -1075) != 0.0 {
        return Err("overflow/underflow".into());
    }
    if dyadic_to_f64_nearest(&b(3), -1075) != 1e-323 {
        // 1.5 * 2^-1074 is a tie between 1 and 2 units -> 2 units = 1e-323
        return Err("subnormal tie".into());
    }
    if q(1, 3).to_f64_nearest() != 1.0 / 3.0 || q(-2, 3).to_f64_nearest() != -2.0 / 3.0 {
        return Err("Q::to_f64_nearest 1/3".into());
    }
    Ok(())
}

//! O2: independent evaluator of ZX-diagrams.
//!
//! Semantics by definition: Z_a = |0..0><0..0| + e^{ia}|1..1><1..1|; an X spider is a
//! Z spider with a normalised Hadamard on every leg; an N edge is the identity, an H edge
//! the normalised Hadamard (1/sqrt2)[[1,1],[1,-1]]; a boundary is an open index. Result
//! index order: inputs in order, then outputs in order, first index most significant.
//!
//! Algorithm: one binary variable per vertex; N-effective edges merge variables
//! (union-find), H-effective edges are (-1)^{xy} factors with one 1/sqrt2 each, then
//! bucket elimination over closed variables in min-degree order with dense tables.
//! This is a different algorithm from quizx's ndarray contraction.

use super::ring::{Cf, Num, Zw, R};
use std::collections::{BTreeMap, BTreeSet};

#[derive(Clone, Copy, PartialEq, Eq, Hash, Debug, PartialOrd, Ord)]
pub enum VK {
    B,
    Z,
    X,
}
#[derive(Clone, Copy, PartialEq, Eq, Hash, Debug, PartialOrd, Ord)]
pub enum EK {
    N,
    H,
}

/// Neutral description of a diagram. `scalar` is kept outside (see `Snap`).
#[derive(Clone, Debug, PartialEq, Eq, Hash)]
pub struct Diag {
    /// (id, kind, phase numerator, phase denominator) -- phase in units of pi
    pub verts: Vec<(usize, VK, i64, i64)>,
    pub edges: Vec<(usize, usize, EK)>,
    pub inputs: Vec<usize>,
    pub outputs: Vec<usize>,
}

#[derive(Debug, Clone)]
pub enum EvalError {
    IllFormed(String),
    TooWide(usize),
}

pub const MAX_TABLE_BITS: usize = 22;

impl Diag {
    pub fn all_phases_pi4(&self) -> bool {
        self.verts.iter().all(|&(_, _, _, d)| d != 0 && 4 % d == 0)
    }

    pub fn num_spiders(&self) -> usize {
        self.verts.iter().filter(|v| v.1 != VK::B).count()
    }

    /// Well-formedness: unique ids; edges between existing distinct vertices, no parallel
    /// edges; every boundary has degree 1 and occurs exactly once in inputs+outputs;
    /// inputs/outputs are boundaries.
    pub fn check_well_formed(&self) -> Result<(), String> {
        let mut kinds = BTreeMap::new();
        for &(id, k, _, d) in &self.verts {
            if kinds.insert(id, k).is_some() {
                return Err(format!("duplicate vertex id {id}"));
            }
            if d == 0 {
                return Err(format!("zero denominator at {id}"));
            }
        }
        let mut deg: BTreeMap<usize, usize> = BTreeMap::new();
        let mut seen = BTreeSet::new();
        for &(a, b, _) in &self.edges {
            if a == b {
                return Err(format!("self-loop at {a}"));
            }
            if !kinds.contains_key(&a) || !kinds.contains_key(&b) {
                return Err(format!("edge ({a},{b}) to missing vertex"));
            }
            let key = (a.min(b), a.max(b));
            if !seen.insert(key) {
                return Err(format!("parallel edge ({a},{b})"));
            }
            *deg.entry(a).or_default() += 1;
            *deg.entry(b).or_default() += 1;
        }
        let mut io = BTreeMap::new();
        for &b in self.inputs.iter().chain(self.outputs.iter()) {
            match kinds.get(&b) {
                None => return Err(format!("input/output {b} is not a vertex")),
                Some(VK::B) => {}
                Some(k) => return Err(format!("input/output {b} has kind {k:?}, not boundary")),
            }
            *io.entry(b).or_insert(0usize) += 1;
        }
        for (&id, &k) in &kinds {
            if k == VK::B {
                let d = deg.get(&id).copied().unwrap_or(0);
                if d != 1 {
                    return Err(format!("boundary {id} has degree {d}"));
                }
                let n = io.get(&id).copied().unwrap_or(0);
                if n != 1 {
                    return Err(format!("boundary {id} occurs {n} times in inputs+outputs"));
                }
            }
        }
        Ok(())
    }
}

struct Factor<S> {
    vars: Vec<usize>, // sorted class ids; table index bit i (LSB = last var)
    tab: Vec<S>,
}

fn find(p: &mut Vec<usize>, x: usize) -> usize {
    let mut r = x;
    while p[r] != r {
        r = p[r];
    }
    let mut y = x;
    while p[y] != r {
        let n = p[y];
        p[y] = r;
        y = n;
    }
    r
}

fn multiply_all<S: Num>(fs: Vec<Factor<S>>) -> Result<Factor<S>, EvalError> {
    let mut vars: Vec<usize> = fs.iter().flat_map(|f| f.vars.iter().copied()).collect();
    vars.sort();
    vars.dedup();
    if vars.len() > MAX_TABLE_BITS {
        return Err(EvalError::TooWide(vars.len()));
    }
    let n = vars.len();
    let mut tab = vec![S::one(); 1usize << n];
    for f in fs {
        // positions of f's vars in vars
        let pos: Vec<usize> = f.vars.iter().map(|v| vars.binary_search(v).unwrap()).collect();
        let fk = f.vars.len();
        for (idx, t) in tab.iter_mut().enumerate() {
            let mut fi = 0usize;
            for (j, &p) in pos.iter().enumerate() {
                let bit = (idx >> (n - 1 - p)) & 1;
                fi |= bit << (fk - 1 - j);
            }
            *t = t.mul(&f.tab[fi]);
        }
    }
    Ok(Factor { vars, tab })
}

fn sum_out<S: Num>(f: Factor<S>, v: usize) -> Factor<S> {
    let p = f.vars.binary_search(&v).unwrap();
    let n = f.vars.len();
    let mut vars = f.vars.clone();
    vars.remove(p);
    let m = n - 1;
    let mut tab = Vec::with_capacity(1usize << m);
    let bitpos = n - 1 - p;
    for idx in 0..(1usize << m) {
        // insert a bit at bitpos
        let hi = idx >> bitpos;
        let lo = idx & ((1usize << bitpos) - 1);
        let i0 = (hi << (bitpos + 1)) | lo;
        let i1 = i0 | (1usize << bitpos);
        tab.push(f.tab[i0].add(&f.tab[i1]));
    }
    Factor { vars, tab }
}

/// Result of evaluating a diagram without its stored scalar:
/// tensor entries (inputs then outputs, first index most significant) to be multiplied
/// by sqrt2^(-half_pow).
pub struct RawTensor<S> {
    pub n_in: usize,
    pub n_out: usize,
    pub entries: Vec<S>,
    pub sqrt2_neg: i64,
}

pub fn eval_raw<S: Num>(d: &Diag) -> Result<RawTensor<S>, EvalError> {
    d.check_well_formed().map_err(EvalError::IllFormed)?;
    // index vertices
    let mut idx = BTreeMap::new();
    for (i, v) in d.verts.iter().enumerate() {
        idx.insert(v.0, i);
    }
    let n = d.verts.len();
    let kind: Vec<VK> = d.verts.iter().map(|v| v.1).collect();
    let mut parent: Vec<usize> = (0..n).collect();
    let mut hedges: Vec<(usize, usize)> = vec![];
    for &(a, b, ek) in &d.edges {
        let (ia, ib) = (idx[&a], idx[&b]);
        let mut h = ek == EK::H;
        if kind[ia] == VK::X {
            h = !h;
        }
        if kind[ib] == VK::X {
            h = !h;
        }
        if h {
            hedges.push((ia, ib));
        } else {
            let (ra, rb) = (find(&mut parent, ia), find(&mut parent, ib));
            if ra != rb {
                parent[ra] = rb;
            }
        }
    }
    let cls: Vec<usize> = (0..n).map(|i| find(&mut parent, i)).collect();
    let mut sqrt2_neg = hedges.len() as i64;
    let mut factors: Vec<Factor<S>> = vec![];
    // spider phases
    for (i, v) in d.verts.iter().enumerate() {
        if v.1 != VK::B && v.2 != 0 {
            factors.push(Factor { vars: vec![cls[i]], tab: vec![S::one(), S::from_phase(v.2, v.3)] });
        }
    }
    for &(a, b) in &hedges {
        let (ca, cb) = (cls[a], cls[b]);
        if ca == cb {
            factors.push(Factor { vars: vec![ca], tab: vec![S::one(), S::one().neg()] });
        } else {
            let (x, y) = (ca.min(cb), ca.max(cb));
            factors.push(Factor {
                vars: vec![x, y],
                tab: vec![S::one(), S::one(), S::one(), S::one().neg()],
            });
        }
    }
    // open classes
    let bnds: Vec<usize> = d.inputs.iter().chain(d.outputs.iter()).map(|b| idx[b]).collect();
    let open: BTreeSet<usize> = bnds.iter().map(|&b| cls[b]).collect();
    let all_cls: BTreeSet<usize> = cls.iter().copied().collect();
    let mut closed: BTreeSet<usize> = all_cls.difference(&open).copied().collect();
    // bucket elimination, min-degree. Incidence index (variable -> factor slots) and a set
    // ordered by (degree, variable): near-linear on chains and trees of thousands of spiders,
    // the same elimination rule as the straightforward quadratic scan it replaced (smallest
    // number of distinct other variables sharing a factor, ties to the smallest class id).
    let mut slots: Vec<Option<Factor<S>>> = factors.into_iter().map(Some).collect();
    let mut inc: std::collections::HashMap<usize, Vec<usize>> = std::collections::HashMap::new();
    for (k, f) in slots.iter().enumerate() {
        for &v in &f.as_ref().unwrap().vars {
            inc.entry(v).or_default().push(k);
        }
    }
    let degree = |c: usize, slots: &Vec<Option<Factor<S>>>, inc: &std::collections::HashMap<usize, Vec<usize>>| -> usize {
        let mut nb = BTreeSet::new();
        if let Some(ks) = inc.get(&c) {
            for &k in ks {
                if let Some(f) = &slots[k] {
                    nb.extend(f.vars.iter().copied());
                }
            }
        }
        nb.len()
    };
    let mut deg_of: std::collections::HashMap<usize, usize> = std::collections::HashMap::new();
    let mut queue: BTreeSet<(usize, usize)> = BTreeSet::new();
    for &c in &closed {
        let dg = degree(c, &slots, &inc);
        deg_of.insert(c, dg);
        queue.insert((dg, c));
    }
    while let Some(&(dg, c)) = queue.iter().next() {
        queue.remove(&(dg, c));
        closed.remove(&c);
        let ks: Vec<usize> = inc.remove(&c).unwrap_or_default();
        let with: Vec<Factor<S>> = ks.iter().filter_map(|&k| slots[k].take()).collect();
        if with.is_empty() {
            // free variable: contributes a factor 2
            slots.push(Some(Factor { vars: vec![], tab: vec![S::one().add(&S::one())] }));
            continue;
        }
        let prod = multiply_all(with)?;
        let newf = sum_out(prod, c);
        let k_new = slots.len();
        let touched: Vec<usize> = newf.vars.clone();
        for &v in &touched {
            let e = inc.entry(v).or_default();
            e.retain(|k| slots[*k].is_some());
            e.push(k_new);
        }
        slots.push(Some(newf));
        for v in touched {
            if closed.contains(&v) {
                let old = deg_of[&v];
                let nd = degree(v, &slots, &inc);
                if nd != old {
                    queue.remove(&(old, v));
                    queue.insert((nd, v));
                    deg_of.insert(v, nd);
                }
            }
        }
    }
    let factors: Vec<Factor<S>> = slots.into_iter().flatten().collect();
    let fin = multiply_all(factors)?;
    // expand to boundary indices
    let nb = bnds.len();
    if nb > MAX_TABLE_BITS {
        return Err(EvalError::TooWide(nb));
    }
    let ovars: Vec<usize> = open.iter().copied().collect();
    // fin.vars is a subset of ovars (some open classes may have no factor)
    let k = fin.vars.len();
    let pos_in_fin: Vec<Option<usize>> = ovars.iter().map(|v| fin.vars.binary_search(v).ok()).collect();
    let bcls: Vec<usize> = bnds.iter().map(|&b| ovars.binary_search(&cls[b]).unwrap()).collect();
    let mut entries = Vec::with_capacity(1usize << nb);
    'outer: for e in 0..(1usize << nb) {
        let mut val: Vec<Option<usize>> = vec![None; ovars.len()];
        for (j, &c) in bcls.iter().enumerate() {
            let bit = (e >> (nb - 1 - j)) & 1;
            match val[c] {
                None => val[c] = Some(bit),
                Some(b0) => {
                    if b0 != bit {
                        entries.push(S::zero());
                        continue 'outer;
                    }
                }
            }
        }
        let mut fi = 0usize;
        for (c, p) in pos_in_fin.iter().enumerate() {
            if let Some(p) = p {
                fi |= val[c].unwrap() << (k - 1 - p);
            }
        }
        entries.push(fin.tab[fi].clone());
    }
    // X spiders with zero legs etc. are covered by the generic construction.
    // normalise nothing else.
    if sqrt2_neg < 0 {
        sqrt2_neg = 0;
    }
    Ok(RawTensor { n_in: d.inputs.len(), n_out: d.outputs.len(), entries, sqrt2_neg })
}

/// Exact tensor of a diagram times `scalar` (phases must be multiples of pi/4).
pub fn eval_exact(d: &Diag, scalar: &R) -> Result<Vec<R>, EvalError> {
    // fast path: checked i128 coefficients; big diagrams (6-qubit circuits with dozens of
    // Hadamard edges) can exceed them, then the same contraction is repeated over BigInt
    match std::panic::catch_unwind(|| eval_raw::<Zw>(d)) {
        Ok(raw) => {
            let raw = raw?;
            let f = R::sqrt2_pow(-raw.sqrt2_neg).mul(scalar);
            Ok(raw.entries.iter().map(|z| R::from_zw(z).mul(&f)).collect())
        }
        Err(_) => {
            let raw = eval_raw::<R>(d)?;
            let f = R::sqrt2_pow(-raw.sqrt2_neg).mul(scalar);
            Ok(raw.entries.iter().map(|z| z.mul(&f)).collect())
        }
    }
}

/// Magnitude bookkeeping for the float evaluator: the same contraction with every factor
/// replaced by its absolute value gives, per entry, the sum of the magnitudes of all terms,
/// i.e. the scale against which cancellation noise has to be measured.
#[derive(Clone, Copy, Debug)]
struct AbsF(f64);

impl Num for AbsF {
    fn zero() -> Self {
        AbsF(0.0)
    }
    fn one() -> Self {
        AbsF(1.0)
    }
    fn add(&self, o: &Self) -> Self {
        AbsF(self.0 + o.0)
    }
    fn mul(&self, o: &Self) -> Self {
        AbsF(self.0 * o.0)
    }
    fn neg(&self) -> Self {
        *self
    }
    fn from_phase(_: i64, _: i64) -> Self {
        AbsF(1.0)
    }
    fn is_zero(&self) -> bool {
        self.0 == 0.0
    }
    fn conj(&self) -> Self {
        *self
    }
}

/// Relative rounding error assumed per unit of "sum of the magnitudes of all terms" in the
/// f64 contraction (about 50 ulp: the contraction performs a few dozen dependent
/// operations per term).
pub const NOISE_PER_MAGNITUDE: f64 = 1e-14;

/// Floating-point tensor of a diagram times `scalar`.
pub fn eval_float(d: &Diag, scalar: Cf) -> Result<Vec<Cf>, EvalError> {
    Ok(eval_float_noise(d, scalar)?.0)
}

/// Floating-point tensor of a diagram times `scalar`, together with an estimate of the
/// absolute cancellation noise of its entries: the same contraction is repeated with every
/// factor replaced by its absolute value, which gives per entry the sum of the magnitudes of
/// all terms; the f64 result cannot be trusted below NOISE_PER_MAGNITUDE times that sum
/// (times |scalar|). Without this a diagram that denotes exactly 0 but carries a stored
/// scalar of 1e20 would be compared at the scale 1e20 * 1e-16.
pub fn eval_float_noise(d: &Diag, scalar: Cf) -> Result<(Vec<Cf>, f64), EvalError> {
    let raw = eval_raw::<Cf>(d)?;
    let mag = eval_raw::<AbsF>(d)?;
    let s2 = std::f64::consts::SQRT_2.powi(-(raw.sqrt2_neg as i32));
    let f = scalar * s2;
    let mmax = mag.entries.iter().map(|m| m.0).fold(0.0f64, f64::max);
    let noise = NOISE_PER_MAGNITUDE * mmax * s2 * scalar.norm();
    Ok((raw.entries.iter().map(|z| z * f).collect(), noise))
}

/// Tensor of a diagram whose phases are all multiples of pi/4, times a scalar that is only
/// known in floating point: the diagram part is evaluated exactly (so an exact 0 stays 0
/// and there is no cancellation noise), only the final multiplication is in f64.
pub fn eval_exact_times_float(d: &Diag, scalar: Cf) -> Result<Vec<Cf>, EvalError> {
    Ok(eval_exact(d, &R::one())?.iter().map(|z| z.to_cf() * scalar).collect())
}

/// max |a_i - b_i| <= tol * max(1, max|a_i|, max|b_i|)
pub fn close(a: &[Cf], b: &[Cf], tol: f64) -> bool {
    if a.len() != b.len() {
        return false;
    }
    let m = a.iter().chain(b.iter()).map(|x| x.norm()).fold(1.0f64, f64::max);
    if !m.is_finite() {
        return false;
    }
    a.iter().zip(b.iter()).all(|(x, y)| (x - y).norm() <= tol * m)
}

/// a == lambda * b for some non-zero lambda (exact, by cross-multiplication)
pub fn proportional_exact(a: &[R], b: &[R]) -> bool {
    if a.len() != b.len() {
        return false;
    }
    let ia = a.iter().position(|x| !x.is_zero());
    let ib = b.iter().position(|x| !x.is_zero());
    match (ia, ib) {
        (None, None) => true,
        (Some(i), Some(j)) if i == j => {
            let (pa, pb) = (&a[i], &b[i]);
            a.iter().zip(b.iter()).all(|(x, y)| x.mul(pb) == y.mul(pa))
        }
        _ => false,
    }
}

/// a ~ lambda * b for some non-zero lambda (float)
pub fn proportional_float(a: &[Cf], b: &[Cf], tol: f64) -> bool {
    if a.len() != b.len() {
        return false;
    }
    let na = a.iter().map(|x| x.norm_sqr()).sum::<f64>().sqrt();
    let nb = b.iter().map(|x| x.norm_sqr()).sum::<f64>().sqrt();
    if na < 1e-300 || nb < 1e-300 {
        return na < 1e-300 && nb < 1e-300;
    }
    // inner product
    let ip: Cf = a.iter().zip(b.iter()).map(|(x, y)| x * y.conj()).sum();
    let lam = ip / (nb * nb);
    a.iter().zip(b.iter()).all(|(x, y)| (x - lam * y).norm() <= tol * na)
}

// ------------------------------------------------------------------------------
// tensor algebra on flat tensors (used by C11 and others)
// ------------------------------------------------------------------------------

/// Contract: result[in_a, out_b] = sum_m a[in_a, m] * b[m, out_b]
pub fn compose<S: Num>(a: &[S], a_in: usize, a_out: usize, b: &[S], b_in: usize, b_out: usize) -> Vec<S> {
    assert_eq!(a_out, b_in);
    let mut r = Vec::with_capacity(1usize << (a_in + b_out));
    for i in 0..(1usize << a_in) {
        for o in 0..(1usize << b_out) {
            let mut s = S::zero();
            for m in 0..(1usize << a_out) {
                let x = &a[(i << a_out) | m];
                if x.is_zero() {
                    continue;
                }
                s = s.add(&x.mul(&b[(m << b_out) | o]));
            }
            r.push(s);
        }
    }
    r
}

/// Tensor product with index order [a_in, b_in, a_out, b_out]
pub fn tensor<S: Num>(a: &[S], a_in: usize, a_out: usize, b: &[S], b_in: usize, b_out: usize) -> Vec<S> {
    let mut r = Vec::with_capacity(1usize << (a_in + b_in + a_out + b_out));
    for ia in 0..(1usize << a_in) {
        for ib in 0..(1usize << b_in) {
            for oa in 0..(1usize << a_out) {
                for ob in 0..(1usize << b_out) {
                    r.push(a[(ia << a_out) | oa].mul(&b[(ib << b_out) | ob]));
                }
            }
        }
    }
    r
}

/// Conjugate transpose: result[out, in] = conj(a[in, out])
pub fn dagger<S: Num>(a: &[S], n_in: usize, n_out: usize) -> Vec<S> {
    let mut r = Vec::with_capacity(a.len());
    for o in 0..(1usize << n_out) {
        for i in 0..(1usize << n_in) {
            r.push(a[(i << n_out) | o].conj());
        }
    }
    r
}

/// Self-test on textbook equalities (no quizx code involved).
pub fn self_test() -> Result<(), String> {
    use VK::*;
    let one = R::one();
    let ev = |d: &Diag| eval_exact(d, &one).map_err(|e| format!("{e:?}"));
    // identity wire
    let id = Diag { verts: vec![(0, B, 0, 1), (1, B, 0, 1)], edges: vec![(0, 1, EK::N)], inputs: vec![0], outputs: vec![1] };
    let t = ev(&id)?;
    if t != vec![R::one(), R::zero(), R::zero(), R::one()] {
        return Err("identity wire".into());
    }
    // hadamard wire
    let h = Diag { edges: vec![(0, 1, EK::H)], ..id.clone() };
    let s = R::sqrt2_pow(-1);
    if ev(&h)? != vec![s.clone(), s.clone(), s.clone(), s.neg()] {
        return Err("hadamard wire".into());
    }
    // Z spider with phase pi/4, 1 in 1 out
    let z = Diag {
        verts: vec![(0, B, 0, 1), (1, Z, 1, 4), (2, B, 0, 1)],
        edges: vec![(0, 1, EK::N), (1, 2, EK::N)],
        inputs: vec![0],
        outputs: vec![2],
    };
    if ev(&z)? != vec![R::one(), R::zero(), R::zero(), R::omega_pow(1)] {
        return Err("Z phase".into());
    }
    // X spider phase pi = NOT
    let x = Diag { verts: vec![(0, B, 0, 1), (1, X, 1, 1), (2, B, 0, 1)], ..z.clone() };
    if ev(&x)? != vec![R::zero(), R::one(), R::one(), R::zero()] {
        return Err(format!("X pi = NOT: {:?}", ev(&x)?));
    }
    // X state phase 0 = sqrt2 |0>
    let xs = Diag { verts: vec![(1, X, 0, 1), (2, B, 0, 1)], edges: vec![(1, 2, EK::N)], inputs: vec![], outputs: vec![2] };
    if ev(&xs)? != vec![R::sqrt2_pow(1), R::zero()] {
        return Err("X(0) state".into());
    }
    // CNOT = sqrt2 * Z-X
    let cnot = Diag {
        verts: vec![(0, B, 0, 1), (1, B, 0, 1), (2, Z, 0, 1), (3, X, 0, 1), (4, B, 0, 1), (5, B, 0, 1)],
        edges: vec![(0, 2, EK::N), (1, 3, EK::N), (2, 3, EK::N), (2, 4, EK::N), (3, 5, EK::N)],
        inputs: vec![0, 1],
        outputs: vec![4, 5],
    };
    let t = eval_exact(&cnot, &R::sqrt2_pow(1)).map_err(|e| format!("{e:?}"))?;
    let mut expect = vec![R::zero(); 16];
    for (i, o) in [(0, 0), (1, 1), (2, 3), (3, 2)] {
        expect[(i << 2) | o] = R::one();
    }
    if t != expect {
        return Err("CNOT".into());
    }
    // Hopf: Z -- X with two parallel edges cannot be expressed (simple graph); instead
    // check spider fusion: Z(a)-N-Z(b) == Z(a+b)
    let f1 = Diag {
        verts: vec![(0, B, 0, 1), (1, Z, 1, 4), (2, Z, 1, 2), (3, B, 0, 1)],
        edges: vec![(0, 1, EK::N), (1, 2, EK::N), (2, 3, EK::N)],
        inputs: vec![0],
        outputs: vec![3],
    };
    if ev(&f1)? != vec![R::one(), R::zero(), R::zero(), R::omega_pow(3)] {
        return Err("fusion".into());
    }
    // colour change: X(a) with N legs == Z(a) with H legs
    let c1 = Diag {
        verts: vec![(0, B, 0, 1), (1, X, 1, 4), (2, B, 0, 1), (3, B, 0, 1)],
        edges: vec![(0, 1, EK::N), (1, 2, EK::N), (1, 3, EK::H)],
        inputs: vec![0],
        outputs: vec![2, 3],
    };
    let c2 = Diag {
        verts: vec![(0, B, 0, 1), (1, Z, 1, 4), (2, B, 0, 1), (3, B, 0, 1)],
        edges: vec![(0, 1, EK::H), (1, 2, EK::H), (1, 3, EK::N)],
        inputs: vec![0],
        outputs: vec![2, 3],
    };
    if ev(&c1)? != ev(&c2)? {
        return Err("colour change".into());
    }
    // Euler: H = e^{-i pi/4} Z(pi/2) X(pi/2) Z(pi/2)
    let eu = Diag {
        verts: vec![(0, B, 0, 1), (1, Z, 1, 2), (2, X, 1, 2), (3, Z, 1, 2), (4, B, 0, 1)],
        edges: vec![(0, 1, EK::N), (1, 2, EK::N), (2, 3, EK::N), (3, 4, EK::N)],
        inputs: vec![0],
        outputs: vec![4],
    };
    let te = eval_exact(&eu, &R::omega_pow(-1)).map_err(|e| format!("{e:?}"))?;
    if te != ev(&h)? {
        return Err("Euler decomposition".into());
    }
    // scalar diagrams: isolated Z(a) = 1+e^{ia}; empty = 1; Z(0)-H-Z(0) = sqrt2
    let iso = Diag { verts: vec![(7, Z, 1, 4)], edges: vec![], inputs: vec![], outputs: vec![] };
    if ev(&iso)? != vec![R::one().add(&R::omega_pow(1))] {
        return Err("isolated spider".into());
    }
    let empty = Diag { verts: vec![], edges: vec![], inputs: vec![], outputs: vec![] };
    if ev(&empty)? != vec![R::one()] {
        return Err("empty".into());
    }
    let pair = Diag { verts: vec![(0, Z, 0, 1), (1, Z, 3, 4)], edges: vec![(0, 1, EK::H)], inputs: vec![], outputs: vec![] };
    if ev(&pair)? != vec![R::sqrt2_pow(1)] {
        return Err("pair".into());
    }
    // float agrees with exact
    let tf = eval_float(&eu, Cf::new(1.0, 0.0)).map_err(|e| format!("{e:?}"))?;
    let tx: Vec<Cf> = ev(&eu)?.iter().map(|r| r.to_cf()).collect();
    if !close(&tf, &tx, 1e-12) {
        return Err("float vs exact".into());
    }
    // ill-formed detection
    let bad = Diag { verts: vec![(0, B, 0, 1), (1, Z, 0, 1)], edges: vec![(0, 1, EK::N)], inputs: vec![], outputs: vec![] };
    if bad.check_well_formed().is_ok() {
        return Err("ill-formed not detected".into());
    }
    // compose / dagger
    let hh = compose(&ev(&h)?, 1, 1, &ev(&h)?, 1, 1);
    if hh != ev(&id)? {
        return Err("compose H H".into());
    }
    let zd = dagger(&ev(&z)?, 1, 1);
    if compose(&ev(&z)?, 1, 1, &zd, 1, 1) != ev(&id)? {
        return Err("dagger".into());
    }
    Ok(())
}

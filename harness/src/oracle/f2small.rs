//! Small F2 linear algebra used by the C20 monitor (Pauli-web spaces).
//!
//! Written from the textbook definition, shares no code with quizx / bitgauss and does
//! not depend on `oracle/f2.rs` (the C17 oracle). A vector is a `Vec<u64>` bit row of a
//! fixed number of columns; rank is computed by plain Gaussian elimination and, for
//! the self-test, by brute-force enumeration of the span.

use std::collections::HashSet;

pub type Row = Vec<u64>;

pub fn words(cols: usize) -> usize {
    (cols + 63) / 64
}

pub fn zero_row(cols: usize) -> Row {
    vec![0u64; words(cols).max(1)]
}

#[inline]
pub fn get(r: &Row, i: usize) -> bool {
    (r[i / 64] >> (i % 64)) & 1 == 1
}

#[inline]
pub fn set(r: &mut Row, i: usize, b: bool) {
    if b {
        r[i / 64] |= 1u64 << (i % 64);
    } else {
        r[i / 64] &= !(1u64 << (i % 64));
    }
}

#[inline]
pub fn flip(r: &mut Row, i: usize) {
    r[i / 64] ^= 1u64 << (i % 64);
}

pub fn xor_into(a: &mut Row, b: &Row) {
    for (x, y) in a.iter_mut().zip(b.iter()) {
        *x ^= *y;
    }
}

pub fn is_zero(r: &Row) -> bool {
    r.iter().all(|w| *w == 0)
}

pub fn row_from_bits(bits: &[bool]) -> Row {
    let mut r = zero_row(bits.len());
    for (i, &b) in bits.iter().enumerate() {
        if b {
            set(&mut r, i, true);
        }
    }
    r
}

/// Rank of the row set by Gaussian elimination (on a copy).
pub fn rank(rows: &[Row], cols: usize) -> usize {
    let mut m: Vec<Row> = rows.to_vec();
    let mut rk = 0usize;
    for c in 0..cols {
        if rk == m.len() {
            break;
        }
        let Some(p) = (rk..m.len()).find(|&i| get(&m[i], c)) else {
            continue;
        };
        m.swap(rk, p);
        let piv = m[rk].clone();
        for (i, row) in m.iter_mut().enumerate() {
            if i != rk && get(row, c) {
                xor_into(row, &piv);
            }
        }
        rk += 1;
    }
    rk
}

/// Is `v` in the span of `rows`?
pub fn in_span(rows: &[Row], v: &Row, cols: usize) -> bool {
    let mut ext = rows.to_vec();
    ext.push(v.clone());
    rank(rows, cols) == rank(&ext, cols)
}

/// Do the two row sets span the same subspace?
pub fn same_span(a: &[Row], b: &[Row], cols: usize) -> bool {
    let ra = rank(a, cols);
    let rb = rank(b, cols);
    if ra != rb {
        return false;
    }
    let mut ab = a.to_vec();
    ab.extend(b.iter().cloned());
    rank(&ab, cols) == ra
}

/// Dimension of {x : A x = 0} for the equation rows `eqs` over `cols` unknowns.
pub fn nullity(eqs: &[Row], cols: usize) -> usize {
    cols - rank(eqs, cols)
}

/// Brute force: log2 of the number of distinct elements of the span (rows.len() <= 16).
pub fn rank_brute(rows: &[Row], cols: usize) -> usize {
    assert!(rows.len() <= 16);
    let mut seen: HashSet<Row> = HashSet::new();
    for mask in 0..(1usize << rows.len()) {
        let mut v = zero_row(cols);
        for (i, r) in rows.iter().enumerate() {
            if (mask >> i) & 1 == 1 {
                xor_into(&mut v, r);
            }
        }
        seen.insert(v);
    }
    let n = seen.len();
    assert!(n.is_power_of_two());
    n.trailing_zeros() as usize
}

/// Brute force: log2 of the number of x in F2^cols with A x = 0 (cols <= 16).
pub fn nullity_brute(eqs: &[Row], cols: usize) -> usize {
    assert!(cols <= 16);
    let mut n = 0usize;
    for x in 0..(1u64 << cols) {
        let ok = eqs.iter().all(|r| (r[0] & x).count_ones() % 2 == 0);
        if ok {
            n += 1;
        }
    }
    assert!(n.is_power_of_two());
    n.trailing_zeros() as usize
}

pub fn self_test() -> Result<(), String> {
    // fixed examples
    let id3 = vec![row_from_bits(&[true, false, false]), row_from_bits(&[false, true, false]), row_from_bits(&[false, false, true])];
    if rank(&id3, 3) != 3 {
        return Err("f2small: rank(I3)".into());
    }
    let dep = vec![row_from_bits(&[true, true, false]), row_from_bits(&[false, true, true]), row_from_bits(&[true, false, true])];
    if rank(&dep, 3) != 2 || nullity(&dep, 3) != 1 {
        return Err("f2small: rank of dependent triple".into());
    }
    if rank(&[zero_row(5)], 5) != 0 || rank(&[], 5) != 0 {
        return Err("f2small: rank of zero / empty".into());
    }
    if !in_span(&dep[0..2], &dep[2], 3) || in_span(&dep[0..1], &dep[2], 3) {
        return Err("f2small: in_span".into());
    }
    if !same_span(&dep[0..2], &dep[1..3], 3) || same_span(&dep[0..1], &dep[1..2], 3) {
        return Err("f2small: same_span".into());
    }
    // wide rows (more than one word)
    let mut a = zero_row(130);
    set(&mut a, 0, true);
    set(&mut a, 129, true);
    let mut b = zero_row(130);
    set(&mut b, 129, true);
    let mut c = a.clone();
    xor_into(&mut c, &b);
    if rank(&[a.clone(), b.clone(), c.clone()], 130) != 2 || !get(&c, 0) || get(&c, 129) {
        return Err("f2small: wide rows".into());
    }
    // pseudo-random matrices against brute force
    let mut s = 0x1234_5678_9abc_def1u64;
    let mut next = || {
        s ^= s << 13;
        s ^= s >> 7;
        s ^= s << 17;
        s
    };
    for _ in 0..300 {
        let nr = (next() % 7) as usize;
        let nc = 1 + (next() % 9) as usize;
        let dens = next() % 3;
        let rows: Vec<Row> = (0..nr)
            .map(|_| {
                let mut r = zero_row(nc);
                for cidx in 0..nc {
                    let bit = match dens {
                        0 => next() % 4 == 0,
                        1 => next() % 2 == 0,
                        _ => next() % 4 != 0,
                    };
                    set(&mut r, cidx, bit);
                }
                r
            })
            .collect();
        let rk = rank(&rows, nc);
        if rk != rank_brute(&rows, nc) {
            return Err(format!("f2small: rank vs brute force on {rows:?}"));
        }
        if nullity(&rows, nc) != nullity_brute(&rows, nc) {
            return Err(format!("f2small: nullity vs brute force on {rows:?}"));
        }
    }
    Ok(())
}

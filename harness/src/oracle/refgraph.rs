//! O5 `refgraph`: a plain BTreeMap-based reference model of a simple, undirected graph with
//! vertex data, typed edges, ordered inputs/outputs, a scalar (exact, in R = Z[omega][1/2])
//! and parametrised scalar factors. It implements the DOCUMENTED meaning of every
//! `GraphLike` operation (doc comments of /repo/quizx/src/graph.rs) and nothing of the
//! backends' storage tricks: no slots, no holes, no cached counters. Vertex names are
//! opaque model ids handed in by the caller (never chosen here), so the model can be put in
//! bijection with a backend that picks its own names.
//!
//! `VType`, `EType`, `BasisElem` are used as plain data tags only; all behaviour
//! (edge-type toggling, phase arithmetic mod 2, parity XOR, smart-edge table, colour change,
//! adjoint, ...) is written here from the definitions.
//!
//! Every mutator checks the documented precondition and returns `Err(reason)` without
//! changing anything when it is not met; the history executor uses that to decide whether an
//! operation is "issued with valid arguments".

use crate::oracle::ring::{Num, R};
use quizx::graph::{BasisElem, EType, VType};
use std::collections::{BTreeMap, BTreeSet};

pub type M = usize;

// ---------------------------------------------------------------------------------------
// phases: rationals (in half turns) modulo 2, normal form (-1, 1]
// ---------------------------------------------------------------------------------------

fn gcd(a: i64, b: i64) -> i64 {
    let (mut a, mut b) = (a.abs(), b.abs());
    while b != 0 {
        let t = a % b;
        a = b;
        b = t;
    }
    a
}

#[derive(Clone, Copy, Debug, PartialEq, Eq, PartialOrd, Ord, Hash)]
pub struct Ph {
    pub n: i64,
    pub d: i64,
}

impl Ph {
    /// n/d half turns, reduced and brought into (-1, 1]
    pub fn new(n: i64, d: i64) -> Ph {
        assert!(d != 0, "refgraph: zero denominator");
        let (mut n, mut d) = if d < 0 { (-n, -d) } else { (n, d) };
        let g = gcd(n, d);
        if g > 1 {
            n /= g;
            d /= g;
        }
        // reduce modulo 2 into (-1,1]:  -d < n <= d
        n = n.rem_euclid(2 * d);
        if n > d {
            n -= 2 * d;
        }
        Ph { n, d }
    }
    pub fn zero() -> Ph {
        Ph { n: 0, d: 1 }
    }
    pub fn one() -> Ph {
        Ph { n: 1, d: 1 }
    }
    pub fn add(self, o: Ph) -> Ph {
        let n = (self.n as i128) * (o.d as i128) + (o.n as i128) * (self.d as i128);
        let d = (self.d as i128) * (o.d as i128);
        assert!(n.abs() < (1 << 62) && d < (1 << 62), "refgraph: phase overflow");
        Ph::new(n as i64, d as i64)
    }
    pub fn neg(self) -> Ph {
        Ph::new(-self.n, self.d)
    }
    /// multiple of 1/2
    pub fn is_clifford(self) -> bool {
        self.d <= 2
    }
}

// ---------------------------------------------------------------------------------------
// parities: XOR of boolean variables plus a constant
// ---------------------------------------------------------------------------------------

#[derive(Clone, Debug, PartialEq, Eq, PartialOrd, Ord, Hash, Default)]
pub struct Par {
    pub vars: BTreeSet<u32>,
    pub c: bool,
}

impl Par {
    pub fn new(vs: &[u32], c: bool) -> Par {
        let mut p = Par { vars: BTreeSet::new(), c };
        for &v in vs {
            // XOR semantics: a variable occurring twice cancels
            if !p.vars.insert(v) {
                p.vars.remove(&v);
            }
        }
        p
    }
    pub fn xor(&self, o: &Par) -> Par {
        Par { vars: self.vars.symmetric_difference(&o.vars).copied().collect(), c: self.c ^ o.c }
    }
    pub fn sorted_vars(&self) -> Vec<u32> {
        self.vars.iter().copied().collect()
    }
}

// ---------------------------------------------------------------------------------------
// vertex data
// ---------------------------------------------------------------------------------------

#[derive(Clone, Debug, PartialEq)]
pub struct MData {
    pub ty: VType,
    pub phase: Ph,
    pub vars: Par,
    pub qubit: f64,
    pub row: f64,
}

impl MData {
    /// what `add_vertex(ty)` is documented to create: the given type, everything else default
    pub fn of_type(ty: VType) -> MData {
        MData { ty, phase: Ph::zero(), vars: Par::default(), qubit: 0.0, row: 0.0 }
    }
}

fn opp(e: EType) -> EType {
    match e {
        EType::N => EType::H,
        EType::H => EType::N,
        EType::Wio => EType::Wio,
    }
}

pub fn basis_is_z(b: BasisElem) -> bool {
    matches!(b, BasisElem::Z0 | BasisElem::Z1)
}

pub fn basis_phase(b: BasisElem) -> Ph {
    match b {
        BasisElem::Z1 | BasisElem::X1 => Ph::one(),
        _ => Ph::zero(),
    }
}

pub type Inv = String;

#[derive(Clone, Debug, PartialEq)]
pub struct RefGraph {
    pub v: BTreeMap<M, MData>,
    /// symmetric adjacency; no self loops, no parallel edges
    pub adj: BTreeMap<M, BTreeMap<M, EType>>,
    pub inputs: Vec<M>,
    pub outputs: Vec<M>,
    pub scalar: R,
    /// key = index into the harness's pool of boolean expressions
    pub factors: BTreeMap<usize, R>,
}

impl Default for RefGraph {
    fn default() -> Self {
        RefGraph::new()
    }
}

impl RefGraph {
    pub fn new() -> RefGraph {
        RefGraph { v: BTreeMap::new(), adj: BTreeMap::new(), inputs: vec![], outputs: vec![], scalar: R::one(), factors: BTreeMap::new() }
    }

    // ---------------- queries ----------------
    pub fn has(&self, m: M) -> bool {
        self.v.contains_key(&m)
    }
    pub fn need(&self, m: M) -> Result<(), Inv> {
        if self.has(m) {
            Ok(())
        } else {
            Err(format!("vertex m{m} not in graph"))
        }
    }
    pub fn num_vertices(&self) -> usize {
        self.v.len()
    }
    pub fn num_edges(&self) -> usize {
        self.edges().len()
    }
    pub fn vertices(&self) -> Vec<M> {
        self.v.keys().copied().collect()
    }
    /// sorted list of (s, t, type) with s < t
    pub fn edges(&self) -> Vec<(M, M, EType)> {
        let mut out = vec![];
        for (&s, nb) in &self.adj {
            for (&t, &e) in nb {
                if s < t {
                    out.push((s, t, e));
                }
            }
        }
        out
    }
    pub fn edge(&self, s: M, t: M) -> Option<EType> {
        self.adj.get(&s)?.get(&t).copied()
    }
    pub fn degree(&self, m: M) -> usize {
        self.adj.get(&m).map(|a| a.len()).unwrap_or(0)
    }
    pub fn nbrs(&self, m: M) -> Vec<(M, EType)> {
        self.adj.get(&m).map(|a| a.iter().map(|(&k, &e)| (k, e)).collect()).unwrap_or_default()
    }
    pub fn data(&self, m: M) -> &MData {
        &self.v[&m]
    }
    pub fn tcount(&self) -> usize {
        self.v.values().filter(|d| (d.ty == VType::Z || d.ty == VType::X) && !d.phase.is_clifford()).count()
    }
    /// connected components as a sorted list of sorted vertex lists
    pub fn components(&self) -> Vec<Vec<M>> {
        let mut seen: BTreeSet<M> = BTreeSet::new();
        let mut out = vec![];
        for &s in self.v.keys() {
            if seen.contains(&s) {
                continue;
            }
            let mut comp = vec![];
            let mut queue = vec![s];
            seen.insert(s);
            while let Some(x) = queue.pop() {
                comp.push(x);
                for (y, _) in self.nbrs(x) {
                    if seen.insert(y) {
                        queue.push(y);
                    }
                }
            }
            comp.sort();
            out.push(comp);
        }
        out.sort();
        out
    }
    pub fn max_row(&self) -> Option<f64> {
        self.v.values().map(|d| d.row).fold(None, |m, r| match m {
            None => Some(r),
            Some(x) => Some(if r > x { r } else { x }),
        })
    }
    /// largest bit length among the scalar's coefficients (used to keep quizx's scalar exact)
    pub fn scalar_bits(&self) -> u64 {
        self.scalar.c.iter().map(|c| c.bits()).max().unwrap_or(0)
    }

    // ---------------- vertices ----------------
    /// add a vertex under the (new) name `m`
    pub fn add_vertex(&mut self, m: M, d: MData) -> Result<(), Inv> {
        if self.has(m) {
            return Err(format!("vertex m{m} already in graph"));
        }
        self.v.insert(m, d);
        self.adj.insert(m, BTreeMap::new());
        Ok(())
    }
    /// "Remove a vertex from a graph": the vertex and its incident edges disappear. The
    /// input/output lists are plain lists of names and are not edited.
    pub fn remove_vertex(&mut self, m: M) -> Result<(), Inv> {
        self.need(m)?;
        let nb = self.adj.remove(&m).unwrap_or_default();
        for (t, _) in nb {
            if let Some(a) = self.adj.get_mut(&t) {
                a.remove(&m);
            }
        }
        self.v.remove(&m);
        Ok(())
    }

    // ---------------- edges ----------------
    /// "Add an edge with the given type. Behaviour is undefined if an edge already exists"
    /// (and the graph is simple, so s != t).
    pub fn add_edge_with_type(&mut self, s: M, t: M, e: EType) -> Result<(), Inv> {
        self.need(s)?;
        self.need(t)?;
        if s == t {
            return Err("self loop".into());
        }
        if self.edge(s, t).is_some() {
            return Err(format!("edge m{s}-m{t} already exists"));
        }
        self.adj.get_mut(&s).unwrap().insert(t, e);
        self.adj.get_mut(&t).unwrap().insert(s, e);
        Ok(())
    }
    pub fn remove_edge(&mut self, s: M, t: M) -> Result<(), Inv> {
        if self.edge(s, t).is_none() {
            return Err(format!("no edge m{s}-m{t}"));
        }
        self.adj.get_mut(&s).unwrap().remove(&t);
        self.adj.get_mut(&t).unwrap().remove(&s);
        Ok(())
    }
    pub fn set_edge_type(&mut self, s: M, t: M, e: EType) -> Result<(), Inv> {
        if self.edge(s, t).is_none() {
            return Err(format!("no edge m{s}-m{t}"));
        }
        self.adj.get_mut(&s).unwrap().insert(t, e);
        self.adj.get_mut(&t).unwrap().insert(s, e);
        Ok(())
    }
    /// "Turns H-edges into normal edges and vice-versa"
    pub fn toggle_edge_type(&mut self, s: M, t: M) -> Result<(), Inv> {
        let e = self.edge(s, t).ok_or_else(|| format!("no edge m{s}-m{t}"))?;
        self.set_edge_type(s, t, opp(e))
    }

    /// "Add an edge and simplify if necessary to remove parallel edges."
    ///
    /// Table derived from the ZX-calculus (not from the code):
    ///  * no edge yet, s != t: plain insertion.
    ///  * self loop on a Z/X spider: a plain loop disappears; a Hadamard loop is a pi phase
    ///    and a factor 1/sqrt2.
    ///  * same colour: N||N = N (fusion); H||H = nothing, factor 1/2 (Hopf);
    ///    N||H (either order) = N edge, pi on one end, factor 1/sqrt2 (fuse along N, H loop).
    ///  * different colour = same colour with every edge type flipped (colour change):
    ///    H||H = H; N||N = nothing, factor 1/2; N||H = H edge, pi, 1/sqrt2.
    /// The pi phase is put on `s` (the calculus allows either end; quizx's shared default
    /// method uses `s`, recorded as an assumption of the monitor).
    /// Valid only for: (s == t and s is Z/X and e in {N,H}), or (no existing edge), or
    /// (both ends Z/X and both edge types in {N,H}).
    pub fn add_edge_smart(&mut self, s: M, t: M, e: EType) -> Result<&'static str, Inv> {
        self.need(s)?;
        self.need(t)?;
        let zx = |ty: VType| ty == VType::Z || ty == VType::X;
        let st = self.v[&s].ty;
        let tt = self.v[&t].ty;
        if s == t {
            if !zx(st) {
                return Err("self loop on a vertex that is not Z/X".into());
            }
            return match e {
                EType::N => Ok("loop:N"),
                EType::H => {
                    self.add_to_phase(s, Ph::one())?;
                    self.scalar = self.scalar.mul(&R::sqrt2_pow(-1));
                    Ok("loop:H")
                }
                EType::Wio => Err("W self loop".into()),
            };
        }
        let Some(e0) = self.edge(s, t) else {
            self.add_edge_with_type(s, t, e)?;
            return Ok("fresh");
        };
        if !zx(st) || !zx(tt) {
            return Err("parallel edge between vertices that are not both Z/X".into());
        }
        if e0 == EType::Wio || e == EType::Wio {
            return Err("parallel W edge".into());
        }
        let same = st == tt;
        // normalise to the same-colour picture
        let (a, b) = if same { (e0, e) } else { (opp(e0), opp(e)) };
        let back = |x: EType| if same { x } else { opp(x) };
        let label: &'static str = match (same, e0, e) {
            (true, EType::N, EType::N) => "same:N+N",
            (true, EType::N, EType::H) => "same:N+H",
            (true, EType::H, EType::N) => "same:H+N",
            (true, EType::H, EType::H) => "same:H+H",
            (false, EType::N, EType::N) => "diff:N+N",
            (false, EType::N, EType::H) => "diff:N+H",
            (false, EType::H, EType::N) => "diff:H+N",
            (false, EType::H, EType::H) => "diff:H+H",
            _ => unreachable!(),
        };
        match (a, b) {
            (EType::N, EType::N) => {
                self.set_edge_type(s, t, back(EType::N))?;
            }
            (EType::H, EType::H) => {
                self.remove_edge(s, t)?;
                self.scalar = self.scalar.mul(&R::sqrt2_pow(-2));
            }
            _ => {
                self.set_edge_type(s, t, back(EType::N))?;
                self.add_to_phase(s, Ph::one())?;
                self.scalar = self.scalar.mul(&R::sqrt2_pow(-1));
            }
        }
        Ok(label)
    }

    // ---------------- vertex data ----------------
    pub fn set_phase(&mut self, m: M, p: Ph) -> Result<(), Inv> {
        self.need(m)?;
        self.v.get_mut(&m).unwrap().phase = p;
        Ok(())
    }
    pub fn add_to_phase(&mut self, m: M, p: Ph) -> Result<(), Inv> {
        self.need(m)?;
        let d = self.v.get_mut(&m).unwrap();
        d.phase = d.phase.add(p);
        Ok(())
    }
    pub fn set_type(&mut self, m: M, ty: VType) -> Result<(), Inv> {
        self.need(m)?;
        self.v.get_mut(&m).unwrap().ty = ty;
        Ok(())
    }
    /// "sets the qubit of the vertex to coord.y and the row of the vertex to coord.x"
    pub fn set_coord(&mut self, m: M, x: f64, y: f64) -> Result<(), Inv> {
        self.need(m)?;
        let d = self.v.get_mut(&m).unwrap();
        d.qubit = y;
        d.row = x;
        Ok(())
    }
    pub fn set_qubit(&mut self, m: M, q: f64) -> Result<(), Inv> {
        self.need(m)?;
        self.v.get_mut(&m).unwrap().qubit = q;
        Ok(())
    }
    pub fn set_row(&mut self, m: M, r: f64) -> Result<(), Inv> {
        self.need(m)?;
        self.v.get_mut(&m).unwrap().row = r;
        Ok(())
    }
    pub fn set_vars(&mut self, m: M, p: Par) -> Result<(), Inv> {
        self.need(m)?;
        self.v.get_mut(&m).unwrap().vars = p;
        Ok(())
    }
    pub fn add_to_vars(&mut self, m: M, p: &Par) -> Result<(), Inv> {
        self.need(m)?;
        let d = self.v.get_mut(&m).unwrap();
        d.vars = d.vars.xor(p);
        Ok(())
    }

    // ---------------- whole-graph operations ----------------
    /// "Convert all X spiders to Z with the colour-change rule": every X spider becomes a Z
    /// spider and each of its legs gets a Hadamard, i.e. an edge is toggled once per X end.
    pub fn x_to_z(&mut self) {
        let xs: Vec<M> = self.v.iter().filter(|(_, d)| d.ty == VType::X).map(|(&m, _)| m).collect();
        let xset: BTreeSet<M> = xs.iter().copied().collect();
        for (s, t, e) in self.edges() {
            let k = xset.contains(&s) as u8 + xset.contains(&t) as u8;
            if k == 1 {
                self.set_edge_type(s, t, opp(e)).unwrap();
            }
        }
        for m in xs {
            self.v.get_mut(&m).unwrap().ty = VType::Z;
        }
    }

    /// "Exchange inputs and outputs and reverse all phases" (the scalar is conjugated, as the
    /// adjoint of a linear map requires; scalar factors are left alone -- the documentation
    /// is silent about them).
    pub fn adjoint(&mut self) {
        for d in self.v.values_mut() {
            d.phase = d.phase.neg();
        }
        std::mem::swap(&mut self.inputs, &mut self.outputs);
        self.scalar = self.scalar.conj();
    }

    /// "Replace a boundary vertex with the given basis element. Note this does not replace
    /// the vertex from the input/output list or do normalisation."
    /// |0>,|1> are X spiders with phase 0/pi = Z spiders behind a Hadamard; |+>,|-> are Z
    /// spiders with phase 0/pi. Valid for a boundary vertex with exactly one neighbour
    /// (any vertex for SKIP, which does nothing).
    pub fn plug_vertex(&mut self, m: M, b: BasisElem) -> Result<(), Inv> {
        self.need(m)?;
        if b == BasisElem::SKIP {
            return Ok(());
        }
        if self.v[&m].ty != VType::B {
            return Err("plug target is not a boundary".into());
        }
        if self.degree(m) != 1 {
            return Err("plug target does not have exactly one neighbour".into());
        }
        let (n, _) = self.nbrs(m)[0];
        let d = self.v.get_mut(&m).unwrap();
        d.ty = VType::Z;
        d.phase = basis_phase(b);
        if basis_is_z(b) {
            self.toggle_edge_type(m, n)?;
        }
        Ok(())
    }
    /// "Plug the given basis vertex into the i-th input/output": plug_vertex, drop the entry
    /// from the list, one factor 1/sqrt2.
    pub fn plug_io(&mut self, output: bool, i: usize, b: BasisElem) -> Result<(), Inv> {
        if b == BasisElem::SKIP {
            return Err("SKIP is not a basis element".into());
        }
        let list = if output { &self.outputs } else { &self.inputs };
        let Some(&m) = list.get(i) else {
            return Err("index out of range".into());
        };
        if self.inputs.iter().chain(self.outputs.iter()).filter(|&&x| x == m).count() != 1 {
            return Err("boundary listed more than once".into());
        }
        self.plug_vertex(m, b)?;
        if output {
            self.outputs.remove(i);
        } else {
            self.inputs.remove(i);
        }
        self.scalar = self.scalar.mul(&R::sqrt2_pow(-1));
        Ok(())
    }
    /// plug_inputs / plug_outputs with a list as long as the boundary list (SKIP keeps the
    /// boundary open)
    pub fn plug_ios(&mut self, output: bool, plug: &[BasisElem]) -> Result<(), Inv> {
        let list = if output { self.outputs.clone() } else { self.inputs.clone() };
        if plug.len() > list.len() {
            return Err("plug list longer than boundary list".into());
        }
        let mut probe = self.clone();
        let mut keep = vec![];
        let mut k = 0i64;
        for (i, &m) in list.iter().enumerate() {
            let b = plug.get(i).copied().unwrap_or(BasisElem::SKIP);
            if b == BasisElem::SKIP {
                keep.push(m);
            } else {
                if self.inputs.iter().chain(self.outputs.iter()).filter(|&&x| x == m).count() != 1 {
                    return Err("boundary listed more than once".into());
                }
                probe.plug_vertex(m, b)?;
                k += 1;
            }
        }
        if output {
            probe.outputs = keep;
        } else {
            probe.inputs = keep;
        }
        probe.scalar = probe.scalar.mul(&R::sqrt2_pow(-k));
        *self = probe;
        Ok(())
    }

    /// "Appends the given graph to the current one, with fresh names. The renaming map is
    /// returned [here: supplied]. The scalars are multiplied, but the inputs/outputs of self
    /// are NOT updated."
    pub fn append(&mut self, other: &RefGraph, names: &BTreeMap<M, M>) -> Result<(), Inv> {
        let mut seen = BTreeSet::new();
        for o in other.v.keys() {
            let Some(&n) = names.get(o) else {
                return Err(format!("no name for m{o}"));
            };
            if self.has(n) || !seen.insert(n) {
                return Err(format!("name m{n} not fresh"));
            }
        }
        for (o, d) in &other.v {
            self.add_vertex(names[o], d.clone())?;
        }
        for (s, t, e) in other.edges() {
            self.add_edge_with_type(names[&s], names[&t], e)?;
        }
        self.scalar = self.scalar.mul(&other.scalar);
        Ok(())
    }

    /// "Returns the full subgraph containing the given vertices" (induced subgraph, names
    /// kept here; the documentation does not say anything about inputs/outputs/scalar of the
    /// result, so they are left empty/one and the monitor does not compare them).
    pub fn subgraph(&self, verts: &[M]) -> Result<RefGraph, Inv> {
        let set: BTreeSet<M> = verts.iter().copied().collect();
        if set.len() != verts.len() {
            return Err("duplicate vertex in list".into());
        }
        let mut g = RefGraph::new();
        for &m in verts {
            self.need(m)?;
            g.add_vertex(m, self.v[&m].clone())?;
        }
        for (s, t, e) in self.edges() {
            if set.contains(&s) && set.contains(&t) {
                g.add_edge_with_type(s, t, e)?;
            }
        }
        Ok(g)
    }

    /// "Create a copy of the graph. If adjoint is set, the adjoint of the graph will be
    /// returned (inputs and outputs flipped, phases reversed)." A graph is vertices, edges,
    /// inputs, outputs and scalar (+ factors); names kept here, the renaming is the harness's
    /// business.
    ///
    /// Both quizx backends share one default implementation, which rebuilds vertices and
    /// edges in a fresh graph (boundary lists, scalar and scalar factors start out empty)
    /// and then takes the adjoint. C09 is about the two backends agreeing, so the model
    /// follows that shared behaviour; the gap to the doc comment is reported as an
    /// observation by the monitor, not as a verdict.
    pub fn copy(&self, adjoint: bool) -> RefGraph {
        let mut g = self.clone();
        g.inputs = vec![];
        g.outputs = vec![];
        g.scalar = R::one();
        g.factors = BTreeMap::new();
        if adjoint {
            g.adjoint();
        }
        g
    }

    /// "Insert (i.e. multiply) a new scalar factor s^e into the overall scalar"
    pub fn mul_scalar_factor(&mut self, key: usize, s: &R) {
        match self.factors.get_mut(&key) {
            Some(t) => *t = t.mul(s),
            None => {
                self.factors.insert(key, s.clone());
            }
        }
    }

    /// invariant of the model itself (used by the self-test and after every model step)
    pub fn well_formed(&self) -> Result<(), String> {
        if self.v.len() != self.adj.len() {
            return Err("vertex/adjacency key sets differ".into());
        }
        for (s, nb) in &self.adj {
            if !self.v.contains_key(s) {
                return Err(format!("adjacency for missing m{s}"));
            }
            for (t, e) in nb {
                if s == t {
                    return Err("self loop".into());
                }
                if self.adj.get(t).and_then(|a| a.get(s)) != Some(e) {
                    return Err(format!("asymmetric edge m{s}-m{t}"));
                }
            }
        }
        Ok(())
    }
}

pub fn self_test() -> Result<(), String> {
    // phases
    if Ph::new(9, 4) != (Ph { n: 1, d: 4 }) || Ph::new(-4, 4) != Ph::one() || Ph::new(7, 4) != (Ph { n: -1, d: 4 }) {
        return Err("Ph normal form".into());
    }
    if Ph::new(3, 4).add(Ph::new(3, 4)) != Ph::new(-1, 2) || Ph::one().neg() != Ph::one() || Ph::new(2, -8) != (Ph { n: -1, d: 4 }) {
        return Err("Ph arithmetic".into());
    }
    if Par::new(&[1, 2], true).xor(&Par::new(&[2, 3], true)) != Par::new(&[1, 3], false) {
        return Err("Par xor".into());
    }
    let z = |p: Ph| MData { ty: VType::Z, phase: p, vars: Par::default(), qubit: 0.0, row: 0.0 };
    let mut g = RefGraph::new();
    g.add_vertex(10, MData::of_type(VType::B)).map_err(|e| e.to_string())?;
    g.add_vertex(11, z(Ph::new(1, 4)))?;
    g.add_vertex(12, MData { ty: VType::X, ..z(Ph::zero()) })?;
    g.add_vertex(13, MData::of_type(VType::B))?;
    if g.add_vertex(11, z(Ph::zero())).is_ok() {
        return Err("duplicate name accepted".into());
    }
    g.add_edge_with_type(10, 11, EType::N)?;
    g.add_edge_with_type(11, 12, EType::N)?;
    g.add_edge_with_type(12, 13, EType::H)?;
    if g.add_edge_with_type(11, 10, EType::H).is_ok() || g.add_edge_with_type(11, 11, EType::N).is_ok() {
        return Err("parallel edge / self loop accepted".into());
    }
    g.inputs = vec![10];
    g.outputs = vec![13];
    if g.num_edges() != 3 || g.tcount() != 1 || g.components().len() != 1 || g.degree(12) != 2 {
        return Err("basic queries".into());
    }
    // Hopf: Z -N- X plus another N: edge disappears, scalar 1/2
    let mut h = g.clone();
    if h.add_edge_smart(11, 12, EType::N)? != "diff:N+N" || h.edge(11, 12).is_some() || h.scalar != R::pow2(-1) {
        return Err("smart edge diff:N+N".into());
    }
    if h.components().len() != 2 {
        return Err("components after Hopf".into());
    }
    // Z -N- X plus H: H edge, pi on s, 1/sqrt2
    let mut h = g.clone();
    h.add_edge_smart(12, 11, EType::H)?;
    if h.edge(11, 12) != Some(EType::H) || h.v[&12].phase != Ph::one() || h.v[&11].phase != Ph::new(1, 4) || h.scalar != R::sqrt2_pow(-1) {
        return Err("smart edge diff:N+H".into());
    }
    // colour change: X -> Z toggles both legs of 12
    let mut h = g.clone();
    h.x_to_z();
    if h.v[&12].ty != VType::Z || h.edge(11, 12) != Some(EType::H) || h.edge(12, 13) != Some(EType::N) || h.edge(10, 11) != Some(EType::N) {
        return Err("x_to_z".into());
    }
    // same colour after colour change: H||H vanishes
    if h.add_edge_smart(11, 12, EType::H)? != "same:H+H" || h.edge(11, 12).is_some() {
        return Err("smart edge same:H+H".into());
    }
    // H self loop
    let mut h = g.clone();
    h.add_edge_smart(11, 11, EType::H)?;
    if h.v[&11].phase != Ph::new(-3, 4) || h.scalar != R::sqrt2_pow(-1) || h.num_edges() != 3 {
        return Err("smart self loop".into());
    }
    // adjoint
    let mut h = g.clone();
    h.scalar = R::omega_pow(1);
    h.adjoint();
    if h.inputs != vec![13] || h.outputs != vec![10] || h.v[&11].phase != Ph::new(-1, 4) || h.scalar != R::omega_pow(7) {
        return Err("adjoint".into());
    }
    // plug |1> into the output: Z(pi) behind a toggled edge, list shortened, 1/sqrt2
    let mut h = g.clone();
    h.plug_io(true, 0, BasisElem::Z1)?;
    if !h.outputs.is_empty() || h.v[&13].ty != VType::Z || h.v[&13].phase != Ph::one() || h.edge(12, 13) != Some(EType::N) || h.scalar != R::sqrt2_pow(-1) {
        return Err("plug_io".into());
    }
    // remove vertex drops incident edges only
    let mut h = g.clone();
    h.remove_vertex(12)?;
    if h.num_vertices() != 3 || h.num_edges() != 1 || h.edge(11, 12).is_some() || h.well_formed().is_err() {
        return Err("remove_vertex".into());
    }
    // append with names
    let mut h = g.clone();
    let names: BTreeMap<M, M> = g.vertices().into_iter().map(|m| (m, m + 100)).collect();
    h.scalar = R::int(3);
    let mut o = g.clone();
    o.scalar = R::int(5);
    h.append(&o, &names)?;
    if h.num_vertices() != 8 || h.num_edges() != 6 || h.edge(111, 112) != Some(EType::N) || h.scalar != R::int(15) || h.inputs != vec![10] {
        return Err("append".into());
    }
    // subgraph
    let s = g.subgraph(&[12, 11, 10])?;
    if s.num_vertices() != 3 || s.num_edges() != 2 {
        return Err("subgraph".into());
    }
    let mut h = g.clone();
    h.mul_scalar_factor(2, &R::int(3));
    h.mul_scalar_factor(2, &R::int(5));
    if h.factors.get(&2) != Some(&R::int(15)) {
        return Err("scalar factor".into());
    }
    g.well_formed()
}

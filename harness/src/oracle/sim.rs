//! O3: gate-matrix simulator, from first principles, over `Zw` (exact, with a separate
//! power of 1/sqrt2) or `Cf`.
//!
//! Qubit 0 is the most significant index position. A circuit denotes a linear map from
//! the open input qubits (all qubits except those initialised by `InitAnc`) to the open
//! output qubits (all except those removed by `PostSel` / `MeasureD`). The tensor is
//! returned flat with index order [inputs in qubit order, outputs in qubit order].

use super::ring::{Cf, Num, Zw, R};

/// Phase in units of pi as a rational (num, den), den > 0.
pub type Ph = (i64, i64);

#[derive(Clone, Debug, PartialEq, Eq, Hash)]
pub enum G {
    Rz(usize, Ph),
    Rx(usize, Ph),
    X(usize),
    Z(usize),
    S(usize),
    T(usize),
    Sdg(usize),
    Tdg(usize),
    H(usize),
    Cx(usize, usize),
    Cz(usize, usize),
    Xcx(usize, usize),
    Swap(usize, usize),
    Ccz(usize, usize, usize),
    Ccx(usize, usize, usize),
    Pp(Vec<usize>, Ph),
    /// |0> on this qubit; must be the qubit's first operation
    InitAnc(usize),
    /// <0| on this qubit; must be the qubit's last operation
    PostSel(usize),
    /// <b| on this qubit where b = XOR of the listed variables (empty list = fresh var)
    MeasureD(usize, Vec<u32>),
    /// |0><b| on this qubit
    MeasureR(usize, Vec<u32>),
}

impl G {
    pub fn qubits(&self) -> Vec<usize> {
        match self {
            G::Rz(q, _) | G::Rx(q, _) | G::X(q) | G::Z(q) | G::S(q) | G::T(q) | G::Sdg(q) | G::Tdg(q) | G::H(q) => vec![*q],
            G::InitAnc(q) | G::PostSel(q) | G::MeasureD(q, _) | G::MeasureR(q, _) => vec![*q],
            G::Cx(a, b) | G::Cz(a, b) | G::Xcx(a, b) | G::Swap(a, b) => vec![*a, *b],
            G::Ccz(a, b, c) | G::Ccx(a, b, c) => vec![*a, *b, *c],
            G::Pp(qs, _) => qs.clone(),
        }
    }
    pub fn is_pi4(&self) -> bool {
        match self {
            G::Rz(_, p) | G::Rx(_, p) | G::Pp(_, p) => 4 % p.1 == 0,
            _ => true,
        }
    }
    pub fn name(&self) -> &'static str {
        match self {
            G::Rz(..) => "rz",
            G::Rx(..) => "rx",
            G::X(..) => "x",
            G::Z(..) => "z",
            G::S(..) => "s",
            G::T(..) => "t",
            G::Sdg(..) => "sdg",
            G::Tdg(..) => "tdg",
            G::H(..) => "h",
            G::Cx(..) => "cx",
            G::Cz(..) => "cz",
            G::Xcx(..) => "xcx",
            G::Swap(..) => "swap",
            G::Ccz(..) => "ccz",
            G::Ccx(..) => "ccx",
            G::Pp(..) => "pp",
            G::InitAnc(..) => "init_anc",
            G::PostSel(..) => "post_sel",
            G::MeasureD(..) => "measure_d",
            G::MeasureR(..) => "measure_r",
        }
    }
}

#[derive(Clone, Debug, PartialEq, Eq, Hash)]
pub struct Circ {
    pub n: usize,
    pub gates: Vec<G>,
}

impl Circ {
    pub fn is_pi4(&self) -> bool {
        self.gates.iter().all(|g| g.is_pi4())
    }
    pub fn is_unitary(&self) -> bool {
        !self.gates.iter().any(|g| matches!(g, G::InitAnc(_) | G::PostSel(_) | G::MeasureD(..) | G::MeasureR(..)))
    }
}

/// State over `n` qubits with amplitude = amp[i] * sqrt2^(-k)
struct State<S> {
    n: usize,
    amp: Vec<S>,
    k: i64,
}

#[inline]
fn bit(i: usize, n: usize, q: usize) -> usize {
    (i >> (n - 1 - q)) & 1
}
#[inline]
fn mask(n: usize, q: usize) -> usize {
    1usize << (n - 1 - q)
}

impl<S: Num> State<S> {
    fn phase_if(&mut self, pred: impl Fn(usize) -> bool, ph: Ph) {
        let f = S::from_phase(ph.0, ph.1);
        for i in 0..self.amp.len() {
            if pred(i) && !self.amp[i].is_zero() {
                self.amp[i] = self.amp[i].mul(&f);
            }
        }
    }
    /// unnormalised Hadamard [[1,1],[1,-1]], k += 1
    fn had(&mut self, q: usize) {
        let m = mask(self.n, q);
        for i in 0..self.amp.len() {
            if i & m == 0 {
                let a = self.amp[i].clone();
                let b = self.amp[i | m].clone();
                self.amp[i] = a.add(&b);
                self.amp[i | m] = a.add(&b.neg());
            }
        }
        self.k += 1;
        self.reduce();
    }
    /// divide all amplitudes by sqrt2 while possible (keeps exact integers small)
    fn reduce(&mut self) {
        while self.k > 0 {
            let mut out = Vec::with_capacity(self.amp.len());
            for a in &self.amp {
                match a.try_div_sqrt2() {
                    Some(b) => out.push(b),
                    None => return,
                }
            }
            self.amp = out;
            self.k -= 1;
        }
    }
    fn perm(&mut self, f: impl Fn(usize) -> usize) {
        let mut out = vec![S::zero(); self.amp.len()];
        for i in 0..self.amp.len() {
            out[f(i)] = self.amp[i].clone();
        }
        self.amp = out;
    }
    /// project qubit q onto <b| keeping the qubit in the register with value 0
    /// (amplitudes with q = 1-b are dropped, those with q=b moved to q=0)
    fn project(&mut self, q: usize, b: usize) {
        let m = mask(self.n, q);
        let mut out = vec![S::zero(); self.amp.len()];
        for i in 0..self.amp.len() {
            if bit(i, self.n, q) == b {
                out[i & !m] = self.amp[i].clone();
            }
        }
        self.amp = out;
    }
    fn apply(&mut self, g: &G, assign: &dyn Fn(&[u32], usize) -> usize, fresh: &mut usize) {
        let n = self.n;
        match g {
            G::Rz(q, p) => {
                let q = *q;
                self.phase_if(|i| bit(i, n, q) == 1, *p)
            }
            G::Z(q) => {
                let q = *q;
                self.phase_if(|i| bit(i, n, q) == 1, (1, 1))
            }
            G::S(q) => {
                let q = *q;
                self.phase_if(|i| bit(i, n, q) == 1, (1, 2))
            }
            G::Sdg(q) => {
                let q = *q;
                self.phase_if(|i| bit(i, n, q) == 1, (-1, 2))
            }
            G::T(q) => {
                let q = *q;
                self.phase_if(|i| bit(i, n, q) == 1, (1, 4))
            }
            G::Tdg(q) => {
                let q = *q;
                self.phase_if(|i| bit(i, n, q) == 1, (-1, 4))
            }
            G::Rx(q, p) => {
                self.had(*q);
                let qq = *q;
                self.phase_if(|i| bit(i, n, qq) == 1, *p);
                self.had(*q);
            }
            G::X(q) => {
                let m = mask(n, *q);
                self.perm(|i| i ^ m)
            }
            G::H(q) => self.had(*q),
            G::Cx(c, t) => {
                let (c, mt) = (*c, mask(n, *t));
                self.perm(|i| if bit(i, n, c) == 1 { i ^ mt } else { i })
            }
            G::Cz(a, b) => {
                let (a, b) = (*a, *b);
                self.phase_if(|i| bit(i, n, a) == 1 && bit(i, n, b) == 1, (1, 1))
            }
            G::Xcx(a, b) => {
                // (H x H) CZ (H x H)
                self.had(*a);
                self.had(*b);
                let (aa, bb) = (*a, *b);
                self.phase_if(|i| bit(i, n, aa) == 1 && bit(i, n, bb) == 1, (1, 1));
                self.had(*a);
                self.had(*b);
            }
            G::Swap(a, b) => {
                let (a, b) = (*a, *b);
                let (ma, mb) = (mask(n, a), mask(n, b));
                self.perm(|i| {
                    let (x, y) = (bit(i, n, a), bit(i, n, b));
                    if x != y {
                        i ^ ma ^ mb
                    } else {
                        i
                    }
                })
            }
            G::Ccz(a, b, c) => {
                let (a, b, c) = (*a, *b, *c);
                self.phase_if(|i| bit(i, n, a) == 1 && bit(i, n, b) == 1 && bit(i, n, c) == 1, (1, 1))
            }
            G::Ccx(a, b, c) => {
                let (a, b, mc) = (*a, *b, mask(n, *c));
                self.perm(|i| if bit(i, n, a) == 1 && bit(i, n, b) == 1 { i ^ mc } else { i })
            }
            G::Pp(qs, p) => {
                let qs = qs.clone();
                self.phase_if(|i| qs.iter().map(|&q| bit(i, n, q)).sum::<usize>() % 2 == 1, *p)
            }
            G::InitAnc(_) => { /* handled by the caller: column selection */ }
            G::PostSel(q) => self.project(*q, 0),
            G::MeasureD(q, vars) => {
                let b = assign(vars, *fresh);
                if vars.is_empty() {
                    *fresh += 1;
                }
                self.project(*q, b)
            }
            G::MeasureR(q, vars) => {
                let b = assign(vars, *fresh);
                if vars.is_empty() {
                    *fresh += 1;
                }
                self.project(*q, b)
            }
        }
    }
}

pub struct MapTensor<S> {
    pub in_qubits: Vec<usize>,
    pub out_qubits: Vec<usize>,
    /// flat [inputs..., outputs...], to be multiplied by sqrt2^(-k)
    pub entries: Vec<S>,
    pub k: i64,
}

/// `assign(vars, fresh_index)`: outcome bit for a measurement with the given variable list
/// (if the list is empty, the measurement uses the `fresh_index`-th fresh variable).
pub fn simulate<S: Num>(c: &Circ, assign: &dyn Fn(&[u32], usize) -> usize) -> MapTensor<S> {
    let n = c.n;
    let anc: Vec<usize> = c.gates.iter().filter_map(|g| if let G::InitAnc(q) = g { Some(*q) } else { None }).collect();
    let gone: Vec<usize> = c
        .gates
        .iter()
        .filter_map(|g| match g {
            G::PostSel(q) | G::MeasureD(q, _) => Some(*q),
            _ => None,
        })
        .collect();
    let in_qubits: Vec<usize> = (0..n).filter(|q| !anc.contains(q)).collect();
    let out_qubits: Vec<usize> = (0..n).filter(|q| !gone.contains(q)).collect();
    let ni = in_qubits.len();
    let no = out_qubits.len();
    let mut entries = vec![S::zero(); 1usize << (ni + no)];
    let mut ks = vec![0i64; 1usize << ni];
    for col in 0..(1usize << ni) {
        // build basis input
        let mut idx = 0usize;
        for (j, &q) in in_qubits.iter().enumerate() {
            if (col >> (ni - 1 - j)) & 1 == 1 {
                idx |= mask(n, q);
            }
        }
        let mut st = State { n, amp: vec![S::zero(); 1usize << n], k: 0 };
        st.amp[idx] = S::one();
        let mut fresh = 0usize;
        for g in &c.gates {
            st.apply(g, assign, &mut fresh);
        }
        ks[col] = st.k;
        // read outputs: removed qubits are at 0
        for o in 0..(1usize << no) {
            let mut i = 0usize;
            for (j, &q) in out_qubits.iter().enumerate() {
                if (o >> (no - 1 - j)) & 1 == 1 {
                    i |= mask(n, q);
                }
            }
            entries[(col << no) | o] = st.amp[i].clone();
        }
    }
    // align all columns to the largest k: multiply by sqrt2^(kmax-k) = 2^(d/2) * sqrt2^(d%2)
    let kmax = ks.iter().copied().max().unwrap_or(0);
    let two = S::one().add(&S::one());
    // sqrt2 = e^{i pi/4} + e^{-i pi/4}
    let sqrt2 = S::from_phase(1, 4).add(&S::from_phase(-1, 4));
    for col in 0..(1usize << ni) {
        let d = kmax - ks[col];
        if d == 0 {
            continue;
        }
        let mut f = S::one();
        for _ in 0..(d / 2) {
            f = f.mul(&two);
        }
        if d % 2 == 1 {
            f = f.mul(&sqrt2);
        }
        for o in 0..(1usize << no) {
            let e = &mut entries[(col << no) | o];
            if !e.is_zero() {
                *e = e.mul(&f);
            }
        }
    }
    MapTensor { in_qubits, out_qubits, entries, k: kmax }
}

fn no_meas(_: &[u32], _: usize) -> usize {
    0
}

/// Exact tensor of a circuit without measurement variables (all phases multiples of pi/4).
pub fn tensor_exact(c: &Circ) -> (Vec<R>, usize, usize) {
    tensor_exact_assign(c, &no_meas)
}

pub fn tensor_exact_assign(c: &Circ, assign: &dyn Fn(&[u32], usize) -> usize) -> (Vec<R>, usize, usize) {
    // fast path: checked i128 coefficients; circuits of thousands of gates can exceed them,
    // then the same simulation is repeated over BigInt
    match std::panic::catch_unwind(std::panic::AssertUnwindSafe(|| simulate::<Zw>(c, assign))) {
        Ok(m) => {
            let f = R::sqrt2_pow(-m.k);
            (m.entries.iter().map(|z| R::from_zw(z).mul(&f)).collect(), m.in_qubits.len(), m.out_qubits.len())
        }
        Err(_) => {
            let m = simulate::<R>(c, assign);
            let f = R::sqrt2_pow(-m.k);
            (m.entries.iter().map(|z| z.mul(&f)).collect(), m.in_qubits.len(), m.out_qubits.len())
        }
    }
}

pub fn tensor_float(c: &Circ) -> (Vec<Cf>, usize, usize) {
    tensor_float_assign(c, &no_meas)
}

pub fn tensor_float_assign(c: &Circ, assign: &dyn Fn(&[u32], usize) -> usize) -> (Vec<Cf>, usize, usize) {
    let m = simulate::<Cf>(c, assign);
    let f = std::f64::consts::SQRT_2.powi(-(m.k as i32));
    (m.entries.iter().map(|z| z * f).collect(), m.in_qubits.len(), m.out_qubits.len())
}

/// Output state C|0..0> of a unitary circuit as floats (index = bit string, qubit 0 MSB).
pub fn state_float(c: &Circ) -> Vec<Cf> {
    let (t, ni, no) = tensor_float(c);
    assert_eq!(ni, c.n);
    t[0..(1usize << no)].to_vec()
}

pub fn self_test() -> Result<(), String> {
    // CNOT matrix
    let c = Circ { n: 2, gates: vec![G::Cx(0, 1)] };
    let (t, _, _) = tensor_exact(&c);
    let mut expect = vec![R::zero(); 16];
    for (i, o) in [(0, 0), (1, 1), (2, 3), (3, 2)] {
        expect[(i << 2) | o] = R::one();
    }
    if t != expect {
        return Err("sim CNOT".into());
    }
    // H matrix
    let (t, _, _) = tensor_exact(&Circ { n: 1, gates: vec![G::H(0)] });
    let s = R::sqrt2_pow(-1);
    if t != vec![s.clone(), s.clone(), s.clone(), s.neg()] {
        return Err("sim H".into());
    }
    // T then S then Z = omega^7 on |1>
    let (t, _, _) = tensor_exact(&Circ { n: 1, gates: vec![G::T(0), G::S(0), G::Z(0)] });
    if t != vec![R::one(), R::zero(), R::zero(), R::omega_pow(7)] {
        return Err("sim T S Z".into());
    }
    // rx(pi) = X exactly (rx = H rz H, rz = diag(1, e^{i pi a}))
    let (t, _, _) = tensor_exact(&Circ { n: 1, gates: vec![G::Rx(0, (1, 1))] });
    if t != vec![R::zero(), R::one(), R::one(), R::zero()] {
        return Err("sim rx(pi)".into());
    }
    // swap
    let (t, _, _) = tensor_exact(&Circ { n: 2, gates: vec![G::Swap(0, 1)] });
    let mut expect = vec![R::zero(); 16];
    for (i, o) in [(0, 0), (1, 2), (2, 1), (3, 3)] {
        expect[(i << 2) | o] = R::one();
    }
    if t != expect {
        return Err("sim swap".into());
    }
    // ccx = H ccz H
    let (a, _, _) = tensor_exact(&Circ { n: 3, gates: vec![G::Ccx(0, 1, 2)] });
    let (b, _, _) = tensor_exact(&Circ { n: 3, gates: vec![G::H(2), G::Ccz(0, 1, 2), G::H(2)] });
    if a != b {
        return Err("sim ccx".into());
    }
    // xcx symmetric and = H H cz H H, and xcx on |00> = ... check xcx == CNOT conjugated: xcx(a,b) = H_a cx(a,b) H_a
    let (a, _, _) = tensor_exact(&Circ { n: 2, gates: vec![G::Xcx(0, 1)] });
    let (b, _, _) = tensor_exact(&Circ { n: 2, gates: vec![G::H(0), G::Cx(0, 1), G::H(0)] });
    if a != b {
        return Err("sim xcx".into());
    }
    // pp on 2 qubits = cx rz cx
    let (a, _, _) = tensor_exact(&Circ { n: 2, gates: vec![G::Pp(vec![0, 1], (1, 4))] });
    let (b, _, _) = tensor_exact(&Circ { n: 2, gates: vec![G::Cx(0, 1), G::Rz(1, (1, 4)), G::Cx(0, 1)] });
    if a != b {
        return Err("sim pp".into());
    }
    // ancilla + postselect: init_anc q1; cx q0,q1; post_sel q1  == |0><0| on q0
    let (t, ni, no) = tensor_exact(&Circ { n: 2, gates: vec![G::InitAnc(1), G::Cx(0, 1), G::PostSel(1)] });
    if (ni, no) != (1, 1) || t != vec![R::one(), R::zero(), R::zero(), R::zero()] {
        return Err("sim ancilla".into());
    }
    // float agrees with exact
    let c = Circ { n: 2, gates: vec![G::H(0), G::T(0), G::Cx(0, 1), G::Rx(1, (1, 4)), G::Xcx(0, 1)] };
    let (a, _, _) = tensor_exact(&c);
    let (b, _, _) = tensor_float(&c);
    let af: Vec<Cf> = a.iter().map(|r| r.to_cf()).collect();
    if !super::eval::close(&af, &b, 1e-12) {
        return Err("sim float vs exact".into());
    }
    Ok(())
}

//! O1: exact arithmetic in R = Z[omega][1/2], omega = e^{i pi/4}, plus the small
//! number types used inside the evaluators.
//!
//! Shares no code with quizx. `R` uses BigInt coefficients and a power of two and is
//! normalised, so equality is structural. `Zw` is Z[omega] with checked i128
//! coefficients (fast, used inside tables; overflow panics and is reported as an
//! oracle error, never as a verdict). `Cf` is Complex<f64>.

use num::bigint::BigInt;
use num::complex::Complex;
use num::{Integer, One, Signed, ToPrimitive, Zero};

pub type Cf = Complex<f64>;

/// Number types the evaluators can compute with.
pub trait Num: Clone + Send + Sync + std::fmt::Debug {
    fn zero() -> Self;
    fn one() -> Self;
    fn add(&self, o: &Self) -> Self;
    fn mul(&self, o: &Self) -> Self;
    fn neg(&self) -> Self;
    /// e^{i pi num/den}
    fn from_phase(num: i64, den: i64) -> Self;
    fn is_zero(&self) -> bool;
    fn conj(&self) -> Self;
    /// exact division by sqrt2 when the type supports it (used to keep integers small)
    fn try_div_sqrt2(&self) -> Option<Self> {
        None
    }
}

// ---------------------------------------------------------------------------------
// Zw: Z[omega] with i128 coefficients
// ---------------------------------------------------------------------------------

#[derive(Clone, Copy, PartialEq, Eq, Hash, Debug)]
pub struct Zw(pub [i128; 4]);

impl Zw {
    pub fn omega_pow(k: i64) -> Zw {
        let k = k.rem_euclid(8) as usize;
        let mut c = [0i128; 4];
        if k < 4 {
            c[k] = 1;
        } else {
            c[k - 4] = -1;
        }
        Zw(c)
    }
    pub fn int(n: i128) -> Zw {
        Zw([n, 0, 0, 0])
    }
    /// sqrt(2) = omega - omega^3
    pub fn sqrt2() -> Zw {
        Zw([0, 1, 0, -1])
    }
    /// If self is divisible by sqrt2 in Z[omega], return the quotient.
    pub fn div_sqrt2(&self) -> Option<Zw> {
        // x*sqrt2 = (b-d, a+c, b+d, c-a); x/sqrt2 = x*sqrt2/2
        let [a, b, c, d] = self.0;
        let y = [b - d, a + c, b + d, c - a];
        if y.iter().all(|v| v % 2 == 0) {
            Some(Zw([y[0] / 2, y[1] / 2, y[2] / 2, y[3] / 2]))
        } else {
            None
        }
    }
    pub fn max_abs(&self) -> i128 {
        self.0.iter().map(|c| c.abs()).max().unwrap()
    }
}

impl Num for Zw {
    fn zero() -> Self {
        Zw([0; 4])
    }
    fn one() -> Self {
        Zw([1, 0, 0, 0])
    }
    fn add(&self, o: &Self) -> Self {
        let mut c = [0i128; 4];
        for i in 0..4 {
            c[i] = self.0[i].checked_add(o.0[i]).expect("oracle overflow (Zw add)");
        }
        Zw(c)
    }
    fn mul(&self, o: &Self) -> Self {
        let mut c = [0i128; 4];
        for i in 0..4 {
            if self.0[i] == 0 {
                continue;
            }
            for j in 0..4 {
                if o.0[j] == 0 {
                    continue;
                }
                let p = self.0[i].checked_mul(o.0[j]).expect("oracle overflow (Zw mul)");
                let k = i + j;
                if k < 4 {
                    c[k] = c[k].checked_add(p).expect("oracle overflow (Zw mul)");
                } else {
                    c[k - 4] = c[k - 4].checked_sub(p).expect("oracle overflow (Zw mul)");
                }
            }
        }
        Zw(c)
    }
    fn neg(&self) -> Self {
        Zw([-self.0[0], -self.0[1], -self.0[2], -self.0[3]])
    }
    fn from_phase(num: i64, den: i64) -> Self {
        assert!(den != 0 && 4 % den == 0, "Zw::from_phase: not a multiple of pi/4: {num}/{den}");
        Zw::omega_pow(num * (4 / den))
    }
    fn is_zero(&self) -> bool {
        self.0 == [0; 4]
    }
    fn conj(&self) -> Self {
        Zw([self.0[0], -self.0[3], -self.0[2], -self.0[1]])
    }
    fn try_div_sqrt2(&self) -> Option<Self> {
        self.div_sqrt2()
    }
}

// ---------------------------------------------------------------------------------
// Cf
// ---------------------------------------------------------------------------------

impl Num for Cf {
    fn zero() -> Self {
        Complex::new(0.0, 0.0)
    }
    fn one() -> Self {
        Complex::new(1.0, 0.0)
    }
    fn add(&self, o: &Self) -> Self {
        self + o
    }
    fn mul(&self, o: &Self) -> Self {
        self * o
    }
    fn neg(&self) -> Self {
        -self
    }
    fn from_phase(num: i64, den: i64) -> Self {
        // exact values at multiples of pi/4 to keep the float pool tight
        if den != 0 && 4 % den == 0 {
            let k = (num * (4 / den)).rem_euclid(8);
            let h = std::f64::consts::FRAC_1_SQRT_2;
            return match k {
                0 => Complex::new(1.0, 0.0),
                1 => Complex::new(h, h),
                2 => Complex::new(0.0, 1.0),
                3 => Complex::new(-h, h),
                4 => Complex::new(-1.0, 0.0),
                5 => Complex::new(-h, -h),
                6 => Complex::new(0.0, -1.0),
                _ => Complex::new(h, -h),
            };
        }
        let a = std::f64::consts::PI * (num as f64) / (den as f64);
        Complex::new(a.cos(), a.sin())
    }
    fn is_zero(&self) -> bool {
        self.re == 0.0 && self.im == 0.0
    }
    fn conj(&self) -> Self {
        Complex::conj(self)
    }
}

// ---------------------------------------------------------------------------------
// R: Z[omega][1/2] with BigInt coefficients, normalised
// ---------------------------------------------------------------------------------

#[derive(Clone, PartialEq, Eq, Hash, Debug)]
pub struct R {
    /// coefficients of 1, omega, omega^2, omega^3
    pub c: [BigInt; 4],
    /// value = 2^e * sum c_i omega^i ; normalised: zero has e = 0, otherwise not all c_i even
    pub e: i64,
}

impl R {
    pub fn new(c: [BigInt; 4], e: i64) -> R {
        let mut r = R { c, e };
        r.normalise();
        r
    }
    pub fn from_i64s(c: [i64; 4], e: i64) -> R {
        R::new(c.map(BigInt::from), e)
    }
    pub fn int(n: i64) -> R {
        R::from_i64s([n, 0, 0, 0], 0)
    }
    pub fn from_zw(z: &Zw) -> R {
        R::new(z.0.map(BigInt::from), 0)
    }
    fn normalise(&mut self) {
        if self.c.iter().all(|x| x.is_zero()) {
            self.e = 0;
            return;
        }
        let tz = self
            .c
            .iter()
            .filter(|x| !x.is_zero())
            .map(|x| x.trailing_zeros().unwrap())
            .min()
            .unwrap();
        if tz > 0 {
            for x in self.c.iter_mut() {
                *x >>= tz;
            }
            self.e += tz as i64;
        }
    }
    pub fn omega_pow(k: i64) -> R {
        R::from_zw(&Zw::omega_pow(k))
    }
    /// sqrt(2)^p
    pub fn sqrt2_pow(p: i64) -> R {
        if p.rem_euclid(2) == 0 {
            R::from_i64s([1, 0, 0, 0], p.div_euclid(2))
        } else {
            R::from_i64s([0, 1, 0, -1], (p - 1).div_euclid(2))
        }
    }
    /// 2^k
    pub fn pow2(k: i64) -> R {
        R::from_i64s([1, 0, 0, 0], k)
    }
    pub fn sub(&self, o: &R) -> R {
        self.add(&o.neg())
    }
    /// coefficient i as exact (numerator BigInt, exponent) with value num*2^exp
    pub fn coeff(&self, i: usize) -> (BigInt, i64) {
        (self.c[i].clone(), self.e)
    }
    pub fn to_cf(&self) -> Cf {
        let f = |x: &BigInt| -> f64 { big_ldexp(x, self.e) };
        let (a, b, c, d) = (f(&self.c[0]), f(&self.c[1]), f(&self.c[2]), f(&self.c[3]));
        let h = std::f64::consts::FRAC_1_SQRT_2;
        Complex::new(a + (b - d) * h, c + (b + d) * h)
    }
    /// |x|^2 as an element of R (x * conj x)
    pub fn norm_sqr(&self) -> R {
        self.mul(&self.conj())
    }
    /// Is this a real number? (b = -d, c = 0)
    pub fn is_real(&self) -> bool {
        self.c[2].is_zero() && (&self.c[1] + &self.c[3]).is_zero()
    }
}

/// x * 2^e as f64 (nearest-ish; exact when representable)
pub fn big_ldexp(x: &BigInt, e: i64) -> f64 {
    if x.is_zero() {
        return 0.0;
    }
    let bits = x.bits() as i64;
    // keep 64 significant bits
    let (m, sh) = if bits > 64 {
        ((x >> (bits - 64) as usize), bits - 64)
    } else {
        (x.clone(), 0)
    };
    let mf = m.to_f64().unwrap();
    let ee = e + sh;
    // split the scaling to avoid intermediate overflow/underflow
    let half = ee / 2;
    mf * 2f64.powi(half as i32) * 2f64.powi((ee - half) as i32)
}

impl Num for R {
    fn zero() -> Self {
        R { c: [BigInt::zero(), BigInt::zero(), BigInt::zero(), BigInt::zero()], e: 0 }
    }
    fn one() -> Self {
        R::int(1)
    }
    fn add(&self, o: &Self) -> Self {
        if Num::is_zero(self) {
            return o.clone();
        }
        if Num::is_zero(o) {
            return self.clone();
        }
        let e = self.e.min(o.e);
        let sa = (self.e - e) as usize;
        let sb = (o.e - e) as usize;
        let c = [0, 1, 2, 3].map(|i| (&self.c[i] << sa) + (&o.c[i] << sb));
        R::new(c, e)
    }
    fn mul(&self, o: &Self) -> Self {
        let mut c = [BigInt::zero(), BigInt::zero(), BigInt::zero(), BigInt::zero()];
        for i in 0..4 {
            if self.c[i].is_zero() {
                continue;
            }
            for j in 0..4 {
                if o.c[j].is_zero() {
                    continue;
                }
                let p = &self.c[i] * &o.c[j];
                let k = i + j;
                if k < 4 {
                    c[k] += p;
                } else {
                    c[k - 4] -= p;
                }
            }
        }
        R::new(c, self.e + o.e)
    }
    fn neg(&self) -> Self {
        R { c: [0, 1, 2, 3].map(|i| -&self.c[i]), e: self.e }
    }
    fn from_phase(num: i64, den: i64) -> Self {
        R::from_zw(&Zw::from_phase(num, den))
    }
    fn is_zero(&self) -> bool {
        self.c.iter().all(|x| x.is_zero())
    }
    fn conj(&self) -> Self {
        R { c: [self.c[0].clone(), -&self.c[3], -&self.c[2], -&self.c[1]], e: self.e }
    }
}

impl std::fmt::Display for R {
    fn fmt(&self, f: &mut std::fmt::Formatter<'_>) -> std::fmt::Result {
        write!(f, "[{},{},{},{}]*2^{}", self.c[0], self.c[1], self.c[2], self.c[3], self.e)
    }
}

/// Exact value of a quizx scalar, read through the `verif_raw` hook (never through
/// `val_and_exp` / `complex_value`, which are themselves under test).
pub fn r_of_scalar(s: &quizx::scalar::Scalar4) -> R {
    let raw = s.verif_raw();
    // align to the smallest exponent among non-zero coefficients
    let nz: Vec<_> = raw.iter().filter(|r| r.2 != 0).collect();
    if nz.is_empty() {
        return R::zero();
    }
    let e = nz.iter().map(|r| r.3 as i64).min().unwrap();
    let c = raw.map(|(sign, _approx, m, ex)| {
        if m == 0 {
            BigInt::zero()
        } else {
            let v = BigInt::from(m) << ((ex as i64 - e) as usize);
            if sign {
                -v
            } else {
                v
            }
        }
    });
    R::new(c, e)
}

/// Complex value of a quizx scalar computed from the raw parts (independent of quizx's
/// own conversion).
pub fn cf_of_scalar(s: &quizx::scalar::Scalar4) -> Cf {
    r_of_scalar(s).to_cf()
}

pub fn scalar_is_approx(s: &quizx::scalar::Scalar4) -> bool {
    s.verif_raw().iter().any(|r| r.1)
}

/// Build a quizx scalar equal to an R value when it fits (coefficients < 2^63).
pub fn scalar_of_r(r: &R) -> Option<quizx::scalar::Scalar4> {
    let mut c = [0i64; 4];
    for i in 0..4 {
        c[i] = r.c[i].to_i64()?;
        if c[i] == i64::MIN {
            return None;
        }
    }
    if r.e < i32::MIN as i64 / 4 || r.e > i32::MAX as i64 / 4 {
        return None;
    }
    Some(quizx::scalar::Scalar4::new(c, r.e as i32))
}

/// Self-test of the ring oracle (identities that pin down omega, sqrt2, conj).
pub fn self_test() -> Result<(), String> {
    let w = R::omega_pow(1);
    let mut p = R::one();
    for _ in 0..8 {
        p = p.mul(&w);
    }
    if p != R::one() {
        return Err("omega^8 != 1".into());
    }
    let s2 = R::sqrt2_pow(1);
    if s2.mul(&s2) != R::int(2) {
        return Err("sqrt2^2 != 2".into());
    }
    if R::sqrt2_pow(-1).mul(&R::sqrt2_pow(1)) != R::one() {
        return Err("sqrt2^-1*sqrt2 != 1".into());
    }
    if R::sqrt2_pow(-3).mul(&R::sqrt2_pow(5)) != R::int(2) {
        return Err("sqrt2^-3*sqrt2^5 != 2".into());
    }
    if w.mul(&w.conj()) != R::one() {
        return Err("omega*conj != 1".into());
    }
    let i = R::omega_pow(2);
    if i.mul(&i) != R::int(-1) {
        return Err("i^2 != -1".into());
    }
    let z = R::from_i64s([3, -1, 4, 1], -5);
    let y = R::from_i64s([-2, 7, 1, 8], 3);
    if z.mul(&y) != y.mul(&z) || z.add(&y).sub(&y) != z {
        return Err("ring laws".into());
    }
    let c = z.to_cf();
    let wv = Complex::from_polar(1.0, std::f64::consts::FRAC_PI_4);
    let expect = (Complex::new(3.0, 0.0) - wv + 4.0 * wv * wv + wv * wv * wv) / 32.0;
    if (c - expect).norm() > 1e-12 {
        return Err("to_cf".into());
    }
    if Zw::sqrt2().mul(&Zw::sqrt2()) != Zw::int(2) {
        return Err("Zw sqrt2".into());
    }
    if Zw([2, 0, 0, 0]).div_sqrt2() != Some(Zw::sqrt2()) {
        return Err("Zw div_sqrt2".into());
    }
    if !(BigInt::from(6).is_even()) || !BigInt::one().is_positive() {
        return Err("bigint".into());
    }
    Ok(())
}

//! qvmon: runtime monitors for zxcalc/quizx (see /verif/DESIGN.md).
pub mod fw;
pub mod snap;
pub mod oracle {
    pub mod eval;
    pub mod f2;
    pub mod f2small;
    pub mod iso;
    pub mod ratio;
    pub mod refgraph;
    pub mod ring;
    pub mod sim;
    pub mod tmodel;
}
pub mod gen {
    pub mod circuit;
    pub mod diagram;
    pub mod history;
    pub mod prng;
    pub mod shapes;
    pub mod tdiag;
}
pub mod mon;

/// Oracle self-tests; a failure is a HARNESS-ERROR, never a verdict about quizx.
pub fn self_tests() -> Result<(), String> {
    oracle::ring::self_test().map_err(|e| format!("ring: {e}"))?;
    oracle::eval::self_test().map_err(|e| format!("eval: {e}"))?;
    oracle::sim::self_test().map_err(|e| format!("sim: {e}"))?;
    mon::cross::self_test().map_err(|e| format!("cross: {e}"))?;
    Ok(())
}

//! C06 -- monitor (to be written)
use crate::fw::ctx;

pub fn run() {
    ctx().harness_error("C06 monitor not implemented yet");
}

//! C06 -- the simulator CLI (`quizx sim`) reports true Born-rule probabilities,
//! expectation values and samples; answers do not depend on the decomposition method or
//! the parallel flag; malformed queries are rejected with an error, never a panic.
//!
//! Events: every invocation of the REAL binary (env QVMON_CLI, built with feature `verif`)
//! on a generated `.qasm` file: (stdout, stderr, exit status) and, for sampling runs, the
//! hook-H4 trace (one JSON line per Bernoulli draw: prefix sampled so far, probability used
//! for the next bit). Oracle: the independent gate-matrix simulator `oracle::sim`
//! (state vector in f64) -- |<b|U|0>|^2, <psi|P|psi>, P(x_j = 1 | prefix).
//!
//! The QASM text is produced by the harness's own printer (`gen::circuit::print_qasm`);
//! only gates the repo's QASM front end declares are generated (no `pp`).

use crate::fw::{ctx, par_cases};
use crate::gen::circuit::print_qasm_variants;
use crate::gen::circuit::{circ_hash, circ_json, gen_circuit, print_qasm, CircParams, PhPool};
use crate::gen::prng::Rng;
use crate::oracle::ring::Cf;
use crate::oracle::sim::{state_float, Circ, G};
use serde_json::{json, Value};
use std::collections::BTreeMap;
use std::ffi::OsString;
use std::path::{Path, PathBuf};
use std::process::{Command, Stdio};
use std::sync::Arc;
use std::time::{Duration, Instant};

/// per-call wall-clock watchdog; firing is inconclusive
const CALL_TIMEOUT_S: u64 = 120;
/// a probability at or below this is "zero" for the non-zero-probability clause
const ZERO_P: f64 = 1e-9;
/// below this prefix probability the conditional is numerically ill-conditioned
const ILL_PREFIX: f64 = 1e-4;
const TOL_EXACT: f64 = 1e-9;
const TOL_FLOAT: f64 = 1e-6;

// ------------------------------------------------------------------------------------
// environment
// ------------------------------------------------------------------------------------

struct Env {
    cli: OsString,
    dir: PathBuf,
}

// ------------------------------------------------------------------------------------
// configurations: method x parallel (x optional output file)
// ------------------------------------------------------------------------------------

#[derive(Clone, Copy, PartialEq, Eq, Debug, PartialOrd, Ord)]
struct Config {
    /// 0 = default, 1 = --cats, 2 = --bss
    method: u8,
    /// 0 = flag absent, 1 = --parallel 1, 2 = --parallel 4
    par: u8,
    /// write to `-o file` instead of stdout
    out: bool,
}

impl Config {
    fn method_name(&self) -> &'static str {
        ["default", "--cats", "--bss"][self.method as usize]
    }
    fn par_name(&self) -> &'static str {
        ["seq", "--parallel 1", "--parallel 4"][self.par as usize]
    }
    fn args(&self) -> Vec<OsString> {
        let mut a: Vec<OsString> = vec![];
        match self.method {
            1 => a.push("--cats".into()),
            2 => a.push("--bss".into()),
            _ => {}
        }
        match self.par {
            1 => {
                a.push("--parallel".into());
                a.push("1".into());
            }
            2 => {
                a.push("--parallel".into());
                a.push("4".into());
            }
            _ => {}
        }
        a
    }
    fn label(&self) -> String {
        format!("{} {}{}", self.method_name(), self.par_name(), if self.out { " -o" } else { "" })
    }
}

fn all_configs() -> Vec<Config> {
    let mut v = vec![];
    for method in 0..3u8 {
        for par in 0..3u8 {
            v.push(Config { method, par, out: false });
        }
    }
    v
}

/// Describe the failing subset `f` of the configurations `r` that were run, in a way that
/// depends on the defect and not on the random subset: all / a set of methods / a set of
/// parallel settings / some.
fn cfg_desc(f: &[Config], r: &[Config]) -> String {
    let mut f: Vec<Config> = f.to_vec();
    f.sort();
    f.dedup();
    let mut r: Vec<Config> = r.to_vec();
    r.sort();
    r.dedup();
    if f == r {
        return "all-configs".into();
    }
    let mut ms: Vec<u8> = f.iter().map(|c| c.method).collect();
    ms.sort();
    ms.dedup();
    let by_m: Vec<Config> = r.iter().copied().filter(|c| ms.contains(&c.method)).collect();
    if by_m == f {
        let names: Vec<&str> = ms.iter().map(|&m| ["default", "--cats", "--bss"][m as usize]).collect();
        return format!("methods={}", names.join(","));
    }
    let mut ps: Vec<u8> = f.iter().map(|c| c.par).collect();
    ps.sort();
    ps.dedup();
    let by_p: Vec<Config> = r.iter().copied().filter(|c| ps.contains(&c.par)).collect();
    if by_p == f {
        let names: Vec<&str> = ps.iter().map(|&p| ["seq", "par1", "par4"][p as usize]).collect();
        return format!("parallel={}", names.join(","));
    }
    if f.iter().all(|c| c.out) {
        return "only-with--o".into();
    }
    "some-configs".into()
}

// ------------------------------------------------------------------------------------
// running the binary
// ------------------------------------------------------------------------------------

#[derive(Debug, Clone)]
struct CliRes {
    code: Option<i32>,
    stdout: String,
    stderr: String,
    timed_out: bool,
    spawn_err: Option<String>,
    ms: u64,
}

impl CliRes {
    fn json(&self) -> Value {
        json!({"exit_code": self.code, "stdout": clip(&self.stdout), "stderr": clip(&self.stderr), "timed_out": self.timed_out, "ms": self.ms})
    }
    fn panicked(&self) -> bool {
        self.stdout.contains("panicked at") || self.stderr.contains("panicked at")
    }
    /// "file.rs:message" of the first panic, digits stripped (stable across line shifts)
    fn panic_site(&self) -> String {
        let all = format!("{}\n{}", self.stderr, self.stdout);
        let mut it = all.lines();
        while let Some(l) = it.next() {
            if let Some(pos) = l.find("panicked at ") {
                let loc = &l[pos + "panicked at ".len()..];
                let file = loc.split(':').next().unwrap_or("");
                let file = file.rsplit('/').next().unwrap_or(file);
                let msg = it.next().unwrap_or("");
                let m: String = msg.chars().filter(|c| !c.is_ascii_digit()).take(40).collect();
                return format!("{file}:{}", m.trim());
            }
        }
        "?".into()
    }
}

fn clip(s: &str) -> String {
    if s.len() > 1500 {
        let mut end = 1500;
        while !s.is_char_boundary(end) {
            end -= 1;
        }
        format!("{}...[{} bytes]", &s[..end], s.len())
    } else {
        s.to_string()
    }
}

/// Run `cli args..` with stdout/stderr captured into `<scratch>.out/.err`, environment
/// variable QUIZX_VERIF_TRACE set to `trace` (or removed), kill after CALL_TIMEOUT_S.
fn run_cli(env: &Env, args: &[OsString], trace: Option<&Path>, scratch: &Path) -> CliRes {
    let t0 = Instant::now();
    let out_p = scratch.with_extension("out");
    let err_p = scratch.with_extension("err");
    let fail = |m: String| CliRes { code: None, stdout: String::new(), stderr: String::new(), timed_out: false, spawn_err: Some(m), ms: 0 };
    let (fo, fe) = match (std::fs::File::create(&out_p), std::fs::File::create(&err_p)) {
        (Ok(a), Ok(b)) => (a, b),
        _ => return fail("cannot create capture files".into()),
    };
    let mut cmd = Command::new(&env.cli);
    cmd.args(args).stdin(Stdio::null()).stdout(Stdio::from(fo)).stderr(Stdio::from(fe)).env("RUST_BACKTRACE", "0").current_dir(&env.dir);
    match trace {
        Some(p) => {
            let _ = std::fs::remove_file(p);
            cmd.env("QUIZX_VERIF_TRACE", p);
        }
        None => {
            cmd.env_remove("QUIZX_VERIF_TRACE");
        }
    }
    let mut child = match cmd.spawn() {
        Ok(c) => c,
        Err(e) => return fail(format!("spawn: {e}")),
    };
    let deadline = t0 + Duration::from_secs(CALL_TIMEOUT_S);
    let mut timed_out = false;
    let mut polls = 0u32;
    let status = loop {
        match child.try_wait() {
            Ok(Some(st)) => break Some(st),
            Ok(None) => {
                if Instant::now() >= deadline {
                    let _ = child.kill();
                    let _ = child.wait();
                    timed_out = true;
                    break None;
                }
                polls += 1;
                std::thread::sleep(Duration::from_micros(if polls < 50 { 300 } else { 2000 }));
            }
            Err(e) => {
                let _ = child.kill();
                return fail(format!("wait: {e}"));
            }
        }
    };
    let rd = |p: &Path| String::from_utf8_lossy(&std::fs::read(p).unwrap_or_default()).into_owned();
    CliRes { code: status.and_then(|s| s.code()), stdout: rd(&out_p), stderr: rd(&err_p), timed_out, spawn_err: None, ms: t0.elapsed().as_millis() as u64 }
}

// ------------------------------------------------------------------------------------
// oracle helpers on top of oracle::sim (state vector, qubit 0 = most significant bit)
// ------------------------------------------------------------------------------------

#[inline]
fn qbit(i: usize, n: usize, q: usize) -> usize {
    (i >> (n - 1 - q)) & 1
}

fn bits_of(i: usize, n: usize) -> String {
    (0..n).map(|q| if qbit(i, n, q) == 1 { '1' } else { '0' }).collect()
}

fn index_of(bits: &[bool]) -> usize {
    bits.iter().fold(0usize, |a, &b| (a << 1) | b as usize)
}

/// P|ket> for a Pauli string over upper-case I/X/Y/Z
fn apply_paulis(ket: &[Cf], n: usize, p: &[u8]) -> Vec<Cf> {
    let mut cur = ket.to_vec();
    for (q, &ch) in p.iter().enumerate() {
        let m = 1usize << (n - 1 - q);
        let mut out = vec![Cf::new(0.0, 0.0); cur.len()];
        for (i, a) in cur.iter().enumerate() {
            let b = qbit(i, n, q);
            match ch {
                b'I' => out[i] = *a,
                b'Z' => out[i] = if b == 1 { -*a } else { *a },
                b'X' => out[i ^ m] = *a,
                // Y|0> = i|1>, Y|1> = -i|0>
                b'Y' => out[i ^ m] = *a * if b == 0 { Cf::new(0.0, 1.0) } else { Cf::new(0.0, -1.0) },
                _ => unreachable!("pauli char"),
            }
        }
        cur = out;
    }
    cur
}

fn hadamard_on(ket: &[Cf], n: usize, q: usize) -> Vec<Cf> {
    let m = 1usize << (n - 1 - q);
    let s = std::f64::consts::FRAC_1_SQRT_2;
    let mut out = ket.to_vec();
    for i in 0..ket.len() {
        if i & m == 0 {
            out[i] = (ket[i] + ket[i | m]) * s;
            out[i | m] = (ket[i] - ket[i | m]) * s;
        }
    }
    out
}

fn inner_re(bra: &[Cf], ket: &[Cf]) -> f64 {
    bra.iter().zip(ket.iter()).map(|(a, b)| (a.conj() * b).re).sum()
}

struct Orc {
    n: usize,
    psi: Vec<Cf>,
    probs: Vec<f64>,
}

impl Orc {
    fn of_state(n: usize, psi: Vec<Cf>) -> Orc {
        let probs = psi.iter().map(|a| a.norm_sqr()).collect();
        Orc { n, psi, probs }
    }
    fn new(c: &Circ) -> Orc {
        Orc::of_state(c.n, state_float(c))
    }
    fn expect(&self, p: &[u8]) -> f64 {
        inner_re(&self.psi, &apply_paulis(&self.psi, self.n, p))
    }
    /// probability that the first `prefix.len()` qubits read `prefix`
    fn prefix_prob(&self, prefix: &[bool]) -> f64 {
        let k = prefix.len();
        let want = index_of(prefix);
        self.probs.iter().enumerate().filter(|(i, _)| k == 0 || (i >> (self.n - k)) == want).map(|(_, p)| *p).sum()
    }
    /// (P(prefix), P(prefix followed by 1))
    fn joint(&self, prefix: &[bool]) -> (f64, f64) {
        let mut p1 = prefix.to_vec();
        p1.push(true);
        (self.prefix_prob(prefix), self.prefix_prob(&p1))
    }
    fn support(&self) -> usize {
        self.probs.iter().filter(|p| **p > ZERO_P).count()
    }
}

/// Diagnostic models of *known* failure mechanisms, used only to give a mismatch a
/// discriminating signature (never to decide whether something is a mismatch):
/// A = SWAP gates treated as a relabelling whose outputs are never put back in order;
/// idle = the output edge type of a wire without any spider is dropped when a Pauli is
/// inserted (the |0> on that wire turns into |+> on the ket side only).
struct Models {
    has_swap: bool,
    /// state of the circuit with swaps as pure relabelling (outputs in wire order)
    relabelled: Orc,
    /// wires without any non-swap gate, in wire numbering of the relabelled circuit
    bare_wire: Vec<bool>,
    /// qubit q ends on wire `final_map[q]`
    final_map: Vec<usize>,
}

fn remap_gate(g: &G, m: &[usize]) -> G {
    match g {
        G::Rz(q, p) => G::Rz(m[*q], *p),
        G::Rx(q, p) => G::Rx(m[*q], *p),
        G::X(q) => G::X(m[*q]),
        G::Z(q) => G::Z(m[*q]),
        G::S(q) => G::S(m[*q]),
        G::T(q) => G::T(m[*q]),
        G::Sdg(q) => G::Sdg(m[*q]),
        G::Tdg(q) => G::Tdg(m[*q]),
        G::H(q) => G::H(m[*q]),
        G::Cx(a, b) => G::Cx(m[*a], m[*b]),
        G::Cz(a, b) => G::Cz(m[*a], m[*b]),
        G::Xcx(a, b) => G::Xcx(m[*a], m[*b]),
        G::Swap(a, b) => G::Swap(m[*a], m[*b]),
        G::Ccz(a, b, c) => G::Ccz(m[*a], m[*b], m[*c]),
        G::Ccx(a, b, c) => G::Ccx(m[*a], m[*b], m[*c]),
        G::Pp(qs, p) => G::Pp(qs.iter().map(|q| m[*q]).collect(), *p),
        G::InitAnc(q) => G::InitAnc(m[*q]),
        G::PostSel(q) => G::PostSel(m[*q]),
        G::MeasureD(q, v) => G::MeasureD(m[*q], v.clone()),
        G::MeasureR(q, v) => G::MeasureR(m[*q], v.clone()),
    }
}

impl Models {
    fn new(c: &Circ) -> Models {
        let mut map: Vec<usize> = (0..c.n).collect();
        let mut gates = vec![];
        let mut has_swap = false;
        for g in &c.gates {
            if let G::Swap(a, b) = g {
                map.swap(*a, *b);
                has_swap = true;
            } else {
                gates.push(remap_gate(g, &map));
            }
        }
        let mut bare = vec![true; c.n];
        for g in &gates {
            for q in g.qubits() {
                bare[q] = false;
            }
        }
        let rc = Circ { n: c.n, gates };
        Models { has_swap, relabelled: Orc::new(&rc), bare_wire: bare, final_map: map }
    }
    fn has_bare_wire(&self) -> bool {
        self.bare_wire.iter().any(|b| *b)
    }
    /// expectation with the ket's bare qubits (those carrying a non-identity Pauli) in |+>
    fn expect_idle(orc: &Orc, bare_q: &[bool], p: &[u8]) -> f64 {
        let mut ket = orc.psi.clone();
        for q in 0..orc.n {
            if bare_q[q] && p[q] != b'I' {
                ket = hadamard_on(&ket, orc.n, q);
            }
        }
        inner_re(&orc.psi, &apply_paulis(&ket, orc.n, p))
    }
    /// which qubits (true numbering) sit on a bare wire
    fn bare_qubits(&self) -> Vec<bool> {
        (0..self.final_map.len()).map(|q| self.bare_wire[self.final_map[q]]).collect()
    }
}

fn self_test() -> Result<(), String> {
    let bell = Circ { n: 2, gates: vec![G::H(0), G::Cx(0, 1)] };
    let o = Orc::new(&bell);
    let cl = |a: f64, b: f64| (a - b).abs() < 1e-12;
    if !(cl(o.probs[0], 0.5) && cl(o.probs[3], 0.5) && cl(o.probs[1], 0.0)) {
        return Err("bell probabilities".into());
    }
    for (p, v) in [("ZZ", 1.0), ("XX", 1.0), ("YY", -1.0), ("ZI", 0.0), ("XY", 0.0), ("II", 1.0)] {
        if !cl(o.expect(p.as_bytes()), v) {
            return Err(format!("bell <{p}>"));
        }
    }
    // S H |0> = (|0> + i|1>)/sqrt2 is the +1 eigenstate of Y
    let y = Orc::new(&Circ { n: 1, gates: vec![G::H(0), G::S(0)] });
    if !cl(y.expect(b"Y"), 1.0) || !cl(y.expect(b"X"), 0.0) {
        return Err("Y eigenstate".into());
    }
    let (pp, p1) = o.joint(&[true]);
    if !(cl(pp, 0.5) && cl(p1, 0.5)) {
        return Err("bell conditional".into());
    }
    // qubit order: x on qubit 0 of 3 gives "100"
    let x = Orc::new(&Circ { n: 3, gates: vec![G::X(0)] });
    if !cl(x.probs[0b100], 1.0) || bits_of(0b100, 3) != "100" || !cl(x.expect(b"ZII"), -1.0) || !cl(x.expect(b"IZI"), 1.0) {
        return Err("qubit order".into());
    }
    // swap relabelling model: x q0; swap q0,q1 -> true "01", relabelled "10"
    let s = Circ { n: 2, gates: vec![G::X(0), G::Swap(0, 1)] };
    let m = Models::new(&s);
    if !cl(Orc::new(&s).probs[0b01], 1.0) || !cl(m.relabelled.probs[0b10], 1.0) || m.bare_qubits() != vec![true, false] {
        return Err("swap model".into());
    }
    // idle model: <Z> on an idle qubit reads 1/sqrt2
    let i = Circ { n: 2, gates: vec![G::H(0)] };
    let mi = Models::new(&i);
    let oi = Orc::new(&i);
    if !cl(Models::expect_idle(&oi, &mi.bare_qubits(), b"IZ"), std::f64::consts::FRAC_1_SQRT_2) || !cl(oi.expect(b"IZ"), 1.0) {
        return Err("idle model".into());
    }
    let a = Config { method: 2, par: 0, out: false };
    let b = Config { method: 2, par: 2, out: false };
    let c = Config { method: 0, par: 2, out: false };
    if cfg_desc(&[a, b], &[a, b, c]) != "methods=--bss" || cfg_desc(&[b, c], &[a, b, c]) != "parallel=par4" || cfg_desc(&[a, b, c], &[c, b, a]) != "all-configs" {
        return Err("cfg_desc".into());
    }
    Ok(())
}

// ------------------------------------------------------------------------------------
// workload
// ------------------------------------------------------------------------------------

fn t_cost(g: &G) -> usize {
    match g {
        G::T(_) | G::Tdg(_) => 1,
        G::Rz(_, p) | G::Rx(_, p) | G::Pp(_, p) => {
            if p.1 == 1 || p.1 == 2 {
                0
            } else {
                1
            }
        }
        G::Ccz(..) | G::Ccx(..) => 7,
        _ => 0,
    }
}

/// unitary circuit over the gate set the QASM front end declares, non-Clifford budget
/// <= 6 (or one ccz/ccx plus <= 2)
fn gen_c06(r: &mut Rng, pool: PhPool, max_q: usize, max_d: usize) -> Circ {
    let mut p = CircParams::unitary(max_q, max_d, pool);
    p.pp = false;
    p.ccz = r.chance(0.12);
    let budget = if p.ccz { 9 } else { 6 };
    let c = gen_circuit(r, &p);
    let mut used = 0;
    let mut gates = vec![];
    for g in c.gates {
        let k = t_cost(&g);
        if used + k <= budget {
            used += k;
            gates.push(g);
        }
    }
    Circ { n: c.n, gates }
}

fn ph(n: i64, d: i64) -> (i64, i64) {
    (n, d)
}

/// hand-written circuits aimed at the places the property names
fn special_circuits() -> Vec<(&'static str, Circ)> {
    vec![
        ("bell", Circ { n: 2, gates: vec![G::H(0), G::Cx(0, 1)] }),
        ("ghz3", Circ { n: 3, gates: vec![G::H(0), G::Cx(0, 1), G::Cx(1, 2)] }),
        ("idle-q1", Circ { n: 2, gates: vec![G::H(0)] }),
        ("idle-q0", Circ { n: 2, gates: vec![G::X(1)] }),
        ("h-only", Circ { n: 1, gates: vec![G::H(0)] }),
        ("hth", Circ { n: 1, gates: vec![G::H(0), G::T(0), G::H(0)] }),
        ("x-swap", Circ { n: 2, gates: vec![G::X(0), G::Swap(0, 1)] }),
        ("swap-mid", Circ { n: 3, gates: vec![G::H(0), G::Swap(0, 2), G::Cx(2, 1), G::T(1), G::H(1)] }),
        ("swap-chain", Circ { n: 3, gates: vec![G::X(0), G::Swap(0, 1), G::Swap(1, 2), G::H(0)] }),
        ("zero-gates", Circ { n: 2, gates: vec![] }),
        ("skewed", Circ { n: 2, gates: vec![G::Rx(0, ph(1, 4)), G::Cx(0, 1), G::Rx(1, ph(1, 4))] }),
        ("ccz", Circ { n: 3, gates: vec![G::H(0), G::H(1), G::H(2), G::Ccz(0, 1, 2), G::H(0), G::H(1), G::H(2)] }),
        ("idle-middle", Circ { n: 3, gates: vec![G::H(0), G::Cx(0, 2), G::T(2), G::H(2)] }),
        ("all-idle-but-one", Circ { n: 4, gates: vec![G::H(3), G::T(3), G::H(3)] }),
        ("float-1q", Circ { n: 1, gates: vec![G::Rx(0, ph(2, 7))] }),
        ("float-2q", Circ { n: 2, gates: vec![G::Rx(0, ph(1, 3)), G::Cx(0, 1), G::Rx(1, ph(3, 5)), G::Rz(1, ph(1, 8)), G::H(1)] }),
        ("xcx", Circ { n: 2, gates: vec![G::H(1), G::T(1), G::Xcx(0, 1), G::H(0)] }),
        ("toffoli", Circ { n: 3, gates: vec![G::H(0), G::X(1), G::Ccx(0, 1, 2)] }),
    ]
}

#[derive(Clone, Debug)]
enum Query {
    /// `-a <bits>`
    Amp(String),
    /// `-e <paulis>`
    Exp(String),
    /// `-s k`; None = no task flag at all (documented default: one shot)
    Shots(Option<usize>),
}

impl Query {
    fn task(&self) -> &'static str {
        match self {
            Query::Amp(_) => "-a",
            Query::Exp(_) => "-e",
            Query::Shots(_) => "-s",
        }
    }
    fn args(&self) -> Vec<OsString> {
        match self {
            Query::Amp(s) => vec!["-a".into(), s.into()],
            Query::Exp(s) => vec!["-e".into(), s.into()],
            Query::Shots(Some(k)) => vec!["-s".into(), k.to_string().into()],
            Query::Shots(None) => vec![],
        }
    }
    fn text(&self) -> String {
        match self {
            Query::Amp(s) => format!("-a {s}"),
            Query::Exp(s) => format!("-e {s}"),
            Query::Shots(Some(k)) => format!("-s {k}"),
            Query::Shots(None) => "(no task flag)".into(),
        }
    }
}

fn rand_pauli_string(r: &mut Rng, n: usize, lower: f64) -> String {
    (0..n)
        .map(|_| {
            let c = *r.pick(&['I', 'X', 'Y', 'Z']);
            if r.chance(lower) {
                c.to_ascii_lowercase()
            } else {
                c
            }
        })
        .collect()
}

fn build_queries(r: &mut Rng, orc: &Orc, models: &Models, max_shots: usize) -> Vec<(Query, bool)> {
    // (query, run on all nine configurations?)
    let n = orc.n;
    let mut qs: Vec<(Query, bool)> = vec![];
    // amplitudes: most likely string, two random strings, both broadcast forms
    let best = orc.probs.iter().enumerate().max_by(|a, b| a.1.partial_cmp(b.1).unwrap()).map(|x| x.0).unwrap_or(0);
    qs.push((Query::Amp(bits_of(best, n)), true));
    for _ in 0..2 {
        qs.push((Query::Amp(bits_of(r.below(1 << n), n)), false));
    }
    qs.push((Query::Amp("0".into()), false));
    qs.push((Query::Amp("1".into()), false));
    // expectation values
    // the string (out of 12 random ones) whose expectation is furthest from 0 and +-1
    let mut best_p = rand_pauli_string(r, n, 0.0);
    let mut best_score = -1.0;
    for _ in 0..12 {
        let cand = rand_pauli_string(r, n, 0.0);
        let e = orc.expect(cand.as_bytes()).abs();
        let score = e.min(1.0 - e);
        if score > best_score + 1e-9 {
            best_score = score;
            best_p = cand;
        }
    }
    qs.push((Query::Exp(best_p), true));
    qs.push((Query::Exp(rand_pauli_string(r, n, 0.0)), false));
    qs.push((Query::Exp(rand_pauli_string(r, n, 0.5)), false));
    qs.push((Query::Exp(rand_pauli_string(r, n, 1.0)), false));
    // diagonal string
    let diag: String = (0..n).map(|_| if r.chance(0.6) { 'Z' } else { 'I' }).collect();
    qs.push((Query::Exp(diag), false));
    // a single Pauli on one qubit, preferring a qubit without gates
    let bare = models.bare_qubits();
    let cand: Vec<usize> = (0..n).filter(|q| bare[*q]).collect();
    let q = if !cand.is_empty() && r.chance(0.7) { *r.pick(&cand) } else { r.below(n) };
    let pch = *r.pick(&['X', 'Y', 'Z']);
    let single: String = (0..n).map(|i| if i == q { pch } else { 'I' }).collect();
    qs.push((Query::Exp(single), false));
    // broadcast
    let b1 = *r.pick(&["X", "Y", "Z", "I"]);
    let b2 = *r.pick(&["x", "y", "z", "i"]);
    qs.push((Query::Exp(b1.into()), false));
    qs.push((Query::Exp(b2.into()), false));
    // sampling
    qs.push((Query::Shots(Some(1 + r.below(max_shots))), true));
    match r.below(4) {
        0 => qs.push((Query::Shots(None), false)),
        1 => qs.push((Query::Shots(Some(0)), false)),
        _ => {}
    }
    qs
}

// ------------------------------------------------------------------------------------
// judging
// ------------------------------------------------------------------------------------

/// A problem found in one call: (class, discriminating condition, detail)
type Problem = (String, String, Value);

/// classify a run that should have produced an answer but did not
fn failure_of(res: &CliRes) -> Option<Problem> {
    if res.panicked() {
        return Some(("panic".into(), res.panic_site(), json!({"run": res.json()})));
    }
    match res.code {
        Some(0) => None,
        Some(c) => {
            let first: String = res.stderr.lines().next().unwrap_or("").chars().filter(|c| !c.is_ascii_digit()).take(40).collect();
            Some(("valid-query-rejected".into(), format!("exit {c}:{}", first.trim()), json!({"run": res.json()})))
        }
        None => Some(("crash".into(), "killed-by-signal".into(), json!({"run": res.json()}))),
    }
}

/// Diagnostic model: is `d` (an error) a power of two or a power of two over sqrt2? That is
/// what one coefficient of a Z[omega] scalar contributes when its 64-bit mantissa is read
/// as a signed 64-bit integer (the value moves by 2^k with 2^(k-1) <= |v| < 2^k).
fn pow2_offset(d: f64) -> bool {
    fn one(d: f64) -> bool {
        let d = d.abs();
        if !(d.is_finite() && d > 1e-12) {
            return false;
        }
        let a = d.log2();
        let b = (d * std::f64::consts::SQRT_2).log2();
        (a - a.round()).abs() < 1e-6 || (b - b.round()).abs() < 1e-6
    }
    if one(d) {
        return true;
    }
    // two coefficients moved at once
    for k in -20..=2 {
        for scale in [1.0, std::f64::consts::FRAC_1_SQRT_2] {
            let t = 2f64.powi(k) * scale;
            if one(d.abs() - t) || one(d.abs() + t) {
                return true;
            }
        }
    }
    false
}

fn diagnose_value(task: &str, q: &str, observed: f64, expected: f64, circ: &Circ, orc: &Orc, models: &Models, tol: f64) -> String {
    if circ.gates.is_empty() {
        return "zero-gate-circuit".into();
    }
    let n = orc.n;
    let near = |v: f64| (v - observed).abs() <= tol.max(1e-7);
    let pow2 = pow2_offset(observed - expected) && !circ.is_pi4();
    let pool = if circ.is_pi4() { "clifford+t" } else { "other-phases" };
    if pow2 && task == "-a" {
        return "off-by-power-of-two(64-bit-mantissa-read-as-signed)".into();
    }
    match task {
        "-a" => {
            let bits: Vec<bool> = if q.len() == 1 { vec![q == "1"; n] } else { q.chars().map(|c| c == '1').collect() };
            if models.has_swap && near(models.relabelled.probs[index_of(&bits)]) {
                return "swap:outputs-not-reordered".into();
            }
            if near(orc.psi[index_of(&bits)].norm()) {
                return "amplitude-modulus-not-squared".into();
            }
        }
        "-e" => {
            let up = q.to_ascii_uppercase();
            let p: Vec<u8> = if up.len() == 1 { vec![up.as_bytes()[0]; n] } else { up.as_bytes().to_vec() };
            let bq = models.bare_qubits();
            let hits_bare = (0..n).any(|i| bq[i] && p[i] != b'I');
            if hits_bare && near(Models::expect_idle(orc, &bq, &p)) {
                return "pauli-on-gate-free-qubit:output-edge-type-dropped".into();
            }
            if pow2 {
                return "off-by-power-of-two(64-bit-mantissa-read-as-signed)".into();
            }
            if models.has_swap && near(models.relabelled.expect(&p)) {
                return "swap:outputs-not-reordered".into();
            }
            if models.has_swap && (0..n).any(|w| models.bare_wire[w] && p[w] != b'I') && near(Models::expect_idle(&models.relabelled, &models.bare_wire, &p)) {
                return "swap:outputs-not-reordered+edge-type-dropped".into();
            }
            if hits_bare {
                return format!("pauli-on-gate-free-qubit:other({pool})");
            }
        }
        _ => {}
    }
    if models.has_swap {
        format!("unexplained({pool},circuit-has-swap)")
    } else {
        format!("unexplained({pool})")
    }
}

fn parse_trace(txt: &str) -> Result<Vec<(String, f64)>, String> {
    let mut out = vec![];
    for l in txt.lines() {
        if l.trim().is_empty() {
            continue;
        }
        // {"prefix":"01","p":1.25e-1}
        let a = l.find("\"prefix\":\"").ok_or_else(|| format!("bad trace line {l}"))? + 10;
        let b = a + l[a..].find('"').ok_or_else(|| format!("bad trace line {l}"))?;
        let prefix = l[a..b].to_string();
        let c = l.find("\"p\":").ok_or_else(|| format!("bad trace line {l}"))? + 4;
        let d = l.rfind('}').ok_or_else(|| format!("bad trace line {l}"))?;
        let p: f64 = l[c..d].trim().parse().map_err(|_| format!("bad trace number in {l}"))?;
        out.push((prefix, p));
    }
    Ok(out)
}

/// judge the text printed by a sampling run (and its trace)
fn judge_shots(k: usize, text: &str, trace: Option<&str>, circ: &Circ, orc: &Orc, models: &Models, tol: f64) -> Vec<Problem> {
    let c = ctx();
    let n = orc.n;
    let mut probs: Vec<Problem> = vec![];
    let body = text.strip_suffix('\n').unwrap_or(text);
    let lines: Vec<&str> = if k == 0 { vec![] } else { body.split('\n').collect() };
    let empty_circ = circ.gates.is_empty();
    let feat = |s: &str| if empty_circ { "zero-gate-circuit".to_string() } else { s.to_string() };
    if k == 0 {
        if !body.trim().is_empty() {
            probs.push(("zero-shots-printed-something".into(), feat(""), json!({"stdout": clip(text)})));
        }
        c.count("shots0_runs", 1);
    } else if lines.len() != k {
        probs.push(("wrong-number-of-samples".into(), feat(""), json!({"expected": k, "observed": lines.len(), "stdout": clip(text)})));
    }
    let mut well_formed = true;
    for (s, l) in lines.iter().enumerate() {
        if l.len() != n || !l.bytes().all(|b| b == b'0' || b == b'1') {
            probs.push(("malformed-sample".into(), feat(""), json!({"shot": s, "line": l, "expected_length": n})));
            well_formed = false;
            continue;
        }
        let bits: Vec<bool> = l.bytes().map(|b| b == b'1').collect();
        let p = orc.probs[index_of(&bits)];
        c.count("samples_checked", 1);
        if p <= ZERO_P {
            let d = if models.has_swap && models.relabelled.probs[index_of(&bits)] > ZERO_P { "swap:outputs-not-reordered" } else { "" };
            probs.push(("zero-probability-sample".into(), feat(d), json!({"shot": s, "sample": l, "born_probability": p})));
        }
    }
    let Some(tr) = trace else {
        return probs;
    };
    let draws = match parse_trace(tr) {
        Ok(d) => d,
        Err(e) => {
            c.harness_error(&format!("C06: unreadable H4 trace: {e}"));
            return probs;
        }
    };
    if !well_formed || lines.len() != k {
        return probs;
    }
    if draws.len() != k * n {
        probs.push(("draw-count".into(), feat(""), json!({"expected_draws": k * n, "traced_draws": draws.len()})));
        return probs;
    }
    for s in 0..k {
        for j in 0..n {
            let (prefix, p_used) = &draws[s * n + j];
            if prefix != &lines[s][..j] {
                probs.push((
                    "trace-inconsistent-with-printed-sample".into(),
                    feat(""),
                    json!({"shot": s, "draw": j, "traced_prefix": prefix, "printed": lines[s]}),
                ));
                continue;
            }
            let pre: Vec<bool> = prefix.bytes().map(|b| b == b'1').collect();
            let (pp, p1) = orc.joint(&pre);
            c.count("draws_traced", 1);
            if pp <= ZERO_P {
                // the prefix itself has zero probability: reported as zero-probability-sample
                c.count("draws_skipped_zero_probability_prefix", 1);
                continue;
            }
            let cond = p1 / pp;
            let ok = p_used.is_finite() && (p_used - cond).abs() <= tol;
            if ok {
                c.count("draws_checked_ok", 1);
                if cond > 1e-6 && cond < 1.0 - 1e-6 {
                    c.count("draws_with_fractional_conditional", 1);
                }
                if (p1 - cond).abs() > 1e-6 {
                    c.count("draws_where_joint_differs_from_conditional", 1);
                }
                c.maximum("max_draw_error_x1e15", ((p_used - cond).abs() * 1e15) as u64);
                continue;
            }
            if pp < ILL_PREFIX && p_used.is_finite() && (p_used - cond).abs() <= tol / pp {
                c.inconclusive("ill-conditioned-prefix", json!({"prefix": prefix, "prefix_probability": pp, "p_used": p_used, "conditional": cond}));
                continue;
            }
            let d = if !p_used.is_finite() {
                "not-finite"
            } else if (p_used - p1).abs() <= tol && (p1 - cond).abs() > tol {
                "joint-instead-of-conditional"
            } else if !circ.is_pi4() && pow2_offset(p_used * pp - p1) {
                "joint-off-by-power-of-two(64-bit-mantissa-read-as-signed)"
            } else if !circ.is_pi4() && (*p_used == 0.0 || *p_used == 1.0) {
                // a joint that is negative or larger than the prefix probability gets clamped
                "clamped-to-0-or-1(other-phases)"
            } else if models.has_swap && {
                let (a, b) = models.relabelled.joint(&pre);
                a > ZERO_P && (p_used - b / a).abs() <= tol
            } {
                "swap:outputs-not-reordered"
            } else if models.has_swap {
                if circ.is_pi4() { "unexplained(clifford+t,circuit-has-swap)" } else { "unexplained(other-phases,circuit-has-swap)" }
            } else if circ.is_pi4() {
                "unexplained(clifford+t)"
            } else {
                "unexplained(other-phases)"
            };
            probs.push((
                "draw-probability".into(),
                feat(d),
                json!({"shot": s, "draw": j, "prefix": prefix, "p_used": p_used, "expected_conditional": cond, "prefix_probability": pp, "joint_prefix_then_1": p1}),
            ));
            // the sampler divides by the running product of the probabilities it used, so
            // the later draws of this shot are consequences of this one
            c.count("draws_skipped_after_a_bad_draw_in_the_same_shot", (n - 1 - j) as u64);
            break;
        }
    }
    // a zero-probability sample is the consequence of a wrong draw probability if one was traced
    let first_bad: Option<String> = probs.iter().find(|p| p.0 == "draw-probability").map(|p| p.1.clone());
    for p in probs.iter_mut() {
        if p.0 == "zero-probability-sample" {
            match &first_bad {
                Some(d) => p.1 = format!("after-bad-draw:{d}"),
                None if p.1.is_empty() => p.1 = "all-traced-draws-correct".to_string(),
                None => {}
            }
        }
    }
    probs
}

/// tolerance on probabilities / expectations when angles were written as decimals
const TOL_DECIMAL: f64 = 2e-5;

fn circuit_case(env: &Env, family: &'static str, index: u64, r: &mut Rng, circ: Circ, label: &str) {
    let c = ctx();
    let (variant_text, circ) = if family == "syntax-variants" {
        let (t, c2) = print_qasm_variants(&circ, r);
        (Some(t), c2)
    } else {
        (None, circ)
    };
    let n = circ.n;
    let orc = Orc::new(&circ);
    let models = Models::new(&circ);
    let exact = circ.is_pi4();
    let tol = if variant_text.is_some() && !exact {
        TOL_DECIMAL
    } else if exact {
        TOL_EXACT
    } else {
        TOL_FLOAT
    };
    let qasm = variant_text.unwrap_or_else(|| print_qasm(&circ));
    let stem = env.dir.join(format!("{family}-{index}"));
    let file = stem.with_extension("qasm");
    if let Err(e) = std::fs::write(&file, &qasm) {
        c.harness_error(&format!("C06: cannot write {}: {e}", file.display()));
        return;
    }
    let trace_p = stem.with_extension("trace");
    let outfile_p = stem.with_extension("result");
    let max_shots = c.tier.pick(4usize, 8usize);
    let queries = build_queries(r, &orc, &models, max_shots);
    let out_query = r.below(queries.len());
    let configs = all_configs();
    let tcount: usize = circ.gates.iter().map(t_cost).sum();
    c.maximum("max_qubits", n as u64);
    c.maximum("max_t_cost", tcount as u64);
    c.count(if exact { "circuits:clifford+t" } else { "circuits:other-phases" }, 1);
    if models.has_swap {
        c.count("circuits:with-swap", 1);
    }
    if models.has_bare_wire() {
        c.count("circuits:with-gate-free-qubit", 1);
    }
    let mut aborted = false;
    let mut calls = 0u64;
    'queries: for (qi, (query, full)) in queries.iter().enumerate() {
        // configurations for this query
        let mut run_cfgs: Vec<Config> = if *full {
            configs.clone()
        } else {
            // three configurations with three different methods, random parallel settings
            let mut v = vec![];
            for m in 0..3u8 {
                v.push(Config { method: m, par: r.below(3) as u8, out: false });
            }
            v
        };
        if qi == out_query {
            run_cfgs.push(Config { method: r.below(3) as u8, par: r.below(3) as u8, out: true });
        }
        let expected: Option<f64> = match query {
            Query::Amp(s) => {
                let bits: Vec<bool> = if s.len() == 1 { vec![s == "1"; n] } else { s.chars().map(|ch| ch == '1').collect() };
                Some(orc.probs[index_of(&bits)])
            }
            Query::Exp(s) => {
                let up = s.to_ascii_uppercase();
                let p: Vec<u8> = if up.len() == 1 { vec![up.as_bytes()[0]; n] } else { up.as_bytes().to_vec() };
                Some(orc.expect(&p))
            }
            Query::Shots(_) => None,
        };
        // (config, problems)
        let mut found: Vec<(Config, Problem)> = vec![];
        let mut observed: Vec<(String, Value)> = vec![];
        for cfg in &run_cfgs {
            let mut args: Vec<OsString> = vec!["sim".into(), file.clone().into()];
            args.extend(cfg.args());
            args.extend(query.args());
            if cfg.out {
                // the output file is either absent or already there with older, longer content
                if calls % 2 == 0 {
                    let _ = std::fs::remove_file(&outfile_p);
                } else {
                    let _ = std::fs::write(&outfile_p, "0.123456789012345678901234567890 stale line of an earlier result\n".repeat(40));
                    c.count("cli:-o-over-an-existing-file", 1);
                }
                args.push("-o".into());
                args.push(outfile_p.clone().into());
            }
            let tracing = matches!(query, Query::Shots(_));
            let res = run_cli(env, &args, if tracing { Some(&trace_p) } else { None }, &stem);
            calls += 1;
            c.count(&format!("cli:{}:{}:{}", query.task(), cfg.method_name(), cfg.par_name()), 1);
            if cfg.out {
                c.count("cli:with--o", 1);
            }
            c.maximum("max_call_ms", res.ms);
            if let Some(e) = &res.spawn_err {
                c.harness_error(&format!("C06: cannot run the CLI: {e}"));
                return;
            }
            if res.timed_out {
                c.inconclusive("cli-timeout", json!({"family": family, "index": index, "query": query.text(), "config": cfg.label(), "seconds": CALL_TIMEOUT_S, "qasm": qasm}));
                aborted = true;
                break 'queries;
            }
            if let Some(p) = failure_of(&res) {
                observed.push((cfg.label(), json!(format!("{}:{}", p.0, p.1))));
                found.push((*cfg, p));
                continue;
            }
            // the answer text
            let text = if cfg.out {
                if !res.stdout.trim().is_empty() {
                    found.push((*cfg, ("out-file".into(), "stdout-not-empty".into(), json!({"run": res.json()}))));
                }
                match std::fs::read_to_string(&outfile_p) {
                    Ok(t) => t,
                    Err(e) => {
                        found.push((*cfg, ("out-file".into(), "not-written".into(), json!({"error": e.to_string(), "run": res.json()}))));
                        continue;
                    }
                }
            } else {
                res.stdout.clone()
            };
            match query {
                Query::Amp(s) | Query::Exp(s) => {
                    let exp = expected.unwrap();
                    match text.trim().parse::<f64>() {
                        Ok(v) if v.is_finite() => {
                            observed.push((cfg.label(), json!(v)));
                            let err = (v - exp).abs();
                            if err > tol {
                                let d = diagnose_value(query.task(), s, v, exp, &circ, &orc, &models, tol);
                                let class = if query.task() == "-a" { "wrong-probability" } else { "wrong-expectation" };
                                found.push((*cfg, (class.into(), d, json!({"observed": v, "expected": exp, "abs_error": err, "tolerance": tol}))));
                            } else {
                                c.count(&format!("answers_ok:{}", query.task()), 1);
                                c.maximum(if exact { "max_value_error_clifford+t_x1e15" } else { "max_value_error_other_x1e12" }, (err * if exact { 1e15 } else { 1e12 }) as u64);
                                if exp.abs() > 1e-6 && (exp.abs() - 1.0).abs() > 1e-6 {
                                    c.count(&format!("answers_ok_fractional:{}", query.task()), 1);
                                }
                            }
                        }
                        _ => {
                            observed.push((cfg.label(), json!(clip(&text))));
                            found.push((*cfg, ("unparsable-answer".into(), String::new(), json!({"text": clip(&text), "run": res.json()}))));
                        }
                    }
                }
                Query::Shots(k) => {
                    let k = k.unwrap_or(1);
                    let tr = std::fs::read_to_string(&trace_p).ok();
                    if tr.is_none() && k > 0 && n > 0 && !circ.gates.is_empty() {
                        c.count("sampling_runs_without_trace", 1);
                    }
                    observed.push((cfg.label(), json!(clip(&text))));
                    let ps = judge_shots(k, &text, tr.as_deref(), &circ, &orc, &models, tol);
                    if ps.is_empty() {
                        c.count("answers_ok:-s", 1);
                    }
                    for p in ps {
                        found.push((*cfg, p));
                    }
                }
            }
        }
        match query {
            Query::Amp(s) => c.count(if s.len() == 1 && n > 1 { "queries:-a:broadcast" } else { "queries:-a:full" }, 1),
            Query::Exp(s) => {
                let kind = if s.len() == 1 && n > 1 { "broadcast" } else { "full" };
                let case = if s.chars().any(|ch| ch.is_ascii_lowercase()) { "lower-or-mixed" } else { "upper" };
                c.count(&format!("queries:-e:{kind}:{case}"), 1);
            }
            Query::Shots(None) => c.count("queries:-s:default-task", 1),
            Query::Shots(Some(k)) => c.count(&format!("queries:-s:{}", if *k == 0 { "zero" } else { "k>=1" }), 1),
        }
        // group problems by (class, discriminator) and report with the config pattern
        let mut groups: BTreeMap<(String, String), Vec<(Config, Value)>> = BTreeMap::new();
        for (cfg, (class, disc, detail)) in found {
            groups.entry((class, disc)).or_default().push((cfg, detail));
        }
        for ((class, disc), items) in groups {
            let fcfgs: Vec<Config> = items.iter().map(|x| x.0).collect();
            // which draws a sampling run makes is random, so the set of configurations that
            // hit a draw/sample problem is not a property of the defect
            let random_dependent = matches!(class.as_str(), "draw-probability" | "zero-probability-sample" | "trace-inconsistent-with-printed-sample");
            // ... and whether a 64-bit mantissa happens to wrap depends on the exact float
            // arithmetic of each method
            let numeric_luck = disc.starts_with("off-by-power-of-two");
            let cd = if random_dependent || numeric_luck { "any-config".to_string() } else { cfg_desc(&fcfgs, &run_cfgs) };
            let sig = if circ.gates.is_empty() {
                // every symptom on a program without gates has one cause: the qubit count is lost
                format!("sim {}|zero-gate-circuit|qubit-count-lost", query.task())
            } else {
                format!("sim {}|{}|{}|{}", query.task(), class, disc, cd)
            };
            c.violation(
                &sig,
                family,
                index,
                json!({
                    "what": format!("`quizx sim` answer for a valid query: {class}"),
                    "circuit_label": label,
                    "circuit": circ_json(&circ),
                    "qasm": qasm,
                    "query": query.text(),
                    "expected": expected,
                    "born_distribution": if n <= 3 { json!(orc.probs) } else { Value::Null },
                    "failing_configs": items.iter().map(|(cf, d)| json!({"config": cf.label(), "detail": d})).collect::<Vec<_>>(),
                    "all_observations": observed.iter().map(|(l, v)| json!({"config": l, "answer": v})).collect::<Vec<_>>(),
                    "tolerance": tol,
                }),
            );
        }
    }
    let _ = std::fs::remove_file(&file);
    let _ = std::fs::remove_file(&trace_p);
    let _ = std::fs::remove_file(&outfile_p);
    let _ = std::fs::remove_file(stem.with_extension("out"));
    let _ = std::fs::remove_file(stem.with_extension("err"));
    c.evals(calls.saturating_sub(1));
    let nontrivial = !aborted && !circ.gates.is_empty() && orc.support() >= 2;
    c.case(family, if nontrivial { Some(circ_hash(&circ)) } else { None });
    c.sample_n(6, || json!({"family": family, "index": index, "label": label, "circuit": circ_json(&circ), "support": orc.support(), "cli_calls": calls}));
}

// ------------------------------------------------------------------------------------
// malformed queries
// ------------------------------------------------------------------------------------

const MALFORMED_CLASSES: [&str; 26] = [
    "bits:bad-character",
    "bits:wrong-length",
    "bits:empty",
    "pauli:bad-character",
    "pauli:wrong-length",
    "pauli:empty",
    "file:missing",
    "file:is-a-directory",
    "file:name-not-utf8",
    "two-tasks",
    "two-methods",
    "shots:not-a-count",
    "parallel:not-a-count",
    "flag:missing-value",
    "flag:unknown",
    "out-file:unwritable",
    "qasm:syntax-error",
    "qasm:undefined-gate",
    "qasm:qubit-index-out-of-range",
    "qasm:wrong-arity",
    "qasm:conditional",
    "qasm:barrier",
    "qasm:reset",
    "qasm:bare-unitary-U",
    "qasm:empty-file",
    "no-input-file",
];

fn malformed_case(env: &Env, index: u64, r: &mut Rng) {
    let c = ctx();
    let family = "malformed";
    let class = MALFORMED_CLASSES[(index as usize) % MALFORMED_CLASSES.len()];
    // a small valid circuit with >= 2 qubits (length 1 is always a valid broadcast)
    let mut p = CircParams::unitary(4, 6, PhPool::Exact);
    p.min_qubits = 2;
    p.pp = false;
    p.ccz = false;
    let mut circ = gen_circuit(r, &p);
    if circ.gates.is_empty() {
        circ.gates.push(G::H(0));
    }
    let mut used = 0;
    circ.gates.retain(|g| {
        used += t_cost(g);
        used <= 3
    });
    let n = circ.n;
    let stem = env.dir.join(format!("{family}-{index}"));
    let file = stem.with_extension("qasm");
    let mut qasm = print_qasm(&circ);
    let good_bits: String = (0..n).map(|_| if r.chance(0.5) { '1' } else { '0' }).collect();
    let good_pauli = rand_pauli_string(r, n, 0.3);
    let cfg = Config { method: r.below(3) as u8, par: r.below(3) as u8, out: false };
    let mut input: OsString = file.clone().into();
    let mut with_cfg = true;
    // true when the query is in fact well-formed (then answering it is fine as well)
    let mut may_succeed = false;
    // task arguments
    let task: Vec<OsString> = match class {
        "bits:bad-character" => {
            let bad = *r.pick(&["2", "x", "-", " ", "é", "０", "b", "O", "l", "+", ".", "\t"]);
            let pos = r.below(n);
            let s: String = good_bits.chars().enumerate().map(|(i, ch)| if i == pos { bad.to_string() } else { ch.to_string() }).collect();
            vec!["-a".into(), s.into()]
        }
        "bits:wrong-length" => {
            let len = loop {
                let l = *r.pick(&[n + 1, n - 1, 2 * n, n + 7, 64, 65, 200]);
                if l != n && l >= 2 {
                    break l;
                }
            };
            let s: String = (0..len).map(|_| if r.chance(0.5) { '1' } else { '0' }).collect();
            vec!["-a".into(), s.into()]
        }
        "bits:empty" => vec!["-a".into(), "".into()],
        "pauli:bad-character" => {
            let bad = *r.pick(&["Q", "0", "1", "W", "+", "-", " ", "é", "Ｘ", "H", "j"]);
            let pos = r.below(n);
            let s: String = good_pauli.chars().enumerate().map(|(i, ch)| if i == pos { bad.to_string() } else { ch.to_string() }).collect();
            vec!["-e".into(), s.into()]
        }
        "pauli:wrong-length" => {
            let len = loop {
                let l = *r.pick(&[n + 1, n - 1, 2 * n, n + 7, 64, 65, 200]);
                if l != n && l >= 2 {
                    break l;
                }
            };
            vec!["-e".into(), rand_pauli_string(r, len, 0.3).into()]
        }
        "pauli:empty" => vec!["-e".into(), "".into()],
        "file:missing" => {
            input = env.dir.join(format!("does-not-exist-{index}.qasm")).into();
            random_valid_task(r, &good_bits, &good_pauli)
        }
        "file:is-a-directory" => {
            input = env.dir.clone().into();
            random_valid_task(r, &good_bits, &good_pauli)
        }
        "file:name-not-utf8" => {
            use std::os::unix::ffi::OsStringExt;
            let mut bytes = env.dir.join(format!("nonutf8-{index}-")).into_os_string().into_vec();
            bytes.extend_from_slice(&[0xff, 0xfe]);
            bytes.extend_from_slice(b".qasm");
            input = OsString::from_vec(bytes);
            // half of the time the file exists: then the query is fine apart from the name of
            // its file, and both an answer and a clean rejection are accepted (a panic is not)
            if r.chance(0.5) {
                may_succeed = std::fs::write(&input, &qasm).is_ok();
            }
            random_valid_task(r, &good_bits, &good_pauli)
        }
        "two-tasks" => {
            let mut a: Vec<Vec<OsString>> = vec![
                vec!["-a".into(), good_bits.clone().into()],
                vec!["-e".into(), good_pauli.clone().into()],
                vec!["-s".into(), "2".into()],
            ];
            let drop = r.below(4);
            if drop < 3 {
                a.remove(drop);
            }
            r.shuffle(&mut a);
            a.into_iter().flatten().collect()
        }
        "two-methods" => {
            with_cfg = false;
            let mut a: Vec<OsString> = if r.chance(0.5) { vec!["--cats".into(), "--bss".into()] } else { vec!["--bss".into(), "--cats".into()] };
            a.extend(random_valid_task(r, &good_bits, &good_pauli));
            a
        }
        "shots:not-a-count" => {
            let v = *r.pick(&["abc", "-1", "1.5", "", "1e3", "99999999999999999999999", "0x10", "٣"]);
            vec!["-s".into(), v.into()]
        }
        "parallel:not-a-count" => {
            with_cfg = false;
            let v = *r.pick(&["x", "-2", "0.5", "", "99999999999999999999999"]);
            let mut a: Vec<OsString> = vec!["--parallel".into(), v.into()];
            a.extend(random_valid_task(r, &good_bits, &good_pauli));
            a
        }
        "flag:missing-value" => {
            let f = *r.pick(&["-a", "-e", "-s", "--parallel", "-o"]);
            vec![f.into()]
        }
        "flag:unknown" => {
            let f = *r.pick(&["--foo", "-z", "--amplitudes", "--shot", "-A"]);
            let mut a = random_valid_task(r, &good_bits, &good_pauli);
            a.push(f.into());
            a
        }
        "out-file:unwritable" => {
            let mut a = random_valid_task(r, &good_bits, &good_pauli);
            a.push("-o".into());
            a.push(env.dir.join("no-such-dir").join("x.txt").into());
            a
        }
        "qasm:syntax-error" => {
            qasm = match r.below(4) {
                0 => qasm.replacen(";\nqreg", "\nqreg", 1),
                1 => format!("{qasm}h q[0"),
                2 => format!("{qasm}@@@ garbage ###;\n"),
                _ => qasm.replace("OPENQASM 2.0;", "OPENQASM ;"),
            };
            random_valid_task(r, &good_bits, &good_pauli)
        }
        "qasm:undefined-gate" => {
            let gname = *r.pick(&["foo q[0];", "pp(1*pi/4) q[0], q[1];", "u3(0,0,0) q[0];", "y q[0];"]);
            qasm += gname;
            qasm += "\n";
            random_valid_task(r, &good_bits, &good_pauli)
        }
        "qasm:qubit-index-out-of-range" => {
            qasm += &format!("h q[{}];\n", n + r.below(3));
            random_valid_task(r, &good_bits, &good_pauli)
        }
        "qasm:wrong-arity" => {
            qasm += *r.pick(&["cx q[0];\n", "h q[0], q[1];\n", "rz q[0];\n", "t(1*pi/4) q[0];\n"]);
            random_valid_task(r, &good_bits, &good_pauli)
        }
        "qasm:conditional" => {
            qasm += "creg c[1];\nif(c==1) x q[0];\n";
            random_valid_task(r, &good_bits, &good_pauli)
        }
        "qasm:barrier" => {
            qasm += "barrier q[0];\n";
            random_valid_task(r, &good_bits, &good_pauli)
        }
        "qasm:reset" => {
            qasm += "reset q[0];\n";
            random_valid_task(r, &good_bits, &good_pauli)
        }
        "qasm:bare-unitary-U" => {
            qasm += "U(0,0,0) q[0];\n";
            random_valid_task(r, &good_bits, &good_pauli)
        }
        "qasm:empty-file" => {
            qasm = String::new();
            // full-length strings only: a file without any register cannot match them
            if r.chance(0.5) {
                vec!["-a".into(), good_bits.clone().into()]
            } else {
                vec!["-e".into(), good_pauli.clone().into()]
            }
        }
        "no-input-file" => {
            input = OsString::new();
            random_valid_task(r, &good_bits, &good_pauli)
        }
        _ => unreachable!(),
    };
    if let Err(e) = std::fs::write(&file, &qasm) {
        c.harness_error(&format!("C06: cannot write {}: {e}", file.display()));
        return;
    }
    let mut args: Vec<OsString> = vec!["sim".into()];
    if class != "no-input-file" {
        args.push(input.clone());
    }
    if with_cfg {
        args.extend(cfg.args());
    }
    args.extend(task);
    let res = run_cli(env, &args, None, &stem);
    c.count(&format!("malformed:{class}"), 1);
    if let Some(e) = &res.spawn_err {
        c.harness_error(&format!("C06: cannot run the CLI: {e}"));
        return;
    }
    let shown: Vec<String> = args.iter().map(|a| a.to_string_lossy().into_owned()).collect();
    let detail = |what: &str| {
        json!({"what": what, "class": class, "args": shown, "qasm": qasm, "circuit_qubits": n, "run": res.json(),
               "expected": "a non-zero exit status, no panic"})
    };
    if res.timed_out {
        c.inconclusive("cli-timeout", detail("timeout"));
    } else if res.panicked() {
        c.violation(&format!("sim malformed|{class}|panic|{}", res.panic_site()), family, index, detail("malformed query made the CLI panic"));
    } else {
        match res.code {
            None => c.violation(&format!("sim malformed|{class}|crash|killed-by-signal"), family, index, detail("malformed query crashed the CLI")),
            Some(0) if may_succeed => c.count(&format!("odd-but-valid-query-answered:{class}"), 1),
            Some(0) => c.violation(&format!("sim malformed|{class}|accepted|exit 0"), family, index, detail("malformed query was accepted (exit code 0)")),
            Some(code) => {
                // "rejected with an error rather than a panic": any non-zero exit status is a
                // rejection; which code it is and where the message goes are not part of the
                // property (the current CLI uses 1 and 2 and writes to stderr - recorded as
                // evidence only, so that a CLI that reports errors differently is not blamed)
                c.count(&format!("malformed_exit_code:{code}"), 1);
                if res.stderr.trim().is_empty() {
                    c.count("observation:malformed_rejected_without_message_on_stderr", 1);
                } else {
                    c.count("malformed_rejected_with_message", 1);
                }
            }
        }
    }
    let _ = std::fs::remove_file(&file);
    if class == "file:name-not-utf8" {
        let _ = std::fs::remove_file(&input);
    }
    let _ = std::fs::remove_file(stem.with_extension("out"));
    let _ = std::fs::remove_file(stem.with_extension("err"));
    c.case(family, None);
    c.sample_n(8, || json!({"family": family, "index": index, "class": class, "args": shown, "exit_code": res.code, "stderr": clip(&res.stderr)}));
}

fn random_valid_task(r: &mut Rng, bits: &str, pauli: &str) -> Vec<OsString> {
    match r.below(4) {
        0 => vec!["-a".into(), bits.into()],
        1 => vec!["-e".into(), pauli.into()],
        2 => vec!["-s".into(), "2".into()],
        _ => vec![],
    }
}

// ------------------------------------------------------------------------------------
// entry point
// ------------------------------------------------------------------------------------

pub fn run() {
    let c = ctx();
    if let Err(e) = self_test() {
        c.harness_error(&format!("C06 oracle helper self-test failed: {e}"));
        return;
    }
    let Some(cli) = std::env::var_os("QVMON_CLI") else {
        c.harness_error("C06: environment variable QVMON_CLI (path of the quizx binary built with --features verif) is not set");
        return;
    };
    if !Path::new(&cli).is_file() {
        c.harness_error(&format!("C06: QVMON_CLI={} is not a file", Path::new(&cli).display()));
        return;
    }
    let dir = PathBuf::from(format!("/verif/harness/target/tmp/c06-{}", std::process::id()));
    if let Err(e) = std::fs::create_dir_all(&dir) {
        c.harness_error(&format!("C06: cannot create {}: {e}", dir.display()));
        return;
    }
    let env = Arc::new(Env { cli, dir: dir.clone() });

    // smoke test: the binary runs, answers a trivial query, and has hook H4
    {
        let bell = Circ { n: 2, gates: vec![G::H(0), G::Cx(0, 1)] };
        let stem = dir.join("smoke");
        let file = stem.with_extension("qasm");
        let _ = std::fs::write(&file, print_qasm(&bell));
        let tr = stem.with_extension("trace");
        let res = run_cli(&env, &["sim".into(), file.clone().into(), "-s".into(), "1".into()], Some(&tr), &stem);
        let trace_ok = std::fs::read_to_string(&tr).map(|t| parse_trace(&t).map(|d| d.len() == 2).unwrap_or(false)).unwrap_or(false);
        if res.spawn_err.is_some() || res.code != Some(0) {
            c.harness_error(&format!("C06: smoke run of the CLI failed: {:?}", res));
            let _ = std::fs::remove_dir_all(&dir);
            return;
        }
        if !trace_ok {
            c.harness_error("C06: the CLI did not write the H4 trace (QUIZX_VERIF_TRACE); was it built with --features verif?");
            let _ = std::fs::remove_dir_all(&dir);
            return;
        }
    }

    c.set_rule(
        "cases = generated circuits (families clifford+t, other-phases, special) each queried through the real `quizx sim` binary: 5 amplitude, 8 expectation and 1-2 sampling queries x {default,--cats,--bss} x {no flag,--parallel 1,--parallel 4} (+ one -o run); evaluations = CLI invocations; a circuit is non-trivial when it has >= 1 gate and its output distribution has >= 2 outcomes of non-zero probability (so some conditional is not 0/1); distinct = distinct circuits (64-bit hash). Family `malformed` = one rejected-query check per case (never counted as non-trivial).",
    );
    c.assume("independent gate-matrix simulator O3 (harness/src/oracle/sim.rs, f64 state vector) is correct (self-tested; Pauli/conditional helpers self-tested here)");
    c.assume("a probability <= 1e-9 counts as zero for the non-zero-probability clause; tolerances 1e-9 (all phases multiples of pi/4) and 1e-6 (other phases)");
    c.assume("hook H4 (QUIZX_VERIF_TRACE) reports exactly the probability handed to each Bernoulli draw");
    c.assume("supported gate set = gates the QASM front end declares (no `pp`); rz/rx are taken up to global phase, which none of the three query kinds can see");

    let t = c.tier;
    let (nq, depth) = t.pick((4usize, 14usize), (5usize, 22usize));
    let (n_exact, n_float, n_special, n_mal) = t.pick((160usize, 80usize, 54usize, 312usize), (2400usize, 1200usize, 360usize, 3120usize));

    {
        let env = env.clone();
        par_cases("clifford+t", n_exact, move |r, i| {
            let circ = gen_c06(r, PhPool::Exact, nq, depth);
            circuit_case(&env, "clifford+t", i, r, circ, "generated");
        });
    }
    {
        let env = env.clone();
        par_cases("other-phases", n_float, move |r, i| {
            let mut circ = gen_c06(r, PhPool::Float, nq, depth.min(12));
            // turn some diagonal gates into rotations by other angles so that circuits with
            // several non-pi/4 phases are common
            for g in circ.gates.iter_mut() {
                let q = match g {
                    G::T(q) | G::Tdg(q) | G::S(q) | G::Z(q) => *q,
                    _ => continue,
                };
                if r.chance(0.35) {
                    let d = *r.pick(&[3i64, 5, 7, 8, 16, 12, 32]);
                    let k = r.range(1, 2 * d - 1);
                    let ph = crate::gen::circuit::gen_ph(r, PhPool::Float);
                    let ph = if 4 % ph.1 == 0 { (k, d) } else { ph };
                    *g = if r.chance(0.7) { G::Rz(q, ph) } else { G::Rx(q, ph) };
                }
            }
            {
                let mut used = 0;
                circ.gates.retain(|g| {
                    used += t_cost(g);
                    used <= 9
                });
            }
            if circ.is_pi4() {
                // make sure the family really contains a phase that is not a multiple of pi/4
                let q = r.below(circ.n);
                let d = *r.pick(&[3i64, 5, 7, 8, 16, 12, 32]);
                let k = 2 * r.range(0, d - 1) + 1;
                let k = if d % 2 == 0 { k } else { r.range(1, d - 1) };
                let g = if r.chance(0.5) { G::Rz(q, (k, d)) } else { G::Rx(q, (k, d)) };
                let pos = r.below(circ.gates.len() + 1);
                circ.gates.insert(pos, g);
                // keep the non-Clifford budget
                let mut used = 0;
                circ.gates.retain(|g| {
                    used += t_cost(g);
                    used <= 9
                });
            }
            circuit_case(&env, "other-phases", i, r, circ, "generated");
        });
    }
    {
        let env = env.clone();
        par_cases("syntax-variants", t.pick(70usize, 1000usize), move |r, i| {
            let mut circ = gen_c06(r, PhPool::Exact, nq, depth.min(12));
            // rotations instead of some of the diagonal gates, within the non-Clifford budget
            let mut budget = 4usize;
            for g in circ.gates.iter_mut() {
                let q = match g {
                    G::S(q) | G::Z(q) | G::Sdg(q) => *q,
                    _ => continue,
                };
                if budget > 0 && r.chance(0.4) {
                    budget -= 1;
                    let ph = (r.range(-3, 4), 4);
                    *g = if r.chance(0.6) { G::Rz(q, ph) } else { G::Rx(q, ph) };
                }
            }
            let mut used = 0;
            circ.gates.retain(|g| {
                used += t_cost(g);
                used <= 9
            });
            circuit_case(&env, "syntax-variants", i, r, circ, "generated");
        });
    }
    {
        let env = env.clone();
        par_cases("special", n_special, move |r, i| {
            let sp = special_circuits();
            let (label, circ) = sp[(i as usize) % sp.len()].clone();
            circuit_case(&env, "special", i, r, circ, label);
        });
    }
    {
        let env = env.clone();
        par_cases("malformed", n_mal, move |r, i| {
            malformed_case(&env, i, r);
        });
    }
    c.extra("exhaustive", json!(false));
    c.extra("cli", json!(env.cli.to_string_lossy()));
    let _ = std::fs::remove_dir_all(&dir);
}

//! C18 -- monitor (to be written)
use crate::fw::ctx;

pub fn run() {
    ctx().harness_error("C18 monitor not implemented yet");
}

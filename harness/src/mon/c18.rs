//! C18 -- rank-decomposition trees (`quizx::rankwidth`).
//!
//! Events: DecompTree::random_decomp on a generated graph, then a history of moves
//! {swap_random_leaves, random_local_swap, move_random_subtree}, each driven by a seeded
//! `rand` generator; RankwidthAnnealer::run over a parameter grid; the rank_decomp wrapper.
//! After the construction and after EVERY move the harness checks:
//!   1. no panic;
//!   2. structure, read from the public `nodes` / `leaves` / `interior` fields only: leaf
//!      labels are exactly the graph's vertices (bijection), interior nodes have three
//!      distinct neighbours, adjacency symmetric, connected, |E| = |N| - 1, index lists
//!      consistent with the node array;
//!   3. is_valid_for_graph() == true;
//!   4. rankwidth()/rankwidth_score() on the tree as it is (cache in whatever state the
//!      history left it) == the same on a clone after clear_ranks() == brute force: for every
//!      tree edge the harness computes the leaf bipartition by its own traversal and the rank
//!      over F2 of the biadjacency matrix with `oracle::f2` (adjacency taken from the
//!      generator's edge list, not from quizx);
//!   5. every cache entry visible through rank(e) belongs to a current tree edge and holds
//!      that edge's current cut rank (the invariant in the property's `state` anchor).
//! Annealer: returns without panic, result passes 2-4, brute-force width(result) <=
//! brute-force width(initial tree).

use crate::fw::{ctx, guarded, par_cases, Caught};
use crate::gen::prng::Rng;
use crate::oracle::f2::F2;
use quizx::graph::{EType, GraphLike, VType, V};
use quizx::rankwidth::annealer::RankwidthAnnealer;
use quizx::rankwidth::decomp_tree::{DecompNode, DecompTree};
use rand::rngs::{SmallRng, StdRng};
use rand::{RngCore, SeedableRng};
use serde_json::{json, Value};
use std::collections::BTreeMap;

// ----------------------------------------------------------------------------------------
// rand generators handed to the code under test
// ----------------------------------------------------------------------------------------

pub enum AnyRng {
    Small(SmallRng),
    Std(StdRng),
    /// the harness's own xoshiro256** behind the RngCore interface
    Own(Rng),
}

pub const RNG_KINDS: [&str; 3] = ["SmallRng", "StdRng", "harness-xoshiro"];

impl AnyRng {
    pub fn new(kind: usize, seed: u64) -> AnyRng {
        match kind {
            0 => AnyRng::Small(SmallRng::seed_from_u64(seed)),
            1 => AnyRng::Std(StdRng::seed_from_u64(seed)),
            _ => AnyRng::Own(Rng::new(seed)),
        }
    }
}

impl RngCore for AnyRng {
    fn next_u32(&mut self) -> u32 {
        match self {
            AnyRng::Small(r) => r.next_u32(),
            AnyRng::Std(r) => r.next_u32(),
            AnyRng::Own(r) => (r.next_u64() >> 32) as u32,
        }
    }
    fn next_u64(&mut self) -> u64 {
        match self {
            AnyRng::Small(r) => r.next_u64(),
            AnyRng::Std(r) => r.next_u64(),
            AnyRng::Own(r) => r.next_u64(),
        }
    }
    fn fill_bytes(&mut self, dst: &mut [u8]) {
        match self {
            AnyRng::Small(r) => r.fill_bytes(dst),
            AnyRng::Std(r) => r.fill_bytes(dst),
            AnyRng::Own(r) => {
                for ch in dst.chunks_mut(8) {
                    let b = r.next_u64().to_le_bytes();
                    ch.copy_from_slice(&b[..ch.len()]);
                }
            }
        }
    }
}

fn pick_seed(r: &mut Rng) -> u64 {
    match r.below(8) {
        0 => 0,
        1 => u64::MAX,
        2 => r.below(100) as u64,
        _ => r.next_u64(),
    }
}

// ----------------------------------------------------------------------------------------
// graphs
// ----------------------------------------------------------------------------------------

#[derive(Clone, Debug)]
pub struct GDesc {
    pub class: &'static str,
    pub n: usize,
    /// edges over abstract vertices 0..n, a < b, no duplicates
    pub edges: Vec<(usize, usize)>,
    /// 0 vec_graph, 1 vec_graph with removed vertices between the kept ones, 2 hash_graph
    pub backend: usize,
    /// with backend 1: total number of slots and which slots are kept (len n, increasing)
    pub slots: Vec<usize>,
    pub total_slots: usize,
    /// decoration that must not matter: vertex colours and edge types
    pub deco: u64,
}

pub const BACKENDS: [&str; 3] = ["vec", "vec-with-holes", "hash"];

impl GDesc {
    fn to_json(&self) -> Value {
        json!({"class": self.class, "n": self.n, "edges": self.edges, "backend": BACKENDS[self.backend], "slots": self.slots, "total_slots": self.total_slots, "deco": self.deco})
    }
    fn hash(&self) -> u64 {
        let mut h = 0xcbf29ce484222325u64 ^ (self.n as u64) ^ ((self.backend as u64) << 8);
        for &(a, b) in &self.edges {
            h = (h ^ ((a * 64 + b) as u64)).wrapping_mul(0x100000001b3);
        }
        for &s in &self.slots {
            h = (h ^ (s as u64 + 1000)).wrapping_mul(0x100000001b3);
        }
        h
    }
    /// Build as a quizx graph; returns the quizx id of every abstract vertex.
    fn build<G: GraphLike>(&self) -> (G, Vec<V>) {
        let mut g = G::new();
        let mut all = vec![];
        for k in 0..self.total_slots {
            let ty = if (self.deco >> (k % 60)) & 1 == 1 { VType::X } else { VType::Z };
            all.push(g.add_vertex(ty));
        }
        let ids: Vec<V> = self.slots.iter().map(|&s| all[s]).collect();
        for (k, &(a, b)) in self.edges.iter().enumerate() {
            let et = if (self.deco.rotate_left(17) >> (k % 60)) & 1 == 1 { EType::H } else { EType::N };
            g.add_edge_with_type(ids[a], ids[b], et);
        }
        for k in 0..self.total_slots {
            if !self.slots.contains(&k) {
                g.remove_vertex(all[k]);
            }
        }
        (g, ids)
    }
}

pub const CLASSES: [&str; 13] = [
    "edgeless",
    "complete",
    "path",
    "cycle",
    "star",
    "gnp-sparse",
    "gnp-half",
    "gnp-dense",
    "complete-bipartite",
    "random-tree",
    "union-of-cliques",
    "single-edge",
    "perfect-matching",
];

fn finish_graph(r: &mut Rng, class: &'static str, n: usize, mut raw: Vec<(usize, usize)>) -> GDesc {
    // random relabelling so that structure is not aligned with vertex order
    let mut perm: Vec<usize> = (0..n).collect();
    r.shuffle(&mut perm);
    for e in raw.iter_mut() {
        let (a, b) = (perm[e.0], perm[e.1]);
        *e = (a.min(b), a.max(b));
    }
    raw.sort();
    raw.dedup();
    raw.retain(|e| e.0 != e.1);
    let backend = r.below(3);
    let (slots, total) = if backend == 1 {
        let extra = 1 + r.below(5);
        let total = n + extra;
        let mut pos: Vec<usize> = (0..total).collect();
        r.shuffle(&mut pos);
        let mut keep: Vec<usize> = pos[..n].to_vec();
        keep.sort();
        (keep, total)
    } else {
        ((0..n).collect(), n)
    };
    GDesc { class, n, edges: raw, backend, slots, total_slots: total, deco: r.next_u64() }
}

fn gen_graph(r: &mut Rng, max_n: usize) -> GDesc {
    // n = 2..4 is also covered exhaustively by the family history-all-small-graphs
    let n = match r.below(20) {
        0 => 2,
        1 => 3,
        2 => 4,
        _ => 2 + r.below(max_n - 1),
    };
    let class = CLASSES[r.below(CLASSES.len())];
    gen_graph_with(r, class, n)
}

fn gen_graph_with(r: &mut Rng, class: &'static str, n: usize) -> GDesc {
    let mut e = vec![];
    let gnp = |r: &mut Rng, p: f64| {
        let mut e = vec![];
        for a in 0..n {
            for b in a + 1..n {
                if r.chance(p) {
                    e.push((a, b));
                }
            }
        }
        e
    };
    match class {
        "edgeless" => {}
        "complete" => e = gnp(r, 2.0),
        "path" => e = (0..n - 1).map(|i| (i, i + 1)).collect(),
        "cycle" => {
            e = (0..n - 1).map(|i| (i, i + 1)).collect();
            if n >= 3 {
                e.push((0, n - 1));
            }
        }
        "star" => e = (1..n).map(|i| (0, i)).collect(),
        "gnp-sparse" => e = gnp(r, 0.15),
        "gnp-half" => e = gnp(r, 0.5),
        "gnp-dense" => e = gnp(r, 0.85),
        "complete-bipartite" => {
            let k = 1 + r.below(n - 1);
            for a in 0..k {
                for b in k..n {
                    e.push((a, b));
                }
            }
        }
        "random-tree" => e = (1..n).map(|i| (r.below(i), i)).collect(),
        "union-of-cliques" => {
            let parts = 1 + r.below(3.min(n));
            let col: Vec<usize> = (0..n).map(|_| r.below(parts)).collect();
            for a in 0..n {
                for b in a + 1..n {
                    if col[a] == col[b] {
                        e.push((a, b));
                    }
                }
            }
        }
        "single-edge" => e.push((0, 1)),
        _ => e = (0..n / 2).map(|i| (2 * i, 2 * i + 1)).collect(),
    }
    finish_graph(r, class, n, e)
}

/// The harness's own view of the graph: adjacency masks over abstract vertices, keyed by V.
struct GraphOracle {
    n: usize,
    /// adjacency bit masks (graphs with at most 64 vertices)
    adj: Vec<u64>,
    /// adjacency bit rows for larger graphs (`oracle::f2small` rows), empty otherwise
    adj_big: Vec<crate::oracle::f2small::Row>,
    verts_sorted: Vec<V>,
    index_of: BTreeMap<V, usize>,
}

impl GraphOracle {
    fn new(d: &GDesc, ids: &[V]) -> GraphOracle {
        use crate::oracle::f2small as fs;
        let mut adj = vec![0u64; d.n];
        let mut adj_big = vec![];
        if d.n <= 64 {
            for &(a, b) in &d.edges {
                adj[a] |= 1 << b;
                adj[b] |= 1 << a;
            }
        } else {
            adj_big = vec![fs::zero_row(d.n); d.n];
            for &(a, b) in &d.edges {
                fs::set(&mut adj_big[a], b, true);
                fs::set(&mut adj_big[b], a, true);
            }
        }
        let mut vs = ids.to_vec();
        vs.sort();
        GraphOracle { n: d.n, adj, adj_big, verts_sorted: vs, index_of: ids.iter().enumerate().map(|(k, &v)| (v, k)).collect() }
    }
    /// the same for graphs with more than 64 vertices: `side` as a bit row
    fn cut_rank_big(&self, side: &crate::oracle::f2small::Row) -> usize {
        use crate::oracle::f2small as fs;
        let rows: Vec<fs::Row> = (0..self.n)
            .filter(|&a| fs::get(side, a))
            .map(|a| self.adj_big[a].iter().zip(side.iter()).map(|(x, s)| x & !s).collect())
            .collect();
        fs::rank(&rows, self.n)
    }
    /// rank over F2 of the biadjacency matrix between `side` and its complement
    fn cut_rank(&self, side: u64) -> usize {
        let rows: Vec<u64> = (0..self.n).filter(|&a| (side >> a) & 1 == 1).map(|a| self.adj[a] & !side).collect();
        F2 { rows: rows.len(), cols: self.n, r: rows }.rank()
    }
}

// ----------------------------------------------------------------------------------------
// the harness's reading of a tree
// ----------------------------------------------------------------------------------------

fn tree_json(t: &DecompTree) -> Value {
    json!({
        "nodes": t.nodes.iter().map(|n| match n {
            DecompNode::Leaf([p], v) => json!({"leaf": v, "nb": [p]}),
            DecompNode::Interior(nb) => json!({"nb": nb}),
        }).collect::<Vec<_>>(),
        "leaves": t.leaves,
        "interior": t.interior,
    })
}

fn nbrs(n: &DecompNode) -> Vec<usize> {
    match n {
        DecompNode::Leaf([p], _) => vec![*p],
        DecompNode::Interior(nb) => nb.to_vec(),
    }
}

/// Structural well-formedness; Err((tag for the signature, explanation)).
fn check_structure(t: &DecompTree, go: &GraphOracle) -> Result<(), (&'static str, String)> {
    let nn = t.nodes.len();
    let n = go.n;
    if nn != 2 * n - 2 {
        return Err(("node-count", format!("{nn} nodes for {n} vertices, a cubic tree has {}", 2 * n - 2)));
    }
    let mut labels = vec![];
    let mut leaf_idx = vec![];
    let mut int_idx = vec![];
    for (i, node) in t.nodes.iter().enumerate() {
        match node {
            DecompNode::Leaf(_, v) => {
                labels.push(*v);
                leaf_idx.push(i);
            }
            DecompNode::Interior(_) => int_idx.push(i),
        }
    }
    let mut l = t.leaves.clone();
    l.sort();
    if l != leaf_idx {
        return Err(("leaves-index-list", format!("`leaves` = {:?} but the leaf nodes are {leaf_idx:?}", t.leaves)));
    }
    let mut l = t.interior.clone();
    l.sort();
    if l != int_idx {
        return Err(("interior-index-list", format!("`interior` = {:?} but the interior nodes are {int_idx:?}", t.interior)));
    }
    labels.sort();
    if labels != go.verts_sorted {
        return Err(("leaves-not-bijective-with-vertices", format!("leaf labels {labels:?} vs graph vertices {:?}", go.verts_sorted)));
    }
    let mut deg_sum = 0;
    for (i, node) in t.nodes.iter().enumerate() {
        let nb = nbrs(node);
        deg_sum += nb.len();
        for &j in &nb {
            if j >= nn {
                return Err(("neighbour-out-of-range", format!("node {i} lists neighbour {j}")));
            }
            if j == i {
                return Err(("self-neighbour", format!("node {i} lists itself")));
            }
        }
        if nb.len() == 3 && (nb[0] == nb[1] || nb[0] == nb[2] || nb[1] == nb[2]) {
            return Err(("interior-neighbours-not-distinct", format!("node {i} has neighbours {nb:?}")));
        }
    }
    for (i, node) in t.nodes.iter().enumerate() {
        for j in nbrs(node) {
            if !nbrs(&t.nodes[j]).contains(&i) {
                return Err(("adjacency-asymmetric", format!("{i} lists {j} but {j} does not list {i}")));
            }
        }
    }
    if deg_sum != 2 * (nn - 1) {
        return Err(("edge-count", format!("{} half-edges for {nn} nodes", deg_sum)));
    }
    let mut seen = vec![false; nn];
    let mut stack = vec![0usize];
    seen[0] = true;
    while let Some(i) = stack.pop() {
        for j in nbrs(&t.nodes[i]) {
            if !seen[j] {
                seen[j] = true;
                stack.push(j);
            }
        }
    }
    if seen.iter().any(|s| !s) {
        return Err(("disconnected", format!("nodes {:?} not reachable from node 0", seen.iter().enumerate().filter(|(_, s)| !**s).map(|(i, _)| i).collect::<Vec<_>>())));
    }
    Ok(())
}

/// Brute-force cut ranks of a structurally valid tree: edge (i<j) -> rank.
fn brute_ranks(t: &DecompTree, go: &GraphOracle) -> BTreeMap<(usize, usize), usize> {
    let mut out = BTreeMap::new();
    for i in 0..t.nodes.len() {
        for j in nbrs(&t.nodes[i]) {
            if i < j && go.n > 64 {
                use crate::oracle::f2small as fs;
                let mut side = fs::zero_row(go.n);
                let mut stack = vec![(i, j)];
                while let Some((x, from)) = stack.pop() {
                    if let DecompNode::Leaf(_, v) = &t.nodes[x] {
                        fs::set(&mut side, go.index_of[v], true);
                    }
                    for y in nbrs(&t.nodes[x]) {
                        if y != from {
                            stack.push((y, x));
                        }
                    }
                }
                out.insert((i, j), go.cut_rank_big(&side));
            } else if i < j {
                // leaves on i's side when the edge {i,j} is removed
                let mut side = 0u64;
                let mut stack = vec![(i, j)];
                while let Some((x, from)) = stack.pop() {
                    if let DecompNode::Leaf(_, v) = &t.nodes[x] {
                        side |= 1u64 << go.index_of[v];
                    }
                    for y in nbrs(&t.nodes[x]) {
                        if y != from {
                            stack.push((y, x));
                        }
                    }
                }
                out.insert((i, j), go.cut_rank(side));
            }
        }
    }
    out
}

fn width_score(b: &BTreeMap<(usize, usize), usize>) -> (usize, usize) {
    (b.values().copied().max().unwrap_or(0), b.values().map(|r| r * r).sum())
}

// ----------------------------------------------------------------------------------------
// observation after construction / after a move
// ----------------------------------------------------------------------------------------

struct Obs<'a, G: GraphLike> {
    family: &'static str,
    index: u64,
    g: &'a G,
    go: &'a GraphOracle,
    ctx_json: &'a Value,
}

#[derive(Default)]
struct Stats(BTreeMap<String, u64>);
impl Stats {
    fn add(&mut self, k: &str, n: u64) {
        *self.0.entry(k.to_string()).or_default() += n;
    }
    fn flush(self) {
        for (k, v) in self.0 {
            ctx().count(&k, v);
        }
    }
}

impl<G: GraphLike> Obs<'_, G> {
    fn viol(&self, sig: &str, what: &str, history: &[&'static str], before: Option<&DecompTree>, after: &DecompTree, extra: Value) {
        ctx().violation(
            sig,
            self.family,
            self.index,
            json!({"what": what, "case": self.ctx_json, "moves_so_far": history, "number_of_moves": history.len(),
                   "tree_before_last_move": before.map(tree_json), "tree_now": tree_json(after), "extra": extra}),
        );
    }

    /// All checks on the tree as it is now. `kind` names the operation that produced it.
    /// Returns false if anything fired (the caller stops the history to avoid cascades).
    fn observe(&self, kind: &str, t: &DecompTree, history: &[&'static str], before: Option<&DecompTree>, st: &mut Stats) -> bool {
        let c = ctx();
        if let Err((tag, why)) = check_structure(t, self.go) {
            self.viol(&format!("{kind}|structure|{tag}"), "tree is not a cubic tree over the graph's vertices", history, before, t, json!(why));
            return false;
        }
        match guarded(|| t.is_valid_for_graph(self.g)) {
            Ok(true) => {}
            Ok(false) => {
                self.viol(&format!("{kind}|is_valid_for_graph-false"), "is_valid_for_graph() is false on a structurally valid tree", history, before, t, json!(null));
                return false;
            }
            Err(Caught::Oracle(m)) => {
                c.inconclusive("oracle-error", json!({"msg": m}));
                return false;
            }
            Err(p) => {
                self.viol(&format!("is_valid_for_graph|panic|{}", p.site()), "panic", history, before, t, json!(p.text()));
                return false;
            }
        }
        let brute = brute_ranks(t, self.go);
        let (bw, bs) = width_score(&brute);
        let nn = t.nodes.len();
        // cache entries visible through rank(e), on a clone so the real cache is untouched
        // (does not stop the observation: the reported width/score below is the property's own clause)
        let mut probe = t.clone();
        let mut cached = 0;
        let mut stale = false;
        for i in 0..nn {
            for j in i + 1..nn {
                if let Some(rk) = probe.rank((i, j)) {
                    cached += 1;
                    match brute.get(&(i, j)) {
                        None => {
                            // an entry for a pair that is not an edge of the current tree is
                            // only a latent problem: the property is about the REPORTED width
                            // and score (judged below), and an implementation that validates
                            // or recomputes entries on read would be blamed here. Observed.
                            let _ = rk;
                            st.add("observation:cache-entry-for-a-non-edge", 1);
                            stale = true;
                        }
                        Some(&b) if b != rk => {
                            self.viol(
                                &format!("{kind}|stale-cache-entry|wrong-rank-for-current-edge"),
                                "the rank cache holds a value that is not the cut rank of that edge's current bipartition",
                                history, before, t, json!({"edge": [i, j], "cached_rank": rk, "brute_force_rank": b}),
                            );
                            stale = true;
                        }
                        _ => {}
                    }
                }
            }
        }
        st.add(
            if cached == 0 { "cache-state-at-observation:empty" } else if cached == brute.len() { "cache-state-at-observation:full" } else { "cache-state-at-observation:partial" },
            1,
        );
        // reported values: tree as is (clone carries the cache), cleared clone, brute force
        let mut as_is = t.clone();
        let mut cleared = t.clone();
        let r = guarded(|| {
            let w = as_is.rankwidth(self.g);
            let s = as_is.rankwidth_score(self.g);
            cleared.clear_ranks();
            let w2 = cleared.rankwidth(self.g);
            let s2 = cleared.rankwidth_score(self.g);
            (w, s, w2, s2)
        });
        let (w, s, w2, s2) = match r {
            Ok(x) => x,
            Err(Caught::Oracle(m)) => {
                c.inconclusive("oracle-error", json!({"msg": m}));
                return false;
            }
            Err(p) => {
                self.viol(&format!("rankwidth|panic|{}", p.site()), "panic in rankwidth()/rankwidth_score()", history, before, t, json!(p.text()));
                return false;
            }
        };
        st.add("width-comparisons", 1);
        if stale {
            st.add(if w != w2 || s != s2 { "stale-cache-entry:visible-in-reported-width-or-score" } else { "stale-cache-entry:not-visible-in-reported-values" }, 1);
        }
        let vals = json!({"cached": {"width": w, "score": s}, "after_clear_ranks": {"width": w2, "score": s2}, "brute_force": {"width": bw, "score": bs},
                          "brute_force_cut_ranks": brute.iter().map(|(e, r)| json!([e.0, e.1, r])).collect::<Vec<_>>()});
        let mut ok = true;
        if w2 != bw {
            self.viol("rankwidth|recomputed-differs-from-brute-force", "rankwidth() after clear_ranks() != brute-force width", history, before, t, vals.clone());
            ok = false;
        }
        if s2 != bs {
            self.viol("rankwidth_score|recomputed-differs-from-brute-force", "rankwidth_score() after clear_ranks() != brute-force score", history, before, t, vals.clone());
            ok = false;
        }
        if w != w2 {
            self.viol(&format!("{kind}|cached-rankwidth-differs-from-recomputed"), "rankwidth() from the incrementally invalidated cache != recomputed from scratch", history, before, t, vals.clone());
            ok = false;
        }
        if s != s2 {
            self.viol(&format!("{kind}|cached-score-differs-from-recomputed"), "rankwidth_score() from the incrementally invalidated cache != recomputed from scratch", history, before, t, vals.clone());
            ok = false;
        }
        c.maximum("max_width_seen", bw as u64);
        ok && !stale
    }
}

fn panic_cond(e: &Caught, n: usize, edgeless: bool) -> &'static str {
    let txt = e.text();
    if txt.contains("NaN") || txt.contains("outside range") || txt.contains("InvalidProbability") {
        if edgeless {
            "edgeless-graph"
        } else {
            "graph-with-edges"
        }
    } else if n == 2 {
        "two-vertex-graph"
    } else {
        "three-or-more-vertices"
    }
}

/// One signature per root cause: keyed by where the panic is raised (file + message) and the
/// condition on the input, NOT by the entry point through which it was reached (a panic in
/// swap_random_leaves is the same defect whether a history, the annealer or rank_decomp
/// called it). The entry point is counted (`panic-entry:*`) and kept in the detail.
fn panic_sig(entry: &str, e: &Caught, n: usize, edgeless: bool) -> String {
    ctx().count(&format!("panic-entry:{entry}"), 1);
    let site = e.site();
    let (file, msg) = site.split_once(':').unwrap_or((site.as_str(), ""));
    format!("{file}|panic:{msg}|{}", panic_cond(e, n, edgeless))
}

pub const MOVES: [&str; 3] = ["swap_random_leaves", "random_local_swap", "move_random_subtree"];

/// weights (leaf swap, local swap, subtree move)
const PROFILES: [(&str, [usize; 3]); 5] = [
    ("uniform", [1, 1, 1]),
    ("annealer-1-4-5", [1, 4, 5]),
    ("leaf-swap-heavy", [6, 1, 1]),
    ("local-swap-heavy", [1, 6, 1]),
    ("no-subtree-move", [1, 1, 0]), // move_random_subtree clears the whole cache; without it entries live long
];

struct HistoryPlan {
    rng_kind: usize,
    decomp_seed: u64,
    move_seed: u64,
    len: usize,
    profile: usize,
    /// probability of also querying the real tree after a move (fills its cache)
    query_p: f64,
    first_move: Option<usize>,
}

fn run_history<G: GraphLike>(family: &'static str, index: u64, r: &mut Rng, gd: &GDesc, plan: &HistoryPlan) {
    let c = ctx();
    let mut st = Stats::default();
    let (g, ids): (G, Vec<V>) = gd.build();
    let go = GraphOracle::new(gd, &ids);
    let edgeless = gd.edges.is_empty();
    let cj = json!({"graph": gd.to_json(), "vertex_ids": ids, "rng": RNG_KINDS[plan.rng_kind], "decomp_seed": plan.decomp_seed, "move_seed": plan.move_seed,
                    "profile": PROFILES[plan.profile].0, "query_probability": plan.query_p, "planned_moves": plan.len});
    let obs = Obs { family, index, g: &g, go: &go, ctx_json: &cj };
    let mut drng = AnyRng::new(plan.rng_kind, plan.decomp_seed);
    let mut tree = match guarded(|| DecompTree::random_decomp(&g, &mut drng)) {
        Ok(t) => t,
        Err(Caught::Oracle(m)) => {
            c.inconclusive("oracle-error", json!({"msg": m}));
            return;
        }
        Err(p) => {
            c.violation(&panic_sig("random_decomp", &p, gd.n, edgeless), family, index, json!({"what": "panic", "entry_point": "DecompTree::random_decomp", "case": cj, "panic": p.text()}));
            return;
        }
    };
    st.add("op:random_decomp", 1);
    let mut history: Vec<&'static str> = vec![];
    let mut effective = 0u64;
    let mut ok = obs.observe("random_decomp", &tree, &history, None, &mut st);
    let mut mrng = AnyRng::new(plan.rng_kind, plan.move_seed);
    let w = PROFILES[plan.profile].1;
    let wsum: usize = w.iter().sum();
    let mut step = 0;
    while ok && step < plan.len {
        let kind = match (step, plan.first_move) {
            (0, Some(k)) => k,
            _ => {
                let mut x = r.below(wsum);
                let mut k = 0;
                while x >= w[k] {
                    x -= w[k];
                    k += 1;
                }
                k
            }
        };
        let name = MOVES[kind];
        let before = tree.clone();
        let res = guarded(|| match kind {
            0 => tree.swap_random_leaves(&mut mrng),
            1 => tree.random_local_swap(&mut mrng),
            _ => tree.move_random_subtree(&mut mrng),
        });
        history.push(name);
        st.add(&format!("move:{name}"), 1);
        match res {
            Ok(()) => {}
            Err(Caught::Oracle(m)) => {
                c.inconclusive("oracle-error", json!({"msg": m}));
                break;
            }
            Err(p) => {
                obs.viol(&panic_sig(name, &p, gd.n, edgeless), &format!("panic in DecompTree::{name}"), &history, Some(&before), &tree, json!(p.text()));
                break;
            }
        }
        if tree.nodes != before.nodes {
            st.add(&format!("move-changed-the-tree:{name}"), 1);
            effective += 1;
        }
        ok = obs.observe(name, &tree, &history, Some(&before), &mut st);
        if ok && r.chance(plan.query_p) {
            // the real tree answers a query, so its cache fills up as it would in the annealer
            let (bw, bs) = width_score(&brute_ranks(&tree, &go));
            match guarded(|| (tree.rankwidth(&g), tree.rankwidth_score(&g))) {
                Ok((w_, s_)) => {
                    st.add("queries-on-the-live-tree", 1);
                    if w_ != bw || s_ != bs {
                        obs.viol(&format!("{name}|live-tree-query-differs-from-brute-force"), "rankwidth()/score on the live tree != brute force", &history, Some(&before), &tree,
                            json!({"observed": [w_, s_], "brute_force": [bw, bs]}));
                        ok = false;
                    }
                }
                Err(Caught::Oracle(m)) => c.inconclusive("oracle-error", json!({"msg": m})),
                Err(p) => {
                    obs.viol(&format!("rankwidth|panic|{}", p.site()), "panic", &history, Some(&before), &tree, json!(p.text()));
                    ok = false;
                }
            }
        }
        step += 1;
    }
    st.add(&format!("graphs:class:{}", gd.class), 1);
    st.add(&format!("graphs:n={:02}", gd.n), 1);
    st.add(&format!("graphs:backend:{}", BACKENDS[gd.backend]), 1);
    st.add(&format!("histories:rng:{}", RNG_KINDS[plan.rng_kind]), 1);
    st.add(&format!("histories:profile:{}", PROFILES[plan.profile].0), 1);
    c.maximum("max_history_length", history.len() as u64);
    st.flush();
    let nontrivial = gd.n >= 4 && !edgeless && effective >= 1;
    c.case(family, if nontrivial { Some(gd.hash() ^ plan.decomp_seed.rotate_left(7) ^ plan.move_seed.rotate_left(29) ^ (history.len() as u64) << 50) } else { None });
    c.sample_n(4, || json!({"family": family, "index": index, "case": cj, "moves": history.len(), "moves_that_changed_the_tree": effective}));
}

fn dispatch_history(family: &'static str, index: u64, r: &mut Rng, gd: &GDesc, plan: &HistoryPlan) {
    if gd.backend == 2 {
        run_history::<quizx::hash_graph::Graph>(family, index, r, gd, plan)
    } else {
        run_history::<quizx::vec_graph::Graph>(family, index, r, gd, plan)
    }
}

// ----------------------------------------------------------------------------------------
// annealer
// ----------------------------------------------------------------------------------------

#[derive(Clone, Copy, Debug)]
struct AnnealParams {
    iterations: usize,
    init_temp: f64,
    min_temp: f64,
    cooling: f64,
    adaptive: bool,
    /// true: RankwidthAnnealer::new (draws its own initial tree); false: new_with_decomp
    ctor_new: bool,
    defaults: bool,
}

thread_local! {
    /// third way of installing the starting tree: `new` followed by `set_init_decomp` with the
    /// narrowest of a dozen random trees (what the Python binding does); chosen per case by
    /// the families that want it, read by `run_annealer`
    static USE_SETTER: std::cell::Cell<bool> = const { std::cell::Cell::new(false) };
}

const G_ITER: [usize; 5] = [0, 1, 30, 200, 1000];
const G_T0: [f64; 3] = [0.1, 5.0, 100.0];
const G_TMIN: [f64; 3] = [0.001, 0.05, 1.0];
const G_COOL: [f64; 3] = [0.5, 0.95, 1.0];

fn grid_size() -> usize {
    G_ITER.len() * G_T0.len() * G_TMIN.len() * G_COOL.len() * 2
}

fn grid_point(mut k: usize) -> AnnealParams {
    let it = G_ITER[k % G_ITER.len()];
    k /= G_ITER.len();
    let t0 = G_T0[k % 3];
    k /= 3;
    let tm = G_TMIN[k % 3];
    k /= 3;
    let co = G_COOL[k % 3];
    k /= 3;
    AnnealParams { iterations: it, init_temp: t0, min_temp: tm, cooling: co, adaptive: k % 2 == 0, ctor_new: true, defaults: false }
}

fn run_annealer<G: GraphLike>(family: &'static str, index: u64, gd: &GDesc, p: AnnealParams, rng_kind: usize, seed: u64, seed2: u64) {
    let c = ctx();
    let mut st = Stats::default();
    let (g, ids): (G, Vec<V>) = gd.build();
    let go = GraphOracle::new(gd, &ids);
    let edgeless = gd.edges.is_empty();
    let cj = json!({"graph": gd.to_json(), "vertex_ids": ids, "rng": RNG_KINDS[rng_kind], "seed": seed, "init_decomp_seed": seed2,
                    "params": {"iterations": p.iterations, "init_temp": p.init_temp, "min_temp": p.min_temp, "cooling_rate": p.cooling, "adaptive_cooling": p.adaptive,
                               "constructor": if USE_SETTER.with(|u| u.get()) { "new+set_init_decomp(narrowest of 12 random trees)" } else if p.ctor_new { "new" } else { "new_with_decomp" }, "library_defaults": p.defaults}});
    let obs = Obs { family, index, g: &g, go: &go, ctx_json: &cj };
    let use_setter = USE_SETTER.with(|u| u.replace(false));
    let built = guarded(|| {
        let mut a = if use_setter {
            let mut a = RankwidthAnnealer::new(g.clone(), AnyRng::new(rng_kind, seed));
            let mut rr = AnyRng::new(rng_kind, seed2);
            let mut best: Option<(usize, DecompTree)> = None;
            for _ in 0..12 {
                let t = DecompTree::random_decomp(&g, &mut rr);
                let w = width_score(&brute_ranks(&t, &go)).0;
                if best.as_ref().is_none_or(|b| w < b.0) {
                    best = Some((w, t));
                }
            }
            a.set_init_decomp(best.unwrap().1);
            a
        } else if p.ctor_new {
            RankwidthAnnealer::new(g.clone(), AnyRng::new(rng_kind, seed))
        } else {
            let init = DecompTree::random_decomp(&g, &mut AnyRng::new(rng_kind, seed2));
            RankwidthAnnealer::new_with_decomp(g.clone(), init, AnyRng::new(rng_kind, seed))
        };
        if !p.defaults {
            a.set_iterations(p.iterations).set_init_temp(p.init_temp).set_min_temp(p.min_temp).set_cooling_rate(p.cooling).set_adaptive_cooling(p.adaptive);
        }
        a
    });
    let mut ann = match built {
        Ok(a) => a,
        Err(Caught::Oracle(m)) => {
            c.inconclusive("oracle-error", json!({"msg": m}));
            return;
        }
        Err(e) => {
            c.violation(&panic_sig("annealer.new", &e, gd.n, edgeless), family, index, json!({"what": "panic", "entry_point": "RankwidthAnnealer::new / new_with_decomp", "case": cj, "panic": e.text()}));
            return;
        }
    };
    if !p.defaults && (ann.iterations() != p.iterations || ann.init_temp() != p.init_temp || ann.min_temp() != p.min_temp || ann.cooling_rate() != p.cooling || ann.adaptive_cooling() != p.adaptive) {
        c.violation("annealer.setters|getter-disagrees-with-setter", family, index, json!({"case": cj}));
    }
    let init = ann.init_decomp().clone();
    if !obs.observe("annealer.init_decomp", &init, &[], None, &mut st) {
        st.flush();
        return;
    }
    let (w0, _s0) = width_score(&brute_ranks(&init, &go));
    let res = guarded(|| ann.run());
    st.add("op:annealer.run", 1);
    st.add(&format!("annealer:iterations={:04}", if p.defaults { 1000 } else { p.iterations }), 1);
    st.add(&format!("annealer:adaptive={}", if p.defaults { true } else { p.adaptive }), 1);
    st.add(&format!("annealer:constructor={}", if use_setter { "new+set_init_decomp" } else if p.ctor_new { "new" } else { "new_with_decomp" }), 1);
    st.add(&format!("annealer-graphs:class:{}", gd.class), 1);
    st.add(&format!("annealer-graphs:n={:02}", gd.n), 1);
    let mut nontrivial = false;
    match res {
        Err(Caught::Oracle(m)) => c.inconclusive("oracle-error", json!({"msg": m})),
        Err(e) => {
            obs.viol(&panic_sig("annealer.run", &e, gd.n, edgeless), "RankwidthAnnealer::run panicked", &[], None, &init, json!(e.text()));
        }
        Ok(out) => {
            if obs.observe("annealer.run", &out, &[], Some(&init), &mut st) {
                let (w1, _s1) = width_score(&brute_ranks(&out, &go));
                st.add(if w1 < w0 { "annealer:width-improved" } else { "annealer:width-equal" }, u64::from(w1 <= w0));
                if w1 > w0 {
                    obs.viol("annealer.run|width-larger-than-initial", "the returned decomposition is wider than the starting tree", &[], Some(&init), &out,
                        json!({"initial_width_brute_force": w0, "returned_width_brute_force": w1}));
                }
                nontrivial = gd.n >= 4 && !edgeless && (p.defaults || p.iterations >= 1);
                // the same annealer object run a second time (every fourth case): whatever the
                // first run left in the object, the result may not be wider than the start tree
                if index % 4 == 1 && w1 <= w0 {
                    match guarded(|| ann.run()) {
                        Err(Caught::Oracle(m)) => c.inconclusive("oracle-error", json!({"msg": m})),
                        Err(e) => obs.viol(&format!("{}|second-run", panic_sig("annealer.run", &e, gd.n, edgeless)), "RankwidthAnnealer::run panicked when called a second time on the same object", &[], None, &init, json!(e.text())),
                        Ok(out2) => {
                            st.add("op:annealer.run(second call on the same object)", 1);
                            if obs.observe("annealer.run", &out2, &[], Some(&init), &mut st) {
                                let (w2, _) = width_score(&brute_ranks(&out2, &go));
                                if w2 > w0 {
                                    obs.viol("annealer.run|width-larger-than-initial|second-run", "the decomposition returned by a second run() on the same annealer is wider than the starting tree", &[], Some(&init), &out2,
                                        json!({"initial_width_brute_force": w0, "first_run_width": w1, "second_run_width": w2}));
                                }
                            }
                        }
                    }
                }
            }
        }
    }
    st.flush();
    c.case(family, if nontrivial { Some(gd.hash() ^ seed.rotate_left(11) ^ ((p.iterations as u64) << 40) ^ (p.cooling.to_bits() >> 3) ^ p.init_temp.to_bits().rotate_left(9) ^ p.min_temp.to_bits().rotate_left(23) ^ (p.adaptive as u64)) } else { None });
    c.sample_n(6, || json!({"family": family, "index": index, "case": cj, "initial_width": w0}));
}

// ----------------------------------------------------------------------------------------
// run
// ----------------------------------------------------------------------------------------

fn self_test() -> Result<(), String> {
    // the harness's cut-rank on a hand-built tree: path a-b-c-d, tree ((a,b),(c,d))
    let gd = GDesc { class: "path", n: 4, edges: vec![(0, 1), (1, 2), (2, 3)], backend: 0, slots: vec![0, 1, 2, 3], total_slots: 4, deco: 0 };
    let (g, ids): (quizx::vec_graph::Graph, Vec<V>) = gd.build();
    if g.num_vertices() != 4 || g.num_edges() != 3 {
        return Err("graph builder".into());
    }
    let go = GraphOracle::new(&gd, &ids);
    let mut t = DecompTree::new();
    t.add_interior([1, 2, 3]); // 0
    t.add_interior([0, 4, 5]); // 1
    t.add_leaf(0, ids[0]); // 2
    t.add_leaf(0, ids[1]); // 3
    t.add_leaf(1, ids[2]); // 4
    t.add_leaf(1, ids[3]); // 5
    check_structure(&t, &go).map_err(|e| format!("structure check rejects a good tree: {e:?}"))?;
    let b = brute_ranks(&t, &go);
    let expect: BTreeMap<(usize, usize), usize> = [((0, 1), 1), ((0, 2), 1), ((0, 3), 1), ((1, 4), 1), ((1, 5), 1)].into_iter().collect();
    if b != expect {
        return Err(format!("brute ranks on the path: {b:?}"));
    }
    // K_{2,2} split the bad way has cut rank 2 only if the sides are not twins: C4 a-b-c-d-a, tree ((a,b),(c,d)) -> middle cut {a,b}|{c,d}: a~d, b~c -> rank 2
    let gd2 = GDesc { class: "cycle", n: 4, edges: vec![(0, 1), (1, 2), (2, 3), (0, 3)], backend: 0, slots: vec![0, 1, 2, 3], total_slots: 4, deco: 0 };
    let go2 = GraphOracle::new(&gd2, &ids);
    if go2.cut_rank(0b0011) != 2 || go2.cut_rank(0b0101) != 1 || go2.cut_rank(0b0001) != 1 || go2.cut_rank(0) != 0 {
        return Err("cut ranks of C4".into());
    }
    // broken trees must be rejected
    let mut bad = t.clone();
    bad.nodes[1] = DecompNode::Interior([0, 4, 4]);
    if check_structure(&bad, &go).is_ok() {
        return Err("structure check accepts a repeated neighbour".into());
    }
    let mut bad = t.clone();
    bad.nodes[5] = DecompNode::Leaf([1], ids[2]);
    if check_structure(&bad, &go).is_ok() {
        return Err("structure check accepts a repeated leaf label".into());
    }
    let mut bad = t.clone();
    bad.nodes[4] = DecompNode::Leaf([0], ids[2]);
    if check_structure(&bad, &go).is_ok() {
        return Err("structure check accepts asymmetric adjacency".into());
    }
    Ok(())
}

pub fn run() {
    let c = ctx();
    if let Err(e) = crate::oracle::f2::self_test() {
        c.harness_error(&format!("f2 oracle self-test failed: {e}"));
        return;
    }
    if let Err(e) = self_test() {
        c.harness_error(&format!("C18 harness self-test failed: {e}"));
        return;
    }
    let t = c.tier;
    c.set_rule(
        "cases = (graph, rng kind, seeds, move history) and (graph, annealer parameters, seed); evaluations counts cases, counters count every move and every width comparison; a history case is non-trivial when the graph has >= 4 vertices (all three moves are enabled), at least one edge, and at least one move changed the tree; an annealer case when n >= 4, the graph has an edge and iterations >= 1; distinct = distinct hashes of (graph, backend, seeds, length / parameters)",
    );
    c.assume("cut ranks are judged by oracle O5/f2 over bipartitions computed by the harness's own traversal of the public `nodes` array; graph adjacency is taken from the generator's edge list, not from quizx");
    c.assume("'arbitrary random seeds' = rand::SmallRng / rand::StdRng / an xoshiro256** RngCore seeded with arbitrary u64 (0, u64::MAX, small, random); degenerate non-random sources (e.g. a constant stream, on which move_random_subtree would retry forever) are not valid generators and are not used");
    c.assume("annealer parameter settings explored: iterations {0,1,30,200,1000}, init_temp {0.1,5,100}, min_temp {0.001,0.05,1}, cooling_rate {0.5,0.95,1.0}, adaptive on/off, both constructors, plus library defaults; temperatures <= 0 and cooling > 1 are treated as invalid settings and not used");
    c.assume("the cache invariant of the property's `state` anchor (entries only for current edges with current partitions) is observed through the public rank(e) accessor on a clone");
    c.assume("rank_decomp() draws from the thread-local generator and is therefore not bit-for-bit replayable; its cases are judged only on the returned tree");

    // ---- all graphs on 2..=4 (quick) / 2..=5 (thorough) vertices, every first move ----
    let small_max = t.pick(4usize, 5usize);
    let seeds_per = t.pick(6usize, 12usize);
    let mut offs = vec![0usize];
    for n in 2..=small_max {
        offs.push(offs.last().unwrap() + (1usize << (n * (n - 1) / 2)) * 3 * seeds_per);
    }
    let total_small = *offs.last().unwrap();
    let offs2 = offs.clone();
    par_cases("history-all-small-graphs", total_small, move |r, i| {
        let s = offs2.iter().rposition(|&o| o <= i as usize).unwrap();
        let n = 2 + s;
        let mut k = i as usize - offs2[s];
        let first = k % 3;
        k /= 3;
        let seed_ix = k % seeds_per;
        k /= seeds_per;
        let mask = k;
        let mut edges = vec![];
        let mut bit = 0;
        for a in 0..n {
            for b in a + 1..n {
                if (mask >> bit) & 1 == 1 {
                    edges.push((a, b));
                }
                bit += 1;
            }
        }
        let gd = GDesc { class: "all-small", n, edges, backend: seed_ix % 3, slots: if seed_ix % 3 == 1 { (1..=n).collect() } else { (0..n).collect() }, total_slots: if seed_ix % 3 == 1 { n + 2 } else { n }, deco: r.next_u64() };
        let plan = HistoryPlan { rng_kind: (seed_ix / 3) % 3, decomp_seed: seed_ix as u64, move_seed: r.next_u64(), len: 25, profile: 0, query_p: [1.0, 0.3, 0.0][(seed_ix + first) % 3], first_move: Some(first) };
        dispatch_history("history-all-small-graphs", i, r, &gd, &plan);
    });
    c.extra(
        "small_graphs_exhaustive",
        json!({"what": "every labelled graph on n vertices x each of the 3 moves as first move x seeds", "n_range": [2, small_max], "seeds_per_graph_and_first_move": seeds_per,
               "cases": total_small, "cases_run": c.get_count("op:random_decomp"), "completed": c.get_count("op:random_decomp") as usize == total_small && c.replay.is_none()}),
    );

    // ---- annealer with library defaults on every graph class, smallest sizes first ----
    let n_def = t.pick(CLASSES.len() * 9 * 2, CLASSES.len() * 9 * 12);
    par_cases("annealer-defaults", n_def, move |r, i| {
        // index-driven: class = i % 13, n grows with i so the smallest witness has the smallest index
        let want_class = CLASSES[i as usize % CLASSES.len()];
        let want_n = 2 + (i as usize / CLASSES.len()) % 9;
        let gd = gen_graph_with(r, want_class, want_n);
        let p = AnnealParams { iterations: 1000, init_temp: 5.0, min_temp: 0.01, cooling: 0.95, adaptive: true, ctor_new: (i as usize / (CLASSES.len() * 9)) % 2 == 0, defaults: true };
        let (k, s, s2) = (r.below(3), pick_seed(r), pick_seed(r));
        if gd.backend == 2 {
            run_annealer::<quizx::hash_graph::Graph>("annealer-defaults", i, &gd, p, k, s, s2)
        } else {
            run_annealer::<quizx::vec_graph::Graph>("annealer-defaults", i, &gd, p, k, s, s2)
        }
    });

    // ---- annealer: the grid, each point several times ----
    let reps = t.pick(6usize, 60usize);
    let gs = grid_size();
    par_cases("annealer-grid", gs * reps, move |r, i| {
        let mut p = grid_point(i as usize % gs);
        p.ctor_new = r.chance(0.5);
        USE_SETTER.with(|u| u.set(r.chance(0.25)));
        let mut gd = gen_graph(r, if p.iterations >= 1000 { 9 } else { 14 });
        gd.backend = if gd.backend == 1 { 1 } else { r.below(3) };
        if gd.backend != 1 {
            gd.slots = (0..gd.n).collect();
            gd.total_slots = gd.n;
        }
        let (k, s, s2) = (r.below(3), pick_seed(r), pick_seed(r));
        if gd.backend == 2 {
            run_annealer::<quizx::hash_graph::Graph>("annealer-grid", i, &gd, p, k, s, s2)
        } else {
            run_annealer::<quizx::vec_graph::Graph>("annealer-grid", i, &gd, p, k, s, s2)
        }
    });
    c.extra("annealer_grid", json!({"points": gs, "repetitions_per_point": reps, "iterations": G_ITER, "init_temp": G_T0, "min_temp": G_TMIN, "cooling_rate": G_COOL, "adaptive_cooling": [true, false]}));

    // ---- annealer: wider graphs, few iterations, hot start ----
    // With only a handful of iterations and a high temperature most moves are kept, so the
    // bookkeeping of the best tree (as opposed to the current one) decides the result; on
    // 16-30 vertices width and score (sum of squared ranks) often move in opposite
    // directions, which is what a slip in that bookkeeping needs in order to show.
    let n_wide = t.pick(2500usize, 60_000usize);
    par_cases("annealer-wide-short", n_wide, move |r, i| {
        let iterations = *r.pick(&[3usize, 5, 10, 15, 25, 40]);
        let p = AnnealParams {
            iterations,
            init_temp: *r.pick(&[5.0, 20.0, 100.0]),
            min_temp: 0.01,
            cooling: *r.pick(&[0.95, 0.99]),
            adaptive: r.chance(0.5),
            ctor_new: r.chance(0.5),
            defaults: false,
        };
        let mut gd = gen_graph(r, 30);
        if gd.n < 12 {
            gd = gen_graph(r, 30);
        }
        USE_SETTER.with(|u| u.set(i % 3 == 2));
        gd.backend = if gd.backend == 1 { 1 } else { r.below(3) };
        if gd.backend != 1 {
            gd.slots = (0..gd.n).collect();
            gd.total_slots = gd.n;
        }
        let (k, s, s2) = (r.below(3), pick_seed(r), pick_seed(r));
        if gd.backend == 2 {
            run_annealer::<quizx::hash_graph::Graph>("annealer-wide-short", i, &gd, p, k, s, s2)
        } else {
            run_annealer::<quizx::vec_graph::Graph>("annealer-wide-short", i, &gd, p, k, s, s2)
        }
    });

    // ---- graphs with 65-170 vertices: cuts with more than 64 vertices on both sides ----
    let n_large = t.pick(60usize, 4_000usize);
    par_cases("large-graphs", n_large, move |r, i| {
        let n = if r.chance(0.5) { *r.pick(&[65usize, 100, 129, 131, 140, 150, 170]) + r.below(3) } else { 65 + r.below(110) };
        let class = *r.pick(&["gnp-sparse", "gnp-half", "random-tree", "path", "cycle", "star", "complete-bipartite", "union-of-cliques"]);
        let gd = gen_graph_with(r, class, n);
        if i % 2 == 0 {
            let plan = HistoryPlan { rng_kind: r.below(3), decomp_seed: pick_seed(r), move_seed: pick_seed(r), len: 4 + r.below(20), profile: r.below(PROFILES.len()), query_p: *r.pick(&[0.3, 1.0]), first_move: None };
            dispatch_history("large-graphs", i, r, &gd, &plan);
        } else {
            let p = AnnealParams { iterations: *r.pick(&[0usize, 1, 3, 8]), init_temp: 5.0, min_temp: 0.01, cooling: 0.95, adaptive: r.chance(0.5), ctor_new: r.chance(0.5), defaults: false };
            let (k, s, s2) = (r.below(3), pick_seed(r), pick_seed(r));
            if gd.backend == 2 {
                run_annealer::<quizx::hash_graph::Graph>("large-graphs", i, &gd, p, k, s, s2)
            } else {
                run_annealer::<quizx::vec_graph::Graph>("large-graphs", i, &gd, p, k, s, s2)
            }
        }
    });

    // ---- the public wrapper rank_decomp (thread-local generator) ----
    let n_wrap = t.pick(80usize, 1_000usize);
    par_cases("rank_decomp-wrapper", n_wrap, move |r, i| {
        let c = ctx();
        let mut st = Stats::default();
        let mut gd = gen_graph(r, 8);
        gd.backend = 0;
        gd.slots = (0..gd.n).collect();
        gd.total_slots = gd.n;
        let (g, ids): (quizx::vec_graph::Graph, Vec<V>) = gd.build();
        let go = GraphOracle::new(&gd, &ids);
        let cj = json!({"graph": gd.to_json(), "vertex_ids": ids, "note": "rank_decomp uses rand::rng(); outcome may differ between runs"});
        let obs = Obs { family: "rank_decomp-wrapper", index: i, g: &g, go: &go, ctx_json: &cj };
        match guarded(|| quizx::rankwidth::rank_decomp(&g)) {
            Ok(tree) => {
                obs.observe("rank_decomp", &tree, &[], None, &mut st);
            }
            Err(Caught::Oracle(m)) => c.inconclusive("oracle-error", json!({"msg": m})),
            Err(e) => c.violation(
                &panic_sig("rank_decomp", &e, gd.n, gd.edges.is_empty()),
                "rank_decomp-wrapper",
                i,
                json!({"what": "rank_decomp panicked", "entry_point": "rankwidth::rank_decomp", "case": cj, "panic": e.text()}),
            ),
        }
        st.add("op:rank_decomp", 1);
        st.add(&format!("wrapper-graphs:class:{}", gd.class), 1);
        st.flush();
        c.case("rank_decomp-wrapper", if gd.n >= 4 && !gd.edges.is_empty() { Some(gd.hash() ^ 0x77) } else { None });
    });

    // ---- random histories (the bulk of the time; last so that a time cut never starves the annealer families) ----
    let (n_hist, max_len) = t.pick((8_000usize, 200usize), (200_000usize, 200usize));
    par_cases("history", n_hist, move |r, i| {
        let gd = gen_graph(r, 14);
        let plan = HistoryPlan {
            rng_kind: r.below(3),
            decomp_seed: pick_seed(r),
            move_seed: pick_seed(r),
            len: if r.chance(0.2) { max_len.min(200) } else { r.below(max_len + 1) },
            profile: r.below(PROFILES.len()),
            query_p: *r.pick(&[0.0, 0.3, 1.0]),
            first_move: None,
        };
        dispatch_history("history", i, r, &gd, &plan);
    });
}

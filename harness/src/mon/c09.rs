//! C09 -- both graph backends behave identically and stay internally consistent.
//!
//! Events: every operation of a generated history (gen/history.rs) is applied to
//! `vec_graph::Graph`, `hash_graph::Graph` and the reference model O5 (oracle/refgraph.rs).
//! A harness-maintained bijection model-id <-> backend-id per backend translates names.
//! After EVERY operation the full observable state of each backend is compared with the
//! model through the bijection, plus per-backend internal consistency. The oracle is the
//! model (documented meaning of the operation), never the other backend alone.
//!
//! Signature = `<operation kind>|<check that failed>|<backend(s)>`.

use crate::fw::{ctx, guarded, par_cases, Caught};
use crate::gen::history::*;
use crate::gen::prng::{hash_str, Rng};
use crate::oracle::refgraph::{self, MData, Par, Ph, RefGraph, M};
use crate::oracle::ring::{r_of_scalar, scalar_is_approx, Num, R};
use num::rational::Rational64;
use quizx::graph::{BasisElem, Coord, EType, GraphLike, VData, VType, V};
use quizx::params::{Expr, Parity};
use quizx::phase::Phase;
use quizx::scalar::Scalar4;
use serde_json::{json, Value};
use std::collections::{BTreeMap, BTreeSet};
use std::sync::{Mutex, OnceLock};

type VG = quizx::vec_graph::Graph;
type HG = quizx::hash_graph::Graph;

pub trait Kind: GraphLike + PartialEq {
    type Cross: GraphLike;
    const NAME: &'static str;
}
impl Kind for VG {
    type Cross = HG;
    const NAME: &'static str = "vec";
}
impl Kind for HG {
    type Cross = VG;
    const NAME: &'static str = "hash";
}

// ---------------------------------------------------------------------------------------
// conversions model value -> quizx value (inputs only) and comparisons
// ---------------------------------------------------------------------------------------

fn to_phase(p: Ph) -> Phase {
    Phase::new(Rational64::new(p.n, p.d))
}
fn to_parity(p: &Par) -> Parity {
    Parity::new(p.sorted_vars(), p.c)
}
fn to_vdata(d: &MData) -> VData {
    VData { ty: d.ty, phase: to_phase(d.phase), vars: to_parity(&d.vars), qubit: d.qubit, row: d.row }
}
fn to_scalar(s: &([i64; 4], i32)) -> Scalar4 {
    Scalar4::new(s.0, s.1)
}
fn r_of(s: &([i64; 4], i32)) -> R {
    R::from_i64s(s.0, s.1 as i64)
}
fn phase_eq(p: Phase, m: Ph) -> bool {
    let r = p.to_rational();
    *r.numer() == m.n && *r.denom() == m.d
}
fn phase_txt(p: Phase) -> String {
    let r = p.to_rational();
    format!("{}/{}", r.numer(), r.denom())
}

pub fn expr_pool() -> &'static Vec<Expr> {
    static POOL: OnceLock<Vec<Expr>> = OnceLock::new();
    POOL.get_or_init(|| {
        let p = |v: &[u32], c: bool| Parity::new(v.to_vec(), c);
        vec![
            Expr::linear(p(&[0], false)),
            Expr::linear(p(&[1], false)),
            Expr::linear(p(&[0, 1], false)),
            Expr::linear(p(&[2], true)),
            Expr::linear(p(&[], true)),
            Expr::quadratic(p(&[1], false), p(&[2], false)),
            Expr::quadratic(p(&[1, 2], false), p(&[3], false)),
            Expr::quadratic(p(&[2], false), p(&[3], true)),
        ]
    })
}

// ---------------------------------------------------------------------------------------
// a backend under test with its name bijection
// ---------------------------------------------------------------------------------------

#[derive(Clone)]
pub struct Bk<G: GraphLike> {
    pub g: G,
    pub m2b: BTreeMap<M, V>,
    pub b2m: BTreeMap<V, M>,
}

impl<G: GraphLike> Bk<G> {
    fn new() -> Self {
        Bk { g: G::new(), m2b: BTreeMap::new(), b2m: BTreeMap::new() }
    }
    fn b(&self, m: M) -> V {
        *self.m2b.get(&m).unwrap_or_else(|| panic!("harness: model id m{m} has no backend name"))
    }
    fn bind(&mut self, m: M, v: V) {
        self.m2b.insert(m, v);
        self.b2m.insert(v, m);
    }
    fn unbind(&mut self, m: M) {
        if let Some(v) = self.m2b.remove(&m) {
            self.b2m.remove(&v);
        }
    }
    fn set_map(&mut self, m2b: BTreeMap<M, V>) {
        self.b2m = m2b.iter().map(|(&m, &v)| (v, m)).collect();
        self.m2b = m2b;
    }
    fn dump(&self) -> Value {
        let g = &self.g;
        let r = guarded(|| {
            let mut vs: Vec<V> = g.vertices().collect();
            vs.sort();
            let vd: Vec<String> = vs
                .iter()
                .map(|&v| {
                    let d = g.vertex_data(v);
                    format!("{v}(m{:?}):{:?} ph={} vars={:?} q={} r={}", self.b2m.get(&v), d.ty, phase_txt(d.phase), d.vars, d.qubit, d.row)
                })
                .collect();
            let mut es: Vec<(V, V, EType)> = g.edges().collect();
            es.sort();
            json!({"vindex": g.vindex(), "num_vertices": g.num_vertices(), "num_edges": g.num_edges(), "vertices": vd,
                   "edges": format!("{es:?}"), "inputs": g.inputs(), "outputs": g.outputs(), "scalar": format!("{}", r_of_scalar(g.scalar()))})
        });
        r.unwrap_or_else(|e| json!({"dump-panicked": e.text()}))
    }
}

fn model_dump(m: &RefGraph) -> Value {
    let vd: Vec<String> =
        m.v.iter().map(|(k, d)| format!("m{k}:{:?} ph={}/{} vars={:?}^{} q={} r={}", d.ty, d.phase.n, d.phase.d, d.vars.sorted_vars(), d.vars.c, d.qubit, d.row)).collect();
    json!({"vertices": vd, "edges": format!("{:?}", m.edges()), "inputs": m.inputs, "outputs": m.outputs, "scalar": format!("{}", m.scalar),
           "factors": m.factors.iter().map(|(k, v)| format!("{k}:{v}")).collect::<Vec<_>>()})
}

// ---------------------------------------------------------------------------------------
// full observable-state comparison
// ---------------------------------------------------------------------------------------

pub struct Mis {
    items: Vec<(String, Value)>,
}
impl Mis {
    fn add(&mut self, tag: &str, expected: impl std::fmt::Debug, observed: impl std::fmt::Debug) {
        if !self.items.iter().any(|(t, _)| t == tag) {
            self.items.push((tag.to_string(), json!({"expected": format!("{expected:?}"), "observed": format!("{observed:?}")})));
        }
    }
}

/// `structure_only`: compare vertices, data and edges only (result of
/// subgraph_from_vertices, whose inputs/outputs/scalar are not documented).
fn check_inner<G: GraphLike>(mo: &RefGraph, bk: &Bk<G>, structure_only: bool, mis: &mut Mis) {
    let g = &bk.g;
    let tm = |v: V| bk.b2m.get(&v).copied();
    // ---- vertices: enumeration, counts
    let vs: Vec<V> = g.vertices().collect();
    let vset: BTreeSet<V> = vs.iter().copied().collect();
    if vset.len() != vs.len() {
        mis.add("vertices()-yields-duplicates", "each vertex once", &vs);
    }
    if g.num_vertices() != vs.len() {
        mis.add("num_vertices!=enumeration", vs.len(), g.num_vertices());
    }
    let exp_vset: BTreeSet<V> = bk.b2m.keys().copied().collect();
    if vset != exp_vset {
        mis.add("vertex-set", &exp_vset, &vset);
        return; // everything below would be noise
    }
    if g.num_vertices() != mo.num_vertices() {
        mis.add("num_vertices", mo.num_vertices(), g.num_vertices());
    }
    let mut vv = g.vertex_vec();
    vv.sort();
    if vv != vset.iter().copied().collect::<Vec<_>>() {
        mis.add("vertex_vec", &vset, &vv);
    }
    let vi = g.vindex();
    if let Some(&mx) = vset.iter().next_back() {
        if mx >= vi {
            mis.add("vindex-not-fresh", format!("vindex > every live id (max {mx})"), vi);
        }
    }
    // ---- per-vertex data through every getter
    for (&m, d) in &mo.v {
        let v = bk.b(m);
        let vd = g.vertex_data(v);
        let par = to_parity(&d.vars);
        if vd.ty != d.ty {
            mis.add("vertex_data.ty", (m, d.ty), vd.ty);
        }
        if !phase_eq(vd.phase, d.phase) {
            mis.add("vertex_data.phase", (m, d.phase), phase_txt(vd.phase));
        }
        let pr = vd.phase.to_rational();
        if !(-*pr.denom() < *pr.numer() && *pr.numer() <= *pr.denom()) {
            mis.add("phase-not-normalised", "in (-1,1]", phase_txt(vd.phase));
        }
        if vd.vars != par {
            mis.add("vertex_data.vars", (m, &d.vars), &vd.vars);
        }
        if vd.qubit != d.qubit || vd.row != d.row {
            mis.add("vertex_data.coords", (m, d.qubit, d.row), (vd.qubit, vd.row));
        }
        if g.vertex_type(v) != d.ty || g.vertex_type_opt(v) != Some(d.ty) {
            mis.add("vertex_type", (m, d.ty), g.vertex_type(v));
        }
        if !phase_eq(g.phase(v), d.phase) {
            mis.add("phase()", (m, d.phase), phase_txt(g.phase(v)));
        }
        if g.vars(v) != par {
            mis.add("vars()", (m, &d.vars), g.vars(v));
        }
        let (pp, pv) = g.phase_and_vars(v);
        if !phase_eq(pp, d.phase) || pv != par {
            mis.add("phase_and_vars()", (m, d.phase, &d.vars), (phase_txt(pp), pv));
        }
        if g.qubit(v) != d.qubit || g.row(v) != d.row {
            mis.add("qubit()/row()", (m, d.qubit, d.row), (g.qubit(v), g.row(v)));
        }
        let c: Coord = g.coord(v);
        if c.x != d.row || c.y != d.qubit || c.qubit() != d.qubit || c.row() != d.row {
            mis.add("coord()", (m, d.row, d.qubit), (c.x, c.y));
        }
        match g.vertex_data_opt(v) {
            Some(o) if o == vd => {}
            other => mis.add("vertex_data_opt(live)", "Some(same data)", other),
        }
    }
    // ---- edges
    let es: Vec<(V, V, EType)> = g.edges().collect();
    if g.num_edges() != es.len() {
        mis.add("num_edges!=enumeration", es.len(), g.num_edges());
    }
    let mut mapped = vec![];
    for &(s, t, e) in &es {
        if s > t {
            mis.add("edges()-not-normalised(s>t)", "s <= t", (s, t));
        }
        match (tm(s), tm(t)) {
            (Some(a), Some(b)) => mapped.push((a.min(b), a.max(b), e)),
            _ => mis.add("edge-to-missing-vertex", "both ends live", (s, t, e)),
        }
    }
    mapped.sort();
    let exp_edges = mo.edges();
    if mapped != exp_edges {
        mis.add("edge-list", &exp_edges, &mapped);
    }
    if g.num_edges() != mo.num_edges() {
        mis.add("num_edges", mo.num_edges(), g.num_edges());
    }
    let mut ev = g.edge_vec();
    let mut es_sorted = es.clone();
    ev.sort();
    es_sorted.sort();
    if ev != es_sorted {
        mis.add("edge_vec", &es_sorted, &ev);
    }
    // ---- inputs / outputs
    if !structure_only {
        let mi: Vec<Option<M>> = g.inputs().iter().map(|&v| tm(v)).collect();
        let ei: Vec<Option<M>> = mo.inputs.iter().map(|&m| Some(m)).collect();
        if mi != ei {
            mis.add("inputs", &mo.inputs, (&mi, g.inputs()));
        }
        let mi: Vec<Option<M>> = g.outputs().iter().map(|&v| tm(v)).collect();
        let ei: Vec<Option<M>> = mo.outputs.iter().map(|&m| Some(m)).collect();
        if mi != ei {
            mis.add("outputs", &mo.outputs, (&mi, g.outputs()));
        }
    }
    // ---- adjacency per vertex
    for &m in mo.v.keys() {
        let v = bk.b(m);
        let exp = mo.nbrs(m);
        if g.degree(v) != exp.len() {
            mis.add("degree", (m, exp.len()), g.degree(v));
        }
        let mut nb: Vec<Option<M>> = g.neighbors(v).map(tm).collect();
        nb.sort();
        let en: Vec<Option<M>> = exp.iter().map(|x| Some(x.0)).collect();
        if nb != en {
            mis.add("neighbors", (m, &en), &nb);
        }
        let inc: Vec<(V, EType)> = g.incident_edges(v).collect();
        let mut im: Vec<(Option<M>, EType)> = inc.iter().map(|&(w, e)| (tm(w), e)).collect();
        im.sort();
        let ee: Vec<(Option<M>, EType)> = exp.iter().map(|x| (Some(x.0), x.1)).collect();
        if im != ee {
            mis.add("incident_edges", (m, &ee), &im);
        }
        for &(w, e) in &inc {
            if !vset.contains(&w) {
                mis.add("edge-to-missing-vertex", "live neighbour", (v, w));
            } else if !g.incident_edges(w).any(|x| x == (v, e)) {
                mis.add("adjacency-asymmetric", format!("{w} lists ({v},{e:?})"), g.incident_edge_vec(w));
            }
        }
        let mut a = g.neighbor_vec(v);
        let mut b: Vec<V> = inc.iter().map(|x| x.0).collect();
        a.sort();
        b.sort();
        if a != b {
            mis.add("neighbor_vec", &b, &a);
        }
        let mut a = g.incident_edge_vec(v);
        let mut b = inc.clone();
        a.sort();
        b.sort();
        if a != b {
            mis.add("incident_edge_vec", &b, &a);
        }
    }
    // ---- all ordered pairs, including absent vertices
    let mut ids: Vec<V> = vset.iter().copied().collect();
    let mut missing: Vec<V> = (0..vi + 2).filter(|x| !vset.contains(x)).collect();
    if missing.len() > 5 {
        let tail = missing.split_off(missing.len() - 2);
        missing.truncate(3);
        missing.extend(tail);
    }
    ids.extend(missing.iter().copied());
    for &a in &ids {
        for &b in &ids {
            let exp = match (tm(a), tm(b)) {
                (Some(x), Some(y)) => mo.edge(x, y),
                _ => None,
            };
            let got = g.edge_type_opt(a, b);
            if got != exp {
                mis.add("edge_type_opt", ((a, b), exp), got);
            }
            if g.connected(a, b) != exp.is_some() {
                mis.add("connected", ((a, b), exp.is_some()), g.connected(a, b));
            }
            if let Some(e) = exp {
                if g.edge_type(a, b) != e {
                    mis.add("edge_type", ((a, b), e), g.edge_type(a, b));
                }
            }
        }
    }
    // ---- membership over 0..vindex+2
    for x in 0..vi + 2 {
        let live = vset.contains(&x);
        if g.contains_vertex(x) != live {
            mis.add("contains_vertex", (x, live), g.contains_vertex(x));
        }
        if g.vertex_data_opt(x).is_some() != live {
            mis.add("vertex_data_opt", (x, live), g.vertex_data_opt(x));
        }
        let et = tm(x).map(|m| mo.v[&m].ty);
        if g.vertex_type_opt(x) != et {
            mis.add("vertex_type_opt", (x, et), g.vertex_type_opt(x));
        }
    }
    // ---- find_vertex
    for &v in &vset {
        if g.find_vertex(|x| x == v) != Some(v) {
            mis.add("find_vertex", Some(v), g.find_vertex(|x| x == v));
        }
    }
    for &x in &missing {
        if g.find_vertex(|y| y == x).is_some() {
            mis.add("find_vertex", "None for a missing id", x);
        }
    }
    {
        let any_x = mo.v.values().any(|d| d.ty == VType::X);
        match g.find_vertex(|x| g.vertex_type(x) == VType::X) {
            Some(v) if vset.contains(&v) && g.vertex_type(v) == VType::X && any_x => {}
            None if !any_x => {}
            other => mis.add("find_vertex", format!("an X vertex exists: {any_x}"), other),
        }
    }
    // ---- find_edge: existence + predicate satisfaction (symmetric predicates)
    {
        let any_h = exp_edges.iter().any(|x| x.2 == EType::H);
        match g.find_edge(|_, _, e| e == EType::H) {
            Some((s, t, e)) => {
                let ok = e == EType::H && any_h && matches!((tm(s), tm(t)), (Some(a), Some(b)) if mo.edge(a, b) == Some(EType::H));
                if !ok {
                    mis.add("find_edge", format!("an H edge exists: {any_h}"), (s, t, e));
                }
                if s > t {
                    mis.add("find_edge:result-not-normalised(s>t)", "an edge is a triple with s <= t", (s, t, e));
                }
            }
            None if !any_h => {}
            None => mis.add("find_edge", "Some(H edge)", "None"),
        }
        let mut probes: Vec<((V, V), Option<EType>)> = vec![];
        if let Some(&(a, b, e)) = exp_edges.first() {
            probes.push(((bk.b(a), bk.b(b)), Some(e)));
        }
        if let Some(&(a, b, e)) = exp_edges.last() {
            probes.push(((bk.b(b), bk.b(a)), Some(e)));
        }
        'outer: for &a in &ids {
            for &b in &ids {
                if a != b && !matches!((tm(a), tm(b)), (Some(x), Some(y)) if mo.edge(x, y).is_some()) {
                    probes.push(((a, b), None));
                    break 'outer;
                }
            }
        }
        for ((a, b), exp) in probes {
            let got = g.find_edge(|s, t, _| (s, t) == (a, b) || (s, t) == (b, a));
            match (got, exp) {
                (None, None) => {}
                (Some((s, t, e)), Some(ee)) if e == ee && ((s, t) == (a, b) || (s, t) == (b, a)) => {
                    if s > t {
                        mis.add("find_edge:result-not-normalised(s>t)", "an edge is a triple with s <= t", (s, t, e));
                    }
                }
                (got, exp) => mis.add("find_edge", ((a, b), exp), got),
            }
        }
        // an order-sensitive query: edges are triples (s,t,_) with s <= t, so nothing has s > t
        if let Some(x) = g.find_edge(|s, t, _| s > t) {
            mis.add("find_edge:order-sensitive-predicate(s>t)-answered", "None", x);
        }
    }
    // ---- derived queries
    if g.tcount() != mo.tcount() {
        mis.add("tcount", mo.tcount(), g.tcount());
    }
    {
        let mut comps: Vec<Vec<Option<M>>> = g
            .component_vertices()
            .into_iter()
            .map(|c| {
                let mut l: Vec<Option<M>> = c.into_iter().map(tm).collect();
                l.sort();
                l
            })
            .collect();
        comps.sort();
        let exp: Vec<Vec<Option<M>>> = mo.components().into_iter().map(|c| c.into_iter().map(Some).collect()).collect();
        if comps != exp {
            mis.add("component_vertices", &exp, &comps);
        }
    }
    if let Some(mr) = mo.max_row() {
        if g.depth() != mr {
            mis.add("depth", mr, g.depth());
        }
    }
    {
        let nodes: Vec<V> = vset.iter().copied().collect();
        let a = g.adjacency_matrix(Some(&nodes));
        let mut ok = a.rows() == nodes.len() && a.cols() == nodes.len();
        if ok {
            for (i, &x) in nodes.iter().enumerate() {
                for (j, &y) in nodes.iter().enumerate() {
                    let e = mo.edge(bk.b2m[&x], bk.b2m[&y]).is_some();
                    if a.bit(i, j) != e {
                        ok = false;
                    }
                }
            }
        }
        if !ok {
            mis.add("adjacency_matrix", "model adjacency", "differs");
        }
    }
    // ---- scalar and scalar factors
    if !structure_only {
        if scalar_is_approx(g.scalar()) {
            mis.add("SKIP:scalar-approx", "", "");
        } else {
            let s = r_of_scalar(g.scalar());
            if s != mo.scalar {
                mis.add("scalar", format!("{}", mo.scalar), format!("{s}"));
            }
        }
        let pool = expr_pool();
        for (k, e) in pool.iter().enumerate() {
            let got = g.get_scalar_factor(e).map(|s| r_of_scalar(&s));
            if got.as_ref() != mo.factors.get(&k) {
                mis.add("get_scalar_factor", (k, mo.factors.get(&k).map(|x| x.to_string())), got.map(|x| x.to_string()));
            }
        }
        let fs: Vec<(Option<usize>, R)> = g.scalar_factors().map(|(e, s)| (pool.iter().position(|p| p == e), r_of_scalar(s))).collect();
        let mut ok = fs.len() == mo.factors.len();
        for (k, s) in &fs {
            ok &= matches!(k, Some(k) if mo.factors.get(k) == Some(s));
        }
        if !ok {
            mis.add("scalar_factors", mo.factors.len(), fs.len());
        }
    }
}

/// Outcome of a comparison: list of (check tag, detail); tags starting with `HARNESS:` or
/// `ORACLE:` are not verdicts about quizx.
fn check_state<G: GraphLike>(mo: &RefGraph, bk: &Bk<G>, structure_only: bool) -> Vec<(String, Value)> {
    let r = guarded(|| {
        let mut mis = Mis { items: vec![] };
        check_inner(mo, bk, structure_only, &mut mis);
        mis.items
    });
    match r {
        Ok(items) => items,
        Err(Caught::Oracle(m)) => vec![("ORACLE:".to_string() + &m, json!(m))],
        Err(e) => classify_panic("query-panic", e),
    }
}

fn classify_panic(what: &str, e: Caught) -> Vec<(String, Value)> {
    match &e {
        Caught::Panic { loc, .. } if loc.contains("harness/src") => vec![(format!("HARNESS:{}", e.text()), json!(e.text()))],
        Caught::Oracle(m) => vec![(format!("ORACLE:{m}"), json!(m))],
        _ => {
            let site = e.site();
            let site = site.split(": the len").next().unwrap_or(&site).to_string();
            vec![(format!("{what}:{site}"), json!(e.text()))]
        }
    }
}

// ---------------------------------------------------------------------------------------
// the model side of one operation
// ---------------------------------------------------------------------------------------

#[derive(Default)]
struct ModelOut {
    /// expected value of a derived graph (clone / copy / to_adjoint / subgraph), model ids kept
    derived: Option<RefGraph>,
    /// append_graph: the appended graph and the names of its copies
    other: Option<(RefGraph, BTreeMap<M, M>)>,
    label: Option<&'static str>,
}

fn retags(op: &Op) -> bool {
    matches!(op, Op::Pack { .. } | Op::Copy { .. } | Op::Subgraph { .. })
}

fn retag(g: &mut RefGraph, base: u64) {
    for (i, m) in g.vertices().into_iter().enumerate() {
        g.set_qubit(m, (base + i as u64) as f64 + 0.5).unwrap();
    }
}

/// Apply `op` to the model; `Err` = the operation is not valid in this state (documented
/// precondition or harness policy not met) and nothing may be issued.
fn apply_model(g: &mut RefGraph, op: &Op, named_ok: Option<bool>, tag_base: u64) -> Result<ModelOut, String> {
    let mut out = ModelOut::default();
    let all_live = |g: &RefGraph, l: &[M]| l.iter().all(|&m| g.has(m));
    if retags(op) {
        retag(g, tag_base);
    }
    match op {
        Op::AddVertex { ty, m } => g.add_vertex(*m, MData::of_type(*ty))?,
        Op::AddVertexWithData { d, m } => g.add_vertex(*m, d.clone())?,
        Op::AddVertexWithPhase { ty, ph, m } => g.add_vertex(*m, MData { phase: Ph::new(ph.0, ph.1), ..MData::of_type(*ty) })?,
        Op::AddNamed { d, m, .. } => match named_ok {
            None => return Err("named id live in one backend and free in the other".into()),
            Some(true) => g.add_vertex(*m, d.clone())?,
            Some(false) => {
                if g.has(*m) {
                    return Err("model id reused".into());
                }
            }
        },
        Op::RemoveVertex { m } => {
            if g.inputs.contains(m) || g.outputs.contains(m) {
                return Err("harness policy: vertex still listed as input/output".into());
            }
            g.remove_vertex(*m)?
        }
        Op::AddEdge { s, t } => g.add_edge_with_type(*s, *t, EType::N)?,
        Op::AddEdgeWithType { s, t, e } => g.add_edge_with_type(*s, *t, *e)?,
        Op::AddEdgeSmart { s, t, e } => out.label = Some(g.add_edge_smart(*s, *t, *e)?),
        Op::RemoveEdge { s, t } => g.remove_edge(*s, *t)?,
        Op::SetEdgeType { s, t, e } => g.set_edge_type(*s, *t, *e)?,
        Op::ToggleEdgeType { s, t } => g.toggle_edge_type(*s, *t)?,
        Op::SetPhase { m, ph } => g.set_phase(*m, Ph::new(ph.0, ph.1))?,
        Op::AddToPhase { m, ph } => g.add_to_phase(*m, Ph::new(ph.0, ph.1))?,
        Op::SetVertexType { m, ty } => g.set_type(*m, *ty)?,
        Op::SetCoord { m, x, y } => g.set_coord(*m, *x, *y)?,
        Op::SetQubit { m, q } => g.set_qubit(*m, *q)?,
        Op::SetRow { m, r } => g.set_row(*m, *r)?,
        Op::SetVars { m, vars } => g.set_vars(*m, vars.clone())?,
        Op::AddToVars { m, vars } => g.add_to_vars(*m, vars)?,
        Op::SetInputs(l) => {
            if !all_live(g, l) {
                return Err("input not live".into());
            }
            g.inputs = l.clone();
        }
        Op::SetOutputs(l) => {
            if !all_live(g, l) {
                return Err("output not live".into());
            }
            g.outputs = l.clone();
        }
        Op::InputsMut(e) => {
            if !list_edit_valid(g.inputs.len(), e, |m| g.has(m)) {
                return Err("list edit invalid".into());
            }
            apply_list_edit(&mut g.inputs, e, |m| m);
        }
        Op::OutputsMut(e) => {
            if !list_edit_valid(g.outputs.len(), e, |m| g.has(m)) {
                return Err("list edit invalid".into());
            }
            apply_list_edit(&mut g.outputs, e, |m| m);
        }
        Op::Scalar(e) => match e {
            ScalarEdit::MulSqrt2Pow(p) => g.scalar = g.scalar.mul(&R::sqrt2_pow(*p as i64)),
            ScalarEdit::MulPhase(k) => g.scalar = g.scalar.mul(&R::omega_pow(k.rem_euclid(8))),
            ScalarEdit::MulBy(c, p) => g.scalar = g.scalar.mul(&r_of(&(*c, *p))),
            ScalarEdit::Assign(c, p) => g.scalar = r_of(&(*c, *p)),
        },
        Op::MulScalarFactor { key, s } => {
            if *key >= EXPR_POOL {
                return Err("no such expression".into());
            }
            g.mul_scalar_factor(*key, &r_of(s))
        }
        Op::XToZ => g.x_to_z(),
        Op::Adjoint => g.adjoint(),
        Op::Pack { .. } => {}
        Op::Clone { .. } => out.derived = Some(g.clone()),
        Op::Copy { adjoint, .. } => out.derived = Some(g.copy(*adjoint)),
        Op::ToAdjoint => {
            // "Same as GraphLike::adjoint(), but return as a copy": clone, then adjoint
            let mut a = g.clone();
            a.adjoint();
            out.derived = Some(a)
        }
        Op::Subgraph { verts } => out.derived = Some(g.subgraph(verts)?),
        Op::Append { other, new_ms } => {
            let o = match other {
                Other::SelfClone => g.clone(),
                Other::Small { verts, edges, scalar, .. } => small_other_model(verts, edges, scalar)?,
            };
            let names = names_for(&o, new_ms).ok_or("wrong number of names")?;
            g.append(&o, &names)?;
            out.other = Some((o, names));
        }
        Op::PlugVertex { m, b } => g.plug_vertex(*m, *b)?,
        Op::PlugInput { i, b } => g.plug_io(false, *i, *b)?,
        Op::PlugOutput { i, b } => g.plug_io(true, *i, *b)?,
        Op::PlugInputs(l) => {
            if l.len() != g.inputs.len() {
                return Err("harness policy: full-length plug list".into());
            }
            g.plug_ios(false, l)?
        }
        Op::PlugOutputs(l) => {
            if l.len() != g.outputs.len() {
                return Err("harness policy: full-length plug list".into());
            }
            g.plug_ios(true, l)?
        }
        Op::MakeBipartite => {}
    }
    g.well_formed()?;
    Ok(out)
}

// ---------------------------------------------------------------------------------------
// the backend side of one operation
// ---------------------------------------------------------------------------------------

/// (check tag, fatal for the continuation of the history, detail)
type RawViol = (String, bool, Value);

struct Derived<G: GraphLike> {
    bk: Bk<G>,
    model: RefGraph,
    structure_only: bool,
}

type Stats = BTreeMap<String, u64>;
fn bump(s: &mut Stats, k: &str) {
    *s.entry(k.to_string()).or_default() += 1;
}

fn named_class(v: V, vindex: V, live: bool) -> &'static str {
    if live {
        "live"
    } else if v < vindex {
        "hole"
    } else if v == vindex {
        "at-vindex"
    } else {
        "beyond-vindex"
    }
}

fn tr_edit(e: &ListEdit, f: impl Fn(M) -> V) -> ListEdit {
    match e {
        ListEdit::Push(m) => ListEdit::Push(f(*m)),
        ListEdit::Insert(i, m) => ListEdit::Insert(*i, f(*m)),
        ListEdit::RetainNot(m) => ListEdit::RetainNot(f(*m)),
        other => other.clone(),
    }
}

fn build_small<O: GraphLike>(verts: &[MData], edges: &[(usize, usize, EType)], scalar: &([i64; 4], i32)) -> (O, Vec<V>) {
    let mut o = O::new();
    // an extra vertex that is deleted again, so that `other` itself has a hole / a gap
    let junk = o.add_vertex(VType::Z);
    let mut ids = vec![];
    for (i, d) in verts.iter().enumerate() {
        ids.push(o.add_vertex_with_data(to_vdata(d)));
        if i == 0 {
            o.remove_vertex(junk);
        }
    }
    if verts.is_empty() {
        o.remove_vertex(junk);
    }
    for &(s, t, e) in edges {
        o.add_edge_with_type(ids[s], ids[t], e);
    }
    *o.scalar_mut() = to_scalar(scalar);
    (o, ids)
}

/// read the harness's unique tags back from a graph and match them with the model
fn recover_by_tags<G: GraphLike>(g: &G, mo: &RefGraph) -> Result<BTreeMap<M, V>, (String, Value)> {
    let got = guarded(|| g.vertices().map(|v| (v, g.qubit(v))).collect::<Vec<(V, f64)>>()).map_err(|e| (format!("query-panic:{}", e.site()), json!(e.text())))?;
    let mut by_tag: BTreeMap<u64, V> = BTreeMap::new();
    for &(v, q) in &got {
        if by_tag.insert(q.to_bits(), v).is_some() {
            return Err(("result:vertex-set(tag-twice)".into(), json!({"tag": q, "vertices": format!("{got:?}")})));
        }
    }
    let mut m2b = BTreeMap::new();
    for (&m, d) in &mo.v {
        match by_tag.remove(&d.qubit.to_bits()) {
            Some(v) => {
                m2b.insert(m, v);
            }
            None => return Err(("result:vertex-set(vertex-lost)".into(), json!({"model vertex": m, "tag": d.qubit, "vertices": format!("{got:?}")}))),
        }
    }
    if !by_tag.is_empty() {
        return Err(("result:vertex-set(extra-vertex)".into(), json!({"extra": format!("{by_tag:?}"), "vertices": format!("{got:?}")})));
    }
    Ok(m2b)
}

fn apply_backend<G: Kind>(
    bk: &mut Bk<G>,
    op: &Op,
    pre: &RefGraph,
    post: &RefGraph,
    mout: &ModelOut,
    named_ok: Option<bool>,
    stats: &mut Stats,
) -> (Vec<RawViol>, Option<Derived<G>>) {
    let name = G::NAME;
    let mut viols: Vec<RawViol> = vec![];
    let mut panic_prefix = String::from("panic");
    macro_rules! call {
        ($body:expr) => {
            match guarded(|| $body) {
                Ok(x) => x,
                Err(e) => {
                    for (t, d) in classify_panic(&panic_prefix, e) {
                        viols.push((t, true, d));
                    }
                    return (viols, None);
                }
            }
        };
    }
    macro_rules! new_vertex {
        ($m:expr, $v:expr, $vi:expr) => {{
            let (m, v, vi): (M, V, V) = ($m, $v, $vi);
            if bk.b2m.contains_key(&v) {
                viols.push(("returned-id-already-live".into(), true, json!({"returned": v, "live": format!("{:?}", bk.b2m)})));
                return (viols, None);
            }
            bk.bind(m, v);
            bump(stats, &format!("{name}:new-vertex:{}", if v < vi { "hole-reused(id<vindex)" } else if v == vi { "at-vindex" } else { "above-vindex-of-op-start(append)" }));
        }};
    }
    let vi0 = bk.g.vindex();
    if retags(op) {
        let tags: Vec<(V, f64)> = post.v.iter().filter(|(m, _)| pre.has(**m)).map(|(&m, d)| (bk.b(m), d.qubit)).collect();
        call!(for &(v, q) in &tags {
            bk.g.set_qubit(v, q)
        });
    }
    let mut derived = None;
    match op {
        Op::AddVertex { ty, m } => {
            let v = call!(bk.g.add_vertex(*ty));
            new_vertex!(*m, v, vi0);
        }
        Op::AddVertexWithData { d, m } => {
            let vd = to_vdata(d);
            let v = call!(bk.g.add_vertex_with_data(vd));
            new_vertex!(*m, v, vi0);
        }
        Op::AddVertexWithPhase { ty, ph, m } => {
            let v = if (ph.0 + ph.1) % 2 == 0 { call!(bk.g.add_vertex_with_phase(*ty, *ph)) } else { call!(bk.g.add_vertex_with_phase(*ty, Rational64::new(ph.0, ph.1))) };
            new_vertex!(*m, v, vi0);
        }
        Op::AddNamed { v, d, m } => {
            let class = named_class(*v, vi0, bk.b2m.contains_key(v));
            panic_prefix = format!("panic({})", if class == "at-vindex" || class == "beyond-vindex" { "v>=vindex" } else { class });
            let vd = to_vdata(d);
            bump(stats, &format!("{name}:named-attempt:{class}"));
            let ok = call!(bk.g.add_named_vertex_with_data(*v, vd).is_ok());
            bump(stats, &format!("{name}:named:{class}:{}", if ok { "Ok" } else { "Err" }));
            if Some(ok) != named_ok {
                viols.push((format!("result({class}):expected-{}-got-{}", if ok { "Err" } else { "Ok" }, if ok { "Ok" } else { "Err" }), true, json!({"v": v})));
                return (viols, None);
            }
            if ok {
                bk.bind(*m, *v);
            }
        }
        Op::RemoveVertex { m } => {
            let v = bk.b(*m);
            call!(bk.g.remove_vertex(v));
            bk.unbind(*m);
        }
        Op::AddEdge { s, t } => {
            let (a, b) = (bk.b(*s), bk.b(*t));
            call!(bk.g.add_edge(a, b));
        }
        Op::AddEdgeWithType { s, t, e } => {
            let (a, b) = (bk.b(*s), bk.b(*t));
            call!(bk.g.add_edge_with_type(a, b, *e));
        }
        Op::AddEdgeSmart { s, t, e } => {
            let (a, b) = (bk.b(*s), bk.b(*t));
            panic_prefix = format!("panic({})", mout.label.unwrap_or("?"));
            call!(bk.g.add_edge_smart(a, b, *e));
        }
        Op::RemoveEdge { s, t } => {
            let (a, b) = (bk.b(*s), bk.b(*t));
            call!(bk.g.remove_edge(a, b));
        }
        Op::SetEdgeType { s, t, e } => {
            let (a, b) = (bk.b(*s), bk.b(*t));
            call!(bk.g.set_edge_type(a, b, *e));
        }
        Op::ToggleEdgeType { s, t } => {
            let (a, b) = (bk.b(*s), bk.b(*t));
            call!(bk.g.toggle_edge_type(a, b));
        }
        Op::SetPhase { m, ph } => {
            let v = bk.b(*m);
            match (ph.0 + ph.1).rem_euclid(3) {
                0 => call!(bk.g.set_phase(v, *ph)),
                1 => call!(bk.g.set_phase(v, Rational64::new(ph.0, ph.1))),
                _ => call!(bk.g.set_phase(v, Phase::new(Rational64::new(ph.0, ph.1)))),
            }
        }
        Op::AddToPhase { m, ph } => {
            let v = bk.b(*m);
            if (ph.0 + ph.1) % 2 == 0 {
                call!(bk.g.add_to_phase(v, *ph))
            } else {
                call!(bk.g.add_to_phase(v, Rational64::new(ph.0, ph.1)))
            }
        }
        Op::SetVertexType { m, ty } => {
            let v = bk.b(*m);
            call!(bk.g.set_vertex_type(v, *ty));
        }
        Op::SetCoord { m, x, y } => {
            let v = bk.b(*m);
            call!(bk.g.set_coord(v, Coord::new(*x, *y)));
        }
        Op::SetQubit { m, q } => {
            let v = bk.b(*m);
            call!(bk.g.set_qubit(v, *q));
        }
        Op::SetRow { m, r } => {
            let v = bk.b(*m);
            call!(bk.g.set_row(v, *r));
        }
        Op::SetVars { m, vars } => {
            let (v, p) = (bk.b(*m), to_parity(vars));
            call!(bk.g.set_vars(v, p));
        }
        Op::AddToVars { m, vars } => {
            let (v, p) = (bk.b(*m), to_parity(vars));
            call!(bk.g.add_to_vars(v, &p));
        }
        Op::SetInputs(l) => {
            let l: Vec<V> = l.iter().map(|&m| bk.b(m)).collect();
            call!(bk.g.set_inputs(l));
        }
        Op::SetOutputs(l) => {
            let l: Vec<V> = l.iter().map(|&m| bk.b(m)).collect();
            call!(bk.g.set_outputs(l));
        }
        Op::InputsMut(e) => {
            let e = tr_edit(e, |m| bk.b(m));
            call!(apply_list_edit(bk.g.inputs_mut(), &e, |v| v));
        }
        Op::OutputsMut(e) => {
            let e = tr_edit(e, |m| bk.b(m));
            call!(apply_list_edit(bk.g.outputs_mut(), &e, |v| v));
        }
        Op::Scalar(e) => match e {
            ScalarEdit::MulSqrt2Pow(p) => call!(bk.g.scalar_mut().mul_sqrt2_pow(*p)),
            ScalarEdit::MulPhase(k) => call!(bk.g.scalar_mut().mul_phase((*k, 4))),
            ScalarEdit::MulBy(c, p) => call!(*bk.g.scalar_mut() *= to_scalar(&(*c, *p))),
            ScalarEdit::Assign(c, p) => call!(*bk.g.scalar_mut() = to_scalar(&(*c, *p))),
        },
        Op::MulScalarFactor { key, s } => {
            let e = expr_pool()[*key].clone();
            call!(bk.g.mul_scalar_factor(e, to_scalar(s)));
        }
        Op::XToZ => call!(bk.g.x_to_z()),
        Op::Adjoint => call!(bk.g.adjoint()),
        Op::Pack { force } => {
            let nv = bk.g.num_vertices();
            call!(bk.g.pack(*force));
            match recover_by_tags(&bk.g, post) {
                Ok(m2b) => {
                    let renamed = m2b != bk.m2b;
                    bk.set_map(m2b);
                    let vi1 = bk.g.vindex();
                    bump(stats, &format!("{name}:pack({force}):{}:{}", if vi0 > nv { "had-holes" } else { "no-holes" }, if renamed { "renamed" } else if vi1 < vi0 { "truncated" } else { "identity" }));
                    if name == "vec" && *force && vi1 != nv {
                        viols.push(("pack(true)-leaves-holes".into(), false, json!({"vindex": vi1, "num_vertices": nv})));
                    }
                }
                Err((t, d)) => {
                    viols.push((t, true, d));
                    return (viols, None);
                }
            }
        }
        Op::Clone { .. } => {
            let c = call!(bk.g.clone());
            if !call!(c == bk.g) {
                viols.push(("result:clone-not-equal(==)".into(), false, json!({})));
            }
            derived = Some(Derived { bk: Bk { g: c, m2b: bk.m2b.clone(), b2m: bk.b2m.clone() }, model: post.clone(), structure_only: false });
        }
        Op::ToAdjoint => {
            let c = call!(bk.g.to_adjoint());
            derived = Some(Derived { bk: Bk { g: c, m2b: bk.m2b.clone(), b2m: bk.b2m.clone() }, model: mout.derived.clone().unwrap(), structure_only: false });
        }
        Op::Copy { adjoint, .. } => {
            let c = call!(bk.g.copy(*adjoint));
            let dm = mout.derived.clone().unwrap();
            match recover_by_tags(&c, &dm) {
                Ok(m2b) => {
                    let ids: Vec<V> = m2b.values().copied().collect::<BTreeSet<_>>().into_iter().collect();
                    if ids != (0..ids.len()).collect::<Vec<_>>() {
                        viols.push(("result:copy-ids-not-consecutive".into(), false, json!({"ids": ids})));
                    }
                    // Both backends share the default `copy`, which carries over vertices and
                    // edges only (boundary lists, scalar and scalar factors are not copied).
                    // C09 demands that the backends agree and stay consistent, not more, so
                    // the copy is compared on its structure (like subgraph_from_vertices).
                    let mut d = Derived { bk: Bk { g: c, m2b: BTreeMap::new(), b2m: BTreeMap::new() }, model: dm, structure_only: false };
                    d.bk.set_map(m2b);
                    derived = Some(d);
                }
                Err((t, d)) => viols.push((t, false, d)),
            }
        }
        Op::Subgraph { verts } => {
            let l: Vec<V> = verts.iter().map(|&m| bk.b(m)).collect();
            let c = call!(bk.g.subgraph_from_vertices(l));
            let dm = mout.derived.clone().unwrap();
            match recover_by_tags(&c, &dm) {
                Ok(m2b) => {
                    let mut d = Derived { bk: Bk { g: c, m2b: BTreeMap::new(), b2m: BTreeMap::new() }, model: dm, structure_only: true };
                    d.bk.set_map(m2b);
                    derived = Some(d);
                }
                Err((t, d)) => viols.push((t, false, d)),
            }
        }
        Op::Append { other, .. } => {
            let (omodel, names) = mout.other.as_ref().unwrap();
            let (vmap, o_m2b): (Vec<(V, V)>, BTreeMap<M, V>) = match other {
                Other::SelfClone => {
                    let og = call!(bk.g.clone());
                    let vm = call!(bk.g.append_graph(&og));
                    (vm.into_iter().collect(), bk.m2b.clone())
                }
                Other::Small { verts, edges, scalar, cross } => {
                    if *cross {
                        let (og, ids) = call!(build_small::<G::Cross>(verts, edges, scalar));
                        let vm = call!(bk.g.append_graph(&og));
                        bump(stats, &format!("{name}:append:other-backend"));
                        (vm.into_iter().collect(), ids.into_iter().enumerate().collect())
                    } else {
                        let (og, ids) = call!(build_small::<G>(verts, edges, scalar));
                        let vm = call!(bk.g.append_graph(&og));
                        bump(stats, &format!("{name}:append:same-backend"));
                        (vm.into_iter().collect(), ids.into_iter().enumerate().collect())
                    }
                }
            };
            let vm: BTreeMap<V, V> = vmap.iter().copied().collect();
            let mut fresh_ids = BTreeSet::new();
            let mut bad = vm.len() != omodel.num_vertices();
            let mut binds = vec![];
            for o in omodel.vertices() {
                match vm.get(&o_m2b[&o]) {
                    Some(&nb) if !bk.b2m.contains_key(&nb) && fresh_ids.insert(nb) => binds.push((names[&o], nb)),
                    _ => bad = true,
                }
            }
            if bad {
                viols.push(("renaming-map-not-a-fresh-injection".into(), true, json!({"vmap": format!("{vm:?}"), "live-before": format!("{:?}", bk.b2m)})));
                return (viols, None);
            }
            for (m, v) in binds {
                new_vertex!(m, v, vi0);
            }
        }
        Op::PlugVertex { m, b } => {
            let v = bk.b(*m);
            call!(bk.g.plug_vertex(v, *b));
        }
        Op::PlugInput { i, b } => call!(bk.g.plug_input(*i, *b)),
        Op::PlugOutput { i, b } => call!(bk.g.plug_output(*i, *b)),
        Op::PlugInputs(l) => call!(bk.g.plug_inputs(l)),
        Op::PlugOutputs(l) => call!(bk.g.plug_outputs(l)),
        Op::MakeBipartite => {
            call!(bk.g.make_bipartite());
            match guarded(|| bipartite_postcondition(pre, bk)) {
                Ok(v) => viols.extend(v.into_iter().map(|(t, d)| (t, false, d))),
                Err(e) => viols.extend(classify_panic("query-panic", e).into_iter().map(|(t, d)| (t, false, d))),
            }
        }
    }
    (viols, derived)
}

/// Loose postcondition of `make_bipartite` ("inserting opposite colored spiders between
/// same-colored neighbors"): nothing else may change; edge types of the two new edges and
/// the coordinates of the new spider are left open.
fn bipartite_postcondition<G: GraphLike>(pre: &RefGraph, bk: &Bk<G>) -> Vec<(String, Value)> {
    let g = &bk.g;
    let mut mis = Mis { items: vec![] };
    let vs: Vec<V> = g.vertices().collect();
    let es: Vec<(V, V, EType)> = g.edges().collect();
    if g.num_vertices() != vs.len() || g.num_edges() != es.len() {
        mis.add("counts!=enumeration", (vs.len(), es.len()), (g.num_vertices(), g.num_edges()));
    }
    for (&m, d) in &pre.v {
        let v = bk.b(m);
        match g.vertex_data_opt(v) {
            Some(vd) if vd.ty == d.ty && phase_eq(vd.phase, d.phase) && vd.vars == to_parity(&d.vars) && vd.qubit == d.qubit && vd.row == d.row => {}
            other => mis.add("old-vertex-changed", (m, d), other),
        }
    }
    let newv: Vec<V> = vs.iter().copied().filter(|v| !bk.b2m.contains_key(v)).collect();
    let mut used = BTreeSet::new();
    let mut n_same = 0;
    for (s, t, e) in pre.edges() {
        let (a, b) = (bk.b(s), bk.b(t));
        let (ts, tt) = (pre.v[&s].ty, pre.v[&t].ty);
        if ts == tt && (ts == VType::Z || ts == VType::X) {
            n_same += 1;
            let want = if ts == VType::Z { VType::X } else { VType::Z };
            let mids: Vec<V> = newv
                .iter()
                .copied()
                .filter(|&w| {
                    let mut nb = g.neighbor_vec(w);
                    nb.sort();
                    nb == vec![a.min(b), a.max(b)]
                })
                .collect();
            let ok = !g.connected(a, b) && mids.len() == 1 && g.vertex_type(mids[0]) == want && phase_eq(g.phase(mids[0]), Ph::zero()) && used.insert(mids[0]);
            if !ok {
                mis.add("same-colour-edge-not-split", format!("one new {want:?}(0) spider between {a} and {b}"), (&mids, g.connected(a, b)));
            }
        } else if g.edge_type_opt(a, b) != Some(e) {
            // an edge between two equal non-Z/X types (e.g. a bare boundary-boundary wire) is
            // removed by make_bipartite in both backends alike: the property is about the
            // backends agreeing, so this is not judged here
            if ts != tt {
                mis.add("other-edge-changed(between-different-types)", ((a, b), (ts, tt), Some(e)), g.edge_type_opt(a, b));
            }
        }
    }
    if newv.len() != n_same {
        mis.add("new-vertex-count", n_same, newv.len());
    }
    for &(s, t, e) in &es {
        if let (Some(&ms), Some(&mt)) = (bk.b2m.get(&s), bk.b2m.get(&t)) {
            if pre.edge(ms, mt).is_none() {
                mis.add("new-edge-between-old-vertices", "none", (s, t, e));
            }
        }
    }
    let tm = |l: &Vec<V>| l.iter().map(|v| bk.b2m.get(v).copied()).collect::<Vec<_>>();
    if tm(g.inputs()) != pre.inputs.iter().map(|&m| Some(m)).collect::<Vec<_>>() || tm(g.outputs()) != pre.outputs.iter().map(|&m| Some(m)).collect::<Vec<_>>() {
        mis.add("inputs/outputs-changed", (&pre.inputs, &pre.outputs), (g.inputs(), g.outputs()));
    }
    if !scalar_is_approx(g.scalar()) && r_of_scalar(g.scalar()) != pre.scalar {
        mis.add("scalar-changed", pre.scalar.to_string(), r_of_scalar(g.scalar()).to_string());
    }
    mis.items
}

// ---------------------------------------------------------------------------------------
// executor: one history on vec + hash + model
// ---------------------------------------------------------------------------------------

#[derive(Clone, Debug)]
pub struct Viol {
    pub sig: String,
    pub fatal: bool,
    pub detail: Value,
}

struct Shadow {
    model: RefGraph,
    vecb: Bk<VG>,
    hashb: Bk<HG>,
    ttl: usize,
    what: &'static str,
}

#[derive(Default)]
pub struct StepOut {
    pub invalid: Option<String>,
    pub viols: Vec<Viol>,
    /// harness or oracle trouble: not a verdict
    pub trouble: Vec<String>,
    pub stop: bool,
}

pub struct Exec {
    pub model: RefGraph,
    pub vecb: Bk<VG>,
    pub hashb: Bk<HG>,
    shadow: Option<Shadow>,
    next_tag: u64,
    pub stats: Stats,
    pub max_vertices: usize,
    pub max_holes_vec: usize,
    pub max_gap_hash: usize,
}

const NONFATAL_TAGS: [&str; 3] =
    ["find_edge:result-not-normalised(s>t)", "find_edge:order-sensitive-predicate(s>t)-answered", "pack(true)-leaves-holes"];

/// merge per-backend findings: the same tag from both backends becomes one `vec+hash` entry
fn merge(kind: &str, prefix: &str, vv: Vec<RawViol>, hv: Vec<RawViol>, out: &mut StepOut, stats: &mut Stats) {
    let mut all: BTreeMap<String, (Vec<&'static str>, bool, Vec<Value>)> = BTreeMap::new();
    for (name, list) in [("vec", vv), ("hash", hv)] {
        for (tag, fatal, d) in list {
            if tag.starts_with("SKIP:") {
                bump(stats, &format!("{tag}:{name}"));
                continue;
            }
            if tag.starts_with("HARNESS:") || tag.starts_with("ORACLE:") {
                out.trouble.push(tag);
                out.stop = true;
                continue;
            }
            let e = all.entry(tag).or_insert((vec![], false, vec![]));
            e.0.push(name);
            e.1 |= fatal;
            e.2.push(json!({"backend": name, "mismatch": d}));
        }
    }
    for (tag, (names, fatal, ds)) in all {
        // a defect of a query itself does not depend on the operation that preceded it
        let sig = match tag.strip_prefix("find_edge:") {
            Some(rest) => format!("find_edge|{rest}|{}", names.join("+")),
            None => format!("{kind}|{prefix}{tag}|{}", names.join("+")),
        };
        out.viols.push(Viol { sig, fatal, detail: Value::Array(ds) });
        out.stop |= fatal;
    }
}

/// Operations that both backends inherit from ONE shared default method of the GraphLike
/// trait. For these C09 demands that the two backends agree and stay consistent - not that
/// the shared method produces the particular diagram the reference model derives from the
/// calculus (e.g. on which end of a parallel N/H pair the pi ends up): that would blame a
/// semantics-preserving refactoring of the shared method, which leaves the property intact.
const SHARED_DEFAULT_OPS: [&str; 10] =
    ["add_edge_smart", "x_to_z", "plug_vertex", "plug_input", "plug_output", "plug_inputs", "plug_outputs", "adjoint", "append_graph", "plug"];

/// The observable state of a backend, read back through its name bijection as a model graph.
/// None when something in it cannot be expressed (unknown vertex, foreign scalar factor key).
fn model_of_backend<G: GraphLike>(bk: &Bk<G>) -> Option<RefGraph> {
    let g = &bk.g;
    let mut m = RefGraph::new();
    for v in g.vertices() {
        let id = *bk.b2m.get(&v)?;
        let d = g.vertex_data(v);
        let r = d.phase.to_rational();
        let vars: Vec<u32> = d.vars.iter().collect();
        let c = d.vars == Parity::new(vars.clone(), true) && !(d.vars == Parity::new(vars.clone(), false));
        m.v.insert(id, MData { ty: d.ty, phase: Ph::new(*r.numer(), *r.denom()), vars: Par::new(&vars, c), qubit: d.qubit, row: d.row });
        m.adj.insert(id, BTreeMap::new());
    }
    for (s, t, e) in g.edges() {
        let (a, b) = (*bk.b2m.get(&s)?, *bk.b2m.get(&t)?);
        if a == b {
            return None;
        }
        m.adj.get_mut(&a)?.insert(b, e);
        m.adj.get_mut(&b)?.insert(a, e);
    }
    m.inputs = g.inputs().iter().map(|v| bk.b2m.get(v).copied()).collect::<Option<Vec<_>>>()?;
    m.outputs = g.outputs().iter().map(|v| bk.b2m.get(v).copied()).collect::<Option<Vec<_>>>()?;
    m.scalar = crate::oracle::ring::r_of_scalar(g.scalar());
    for (e, sc) in g.scalar_factors() {
        let key = expr_pool().iter().position(|x| x == e)?;
        m.factors.insert(key, crate::oracle::ring::r_of_scalar(sc));
    }
    Some(m)
}

fn state_viols<G: GraphLike>(mo: &RefGraph, bk: &Bk<G>, structure_only: bool) -> Vec<RawViol> {
    check_state(mo, bk, structure_only).into_iter().map(|(t, d)| {
        let fatal = !NONFATAL_TAGS.contains(&t.as_str());
        (t, fatal, d)
    }).collect()
}

impl Exec {
    pub fn new() -> Exec {
        Exec { model: RefGraph::new(), vecb: Bk::new(), hashb: Bk::new(), shadow: None, next_tag: 1000, stats: Stats::new(), max_vertices: 0, max_holes_vec: 0, max_gap_hash: 0 }
    }

    pub fn named_view(&self) -> NamedView {
        let (vv, vh) = (self.vecb.g.vindex(), self.hashb.g.vindex());
        let top = vv.max(vh) + 5;
        let lv = |v: &V| self.vecb.b2m.contains_key(v);
        let lh = |v: &V| self.hashb.b2m.contains_key(v);
        NamedView {
            free_both: (0..top).filter(|v| !lv(v) && !lh(v)).collect(),
            live_both: (0..top).filter(|v| lv(v) && lh(v)).collect(),
            vindex_vec: vv,
            vindex_hash: vh,
        }
    }

    pub fn step(&mut self, op: &Op) -> StepOut {
        let mut out = StepOut::default();
        let kind = op.kind();
        let named_ok = match op {
            Op::AddNamed { v, .. } => match (self.vecb.b2m.contains_key(v), self.hashb.b2m.contains_key(v)) {
                (true, true) => Some(false),
                (false, false) => Some(true),
                _ => None,
            },
            _ => None,
        };
        let pre = self.model.clone();
        let mut post = pre.clone();
        let mout = match guarded(|| apply_model(&mut post, op, named_ok, self.next_tag)) {
            Ok(Ok(m)) => m,
            Ok(Err(why)) => {
                out.invalid = Some(why);
                return out;
            }
            Err(e) => {
                out.trouble.push(format!("model panicked: {}", e.text()));
                out.stop = true;
                return out;
            }
        };
        if retags(op) {
            self.next_tag += pre.num_vertices() as u64 + 1;
        }
        bump(&mut self.stats, &format!("op:{kind}"));
        if let Some(l) = mout.label {
            bump(&mut self.stats, &format!("smart:{l}"));
        }
        let mut stats = std::mem::take(&mut self.stats);
        let (vv, dv) = apply_backend(&mut self.vecb, op, &pre, &post, &mout, named_ok, &mut stats);
        let (hv, dh) = apply_backend(&mut self.hashb, op, &pre, &post, &mout, named_ok, &mut stats);
        merge(kind, "", vv, hv, &mut out, &mut stats);
        self.model = post;
        if out.stop {
            self.stats = stats;
            return out;
        }
        if matches!(op, Op::MakeBipartite) {
            // terminal operation, judged by its own loose postcondition
            out.stop = true;
            self.stats = stats;
            return out;
        }
        // ---- full state comparison of the main graphs
        let sv = state_viols(&self.model, &self.vecb, false);
        let sh = state_viols(&self.model, &self.hashb, false);
        bump(&mut stats, "state-comparisons");
        bump(&mut stats, "state-comparisons");
        let mut resynced = false;
        if SHARED_DEFAULT_OPS.contains(&kind) && (!sv.is_empty() || !sh.is_empty()) && !out.stop {
            // both backends deviate from the model after a shared default method: if they
            // expose exactly the same graph (and each is internally consistent - an empty
            // model-vs-itself comparison), the property holds; follow the shared behaviour
            if let (Some(mv), Some(mh)) = (model_of_backend(&self.vecb), model_of_backend(&self.hashb)) {
                if mv == mh && mv.well_formed().is_ok() && state_viols(&mv, &self.vecb, false).is_empty() && state_viols(&mh, &self.hashb, false).is_empty() {
                    bump(&mut stats, &format!("observation:shared-default-differs-from-reference-model:{kind}"));
                    self.model = mv;
                    resynced = true;
                }
            }
        }
        if !resynced {
            merge(kind, "", sv, sh, &mut out, &mut stats);
        }
        // ---- derived graphs
        let mut derived_clean = true;
        if let (Some(dv), Some(dh)) = (&dv, &dh) {
            let a = state_viols(&dv.model, &dv.bk, dv.structure_only).into_iter().map(|(t, _, d)| (t, false, d)).collect::<Vec<_>>();
            let b = state_viols(&dh.model, &dh.bk, dh.structure_only).into_iter().map(|(t, _, d)| (t, false, d)).collect::<Vec<_>>();
            bump(&mut stats, "derived-graph-comparisons");
            bump(&mut stats, "derived-graph-comparisons");
            let before = out.viols.len();
            merge(kind, "result:", a, b, &mut out, &mut stats);
            derived_clean = out.viols.len() == before;
        } else if dv.is_some() != dh.is_some() {
            derived_clean = false;
        }
        derived_clean &= !out.viols.iter().any(|v| v.sig.contains("|result:"));
        if !out.stop {
            if let (Some(dv), Some(dh)) = (dv, dh) {
                match op {
                    Op::Clone { adopt, ttl } => {
                        let (mut sv, mut sh) = (dv.bk, dh.bk);
                        if *adopt && derived_clean {
                            std::mem::swap(&mut self.vecb.g, &mut sv.g);
                            std::mem::swap(&mut self.hashb.g, &mut sh.g);
                            bump(&mut stats, "clone:history-continues-on-clone");
                        } else {
                            bump(&mut stats, "clone:history-continues-on-original");
                        }
                        let what = if *adopt && derived_clean { "original-after-mutating-clone" } else { "clone-after-mutating-original" };
                        self.shadow = Some(Shadow { model: self.model.clone(), vecb: sv, hashb: sh, ttl: *ttl, what });
                    }
                    Op::Copy { adopt: true, .. } if derived_clean => {
                        self.vecb = dv.bk;
                        self.hashb = dh.bk;
                        self.model = dv.model;
                        self.shadow = None;
                        bump(&mut stats, "copy:history-continues-on-copy");
                    }
                    _ => {}
                }
            }
        }
        // ---- independence of a kept clone
        if !matches!(op, Op::Clone { .. }) {
            if let Some(sh) = self.shadow.as_mut() {
                let a: Vec<RawViol> = state_viols(&sh.model, &sh.vecb, false).into_iter().filter(|x| !NONFATAL_TAGS.contains(&x.0.as_str())).map(|(t, _, d)| (t, false, d)).collect();
                let b: Vec<RawViol> = state_viols(&sh.model, &sh.hashb, false).into_iter().filter(|x| !NONFATAL_TAGS.contains(&x.0.as_str())).map(|(t, _, d)| (t, false, d)).collect();
                bump(&mut stats, "independence-checks");
                let prefix = format!("not-independent({}):", sh.what);
                merge("clone", &prefix, a, b, &mut out, &mut stats);
                sh.ttl -= 1;
                if sh.ttl == 0 {
                    self.shadow = None;
                }
            }
        }
        self.stats = stats;
        let nv = self.model.num_vertices();
        self.max_vertices = self.max_vertices.max(nv);
        self.max_holes_vec = self.max_holes_vec.max(self.vecb.g.vindex().saturating_sub(nv));
        self.max_gap_hash = self.max_gap_hash.max(self.hashb.g.vindex().saturating_sub(nv));
        out
    }
}

/// Replay a fixed history leniently (operations that are not valid any more are skipped);
/// returns every signature seen.
pub fn replay_signatures(ops: &[Op]) -> BTreeSet<String> {
    let mut ex = Exec::new();
    let mut sigs = BTreeSet::new();
    for op in ops {
        let o = ex.step(op);
        for v in o.viols {
            sigs.insert(v.sig);
        }
        if o.stop {
            break;
        }
    }
    sigs
}

/// Greedy delta debugging: smallest sub-history (found) that still shows `sig`.
pub fn shrink(ops: &[Op], sig: &str) -> Vec<Op> {
    let mut cur: Vec<Op> = ops.to_vec();
    if !replay_signatures(&cur).contains(sig) {
        return cur; // not reproducible leniently: keep the full history
    }
    let mut chunk = (cur.len() / 2).max(1);
    let mut budget = 3000;
    let mut len_at_last_unit_pass = usize::MAX;
    // minimisation is a convenience for the reader of the witness, never part of a verdict:
    // on long histories over large graphs it stops after a few seconds with what it has
    let deadline = std::time::Instant::now() + std::time::Duration::from_secs(8);
    loop {
        let mut i = 0;
        while i < cur.len() && budget > 0 {
            if std::time::Instant::now() > deadline {
                budget = 0;
                break;
            }
            let mut cand = cur.clone();
            let hi = (i + chunk).min(cand.len());
            cand.drain(i..hi);
            budget -= 1;
            if replay_signatures(&cand).contains(sig) {
                cur = cand;
            } else {
                i += chunk;
            }
        }
        if budget == 0 {
            break;
        }
        if chunk == 1 {
            if cur.len() == len_at_last_unit_pass {
                break;
            }
            len_at_last_unit_pass = cur.len();
        }
        chunk = (chunk / 2).max(1);
    }
    // only operations that are actually executed
    let mut ex = Exec::new();
    let mut kept = vec![];
    for op in &cur {
        let o = ex.step(op);
        if o.invalid.is_none() {
            kept.push(op.clone());
        }
        if o.stop {
            break;
        }
    }
    if replay_signatures(&kept).contains(sig) {
        kept
    } else {
        cur
    }
}

fn ops_json(ops: &[Op]) -> Value {
    Value::Array(ops.iter().enumerate().map(|(i, o)| json!(format!("{i}: {o:?}"))).collect())
}

/// The first occurrence of a signature is reported with full detail (and a minimised
/// history); later occurrences only count. Other threads wait until the first report is in.
fn report(sig: &str, family: &'static str, index: u64, detail: impl FnOnce() -> Value) {
    use std::collections::HashMap;
    use std::sync::Arc;
    static SEEN: OnceLock<Mutex<HashMap<String, Arc<OnceLock<()>>>>> = OnceLock::new();
    let cell = SEEN.get_or_init(|| Mutex::new(HashMap::new())).lock().unwrap().entry(sig.to_string()).or_default().clone();
    let mut first = false;
    cell.get_or_init(|| {
        first = true;
        ctx().violation(sig, family, index, detail());
    });
    if !first {
        ctx().violation(sig, family, index, Value::Null);
    }
}

/// One history being executed and judged (random or scripted).
struct Run {
    ex: Exec,
    history: Vec<Op>,
    applied: usize,
    family: &'static str,
    index: u64,
    profile: String,
    reported: BTreeSet<String>,
}

enum Feed {
    Continue,
    Stop,
    Invalid(String),
}

impl Run {
    fn new(family: &'static str, index: u64, profile: String) -> Run {
        Run { ex: Exec::new(), history: vec![], applied: 0, family, index, profile, reported: BTreeSet::new() }
    }

    fn feed(&mut self, op: Op) -> Feed {
        let c = ctx();
        let (family, index) = (self.family, self.index);
        self.history.push(op.clone());
        let o = self.ex.step(&op);
        if let Some(why) = o.invalid {
            self.history.pop();
            return Feed::Invalid(why);
        }
        self.applied += 1;
        let step = self.history.len() - 1;
        for t in &o.trouble {
            if t.starts_with("HARNESS:") || t.starts_with("model panicked") {
                c.harness_error(&format!("{family}#{index} step {step}: {t}"));
            } else {
                c.inconclusive("oracle-error", json!({"family": family, "index": index, "step": step, "msg": t}));
            }
        }
        for v in &o.viols {
            // one report per signature and history (occurrences = histories showing it); the
            // number of individual steps is kept in the counters
            *self.ex.stats.entry(format!("steps-showing:{}", v.sig)).or_default() += 1;
            if !self.reported.insert(v.sig.clone()) {
                continue;
            }
            report(&v.sig, family, index, || {
                let minimal = shrink(&self.history, &v.sig);
                json!({
                    "what": "operation outcome or observable state differs from the reference model",
                    "step": step,
                    "operation": format!("{op:?}"),
                    "fatal_for_history": v.fatal,
                    "mismatches_at_that_step_of_the_full_history": v.detail,
                    "history": ops_json(&self.history),
                    "minimised_history": ops_json(&minimal),
                    "state_after": {"model": model_dump(&self.ex.model), "vec": self.ex.vecb.dump(), "hash": self.ex.hashb.dump()},
                    "profile": self.profile,
                })
            });
        }
        if o.stop {
            Feed::Stop
        } else {
            Feed::Continue
        }
    }

    fn finish(self, ended_by: &str) {
        let c = ctx();
        let ex = &self.ex;
        for (k, v) in &ex.stats {
            c.count(k, *v);
        }
        c.count(&format!("history-ended:{ended_by}"), 1);
        c.count("operations-applied", self.applied as u64);
        c.maximum("max_history_length", self.applied as u64);
        c.maximum("max_vertices", ex.max_vertices as u64);
        c.maximum("max_holes_vec(vindex-num_vertices)", ex.max_holes_vec as u64);
        c.maximum("max_gap_hash(vindex-num_vertices)", ex.max_gap_hash as u64);
        let reused = ex.stats.get("vec:new-vertex:hole-reused(id<vindex)").copied().unwrap_or(0);
        let removed = ex.stats.get("op:remove_vertex").copied().unwrap_or(0);
        let nontrivial = self.applied >= 20 && reused >= 1 && removed >= 1;
        let h = hash_str(&format!("{:?}", self.history));
        c.case(self.family, if nontrivial { Some(h) } else { None });
        let (family, index, applied) = (self.family, self.index, self.applied);
        c.sample_n(4, || json!({"family": family, "index": index, "profile": self.profile, "applied": applied, "first_operations": ops_json(&self.history[..self.history.len().min(25)])}));
    }
}

/// Generate and run one history.
fn run_history(family: &'static str, index: u64, r: &mut Rng, named_beyond: bool, max_len: usize) {
    let prof = Profile::draw(r, named_beyond, max_len);
    run_history_with(family, index, r, prof, false)
}

/// Large graphs: the generator is steered towards 70-150 vertices (ids and slot tables beyond
/// 64, the vector backend's automatic packing threshold `holes * 10 > slots` reached by
/// churn on a big table, long hole lists).
fn run_history_large(family: &'static str, index: u64, r: &mut Rng) {
    let prof = Profile { cap: if r.chance(0.5) { *r.pick(&[70usize, 100, 150, 200]) } else { 40 + r.below(180) }, named_beyond: false, churn: *r.pick(&[1.0, 3.0, 5.0]), len: r.range(250, 600) as usize };
    run_history_with(family, index, r, prof, true)
}

fn run_history_with(family: &'static str, index: u64, r: &mut Rng, prof: Profile, bulk: bool) {
    let mut run = Run::new(family, index, format!("{prof:?}"));
    let mut next_m: M = 0;
    let mut ended_by = "length";
    if bulk {
        // bulk phase: `cap` spiders and a sparse set of edges, fed through the same executor
        // (every step is compared like any other)
        let n0 = prof.cap;
        let mut ops = vec![];
        for _ in 0..n0 {
            let ty = if r.chance(0.6) { VType::Z } else { VType::X };
            ops.push(Op::AddVertexWithPhase { ty, ph: gen_phase(r), m: next_m });
            next_m += 1;
        }
        // shape: a sparse chain, or the same with one or two hubs joined to (almost) every vertex
        let hubs = match r.below(5) {
            0 | 1 => 0,
            2 | 3 => 1,
            _ => 2,
        };
        for i in 1..n0 {
            let j = i - 1 - r.below(3.min(i));
            if j >= hubs || r.chance(0.3) {
                ops.push(Op::AddEdgeWithType { s: j as M, t: i as M, e: gen_etype(r) });
            }
        }
        for h in 0..hubs {
            for i in hubs..n0 {
                if r.chance(0.97) {
                    // both argument orders occur
                    let (s, t) = if r.chance(0.5) { (h, i) } else { (i, h) };
                    ops.push(Op::AddEdgeWithType { s: s as M, t: t as M, e: gen_etype(r) });
                }
            }
        }
        // an edge may have been requested twice (chain + hub): the executor treats a repeated
        // add_edge_with_type as the documented overwrite, like anywhere else in a history
        for op in ops {
            if !matches!(run.feed(op), Feed::Continue) {
                run.finish("bulk-phase-stopped");
                return;
            }
        }
        run.applied = 0;
    }
    'hist: while run.applied < prof.len {
        let mut ops = gen_ops(r, &run.ex.model, &run.ex.named_view(), &prof, &mut next_m);
        if run.applied + ops.len() >= prof.len && r.chance(0.3) {
            ops = vec![Op::MakeBipartite];
        }
        for op in ops {
            let terminal = matches!(op, Op::MakeBipartite);
            match run.feed(op.clone()) {
                Feed::Continue => {}
                Feed::Stop => {
                    ended_by = if terminal { "make_bipartite(terminal)" } else { "stopped-by-violation-or-trouble" };
                    break 'hist;
                }
                Feed::Invalid(why) => {
                    ctx().harness_error(&format!("generator emitted an invalid operation {op:?}: {why}"));
                    ended_by = "harness-error";
                    break 'hist;
                }
            }
        }
    }
    run.finish(ended_by);
}

/// Hand-written histories: every operation kind at least once, the named-insertion classes,
/// every smart-edge case. They are judged exactly like generated ones.
fn scripted_histories() -> Vec<Vec<Op>> {
    use BasisElem::*;
    use EType::{H, N};
    use VType::{B, X, Z};
    let d = |ty: VType, n: i64, dd: i64| MData { ty, phase: Ph::new(n, dd), vars: Par::default(), qubit: 0.0, row: 0.0 };
    let av = |ty: VType, m: M| Op::AddVertex { ty, m };
    let mut hs = vec![];
    // 0: churn, holes, pack, named insertion into a hole and on a live id
    hs.push(vec![
        av(Z, 0), av(X, 1), av(Z, 2), av(B, 3),
        Op::AddEdge { s: 0, t: 1 }, Op::AddEdgeWithType { s: 1, t: 2, e: H }, Op::AddEdgeWithType { s: 2, t: 3, e: N },
        Op::InputsMut(ListEdit::Push(3)),
        Op::RemoveVertex { m: 0 },
        Op::AddVertexWithPhase { ty: Z, ph: (9, 4), m: 4 },
        Op::AddEdgeSmart { s: 4, t: 1, e: H },
        Op::RemoveVertex { m: 1 },
        Op::AddNamed { v: 1, d: d(X, 1, 2), m: 5 },
        Op::AddNamed { v: 1, d: d(Z, 0, 1), m: 6 },
        Op::RemoveVertex { m: 4 },
        Op::Pack { force: false },
        Op::Pack { force: true },
        Op::AddVertexWithData { d: d(Z, 1, 4), m: 7 },
        Op::Clone { adopt: true, ttl: 3 },
        Op::RemoveVertex { m: 7 },
        Op::SetPhase { m: 2, ph: (-7, 4) },
        Op::AddToPhase { m: 2, ph: (1, 2) },
        Op::Subgraph { verts: vec![3, 2] },
        Op::ToAdjoint,
        Op::PlugInput { i: 0, b: Z1 },
    ]);
    // 1: all smart-edge cases, colour change, scalar edits
    let mut h = vec![av(Z, 0), av(Z, 1), av(X, 2), av(X, 3)];
    for (s, t) in [(0, 1), (2, 3), (0, 2), (3, 1)] {
        for (e0, e) in [(N, N), (N, H), (H, N), (H, H)] {
            h.push(Op::AddEdgeSmart { s, t, e: e0 });
            h.push(Op::AddEdgeSmart { s: t, t: s, e });
            h.push(Op::AddEdgeSmart { s, t, e: N });
            h.push(Op::RemoveEdge { s, t });
        }
    }
    // the last RemoveEdge of a Hopf case finds no edge: such steps are skipped as invalid
    h.extend([
        Op::AddEdgeSmart { s: 0, t: 0, e: H },
        Op::AddEdgeSmart { s: 2, t: 2, e: N },
        Op::AddEdge { s: 0, t: 2 },
        Op::AddEdge { s: 2, t: 3 },
        Op::XToZ,
        Op::Scalar(ScalarEdit::MulSqrt2Pow(-3)),
        Op::Scalar(ScalarEdit::MulPhase(3)),
        Op::Scalar(ScalarEdit::MulBy([1, 1, 0, 0], -1)),
        Op::MulScalarFactor { key: 5, s: ([0, 1, 0, 0], 0) },
        Op::MulScalarFactor { key: 5, s: ([1, 0, 0, 1], 1) },
        Op::Adjoint,
        Op::Copy { adjoint: true, adopt: true },
        Op::ToggleEdgeType { s: 0, t: 2 },
        Op::SetEdgeType { s: 2, t: 3, e: EType::Wio },
        Op::Scalar(ScalarEdit::Assign([0, 0, 1, 0], 2)),
    ]);
    hs.push(h);
    // 2: named insertion at and beyond vindex, append, io lists, plugs, bare wire + make_bipartite
    hs.push(vec![
        Op::AddNamed { v: 0, d: d(B, 0, 1), m: 0 },
        Op::AddNamed { v: 3, d: d(Z, 1, 4), m: 1 },
        Op::AddNamed { v: 2, d: d(B, 0, 1), m: 2 },
        av(Z, 3), av(B, 4), av(B, 5),
        Op::AddEdge { s: 0, t: 1 }, Op::AddEdgeWithType { s: 1, t: 2, e: H }, Op::AddEdge { s: 1, t: 3 }, Op::AddEdge { s: 4, t: 5 },
        Op::SetInputs(vec![0, 4]), Op::SetOutputs(vec![2, 5]),
        Op::OutputsMut(ListEdit::Swap(0, 1)), Op::InputsMut(ListEdit::Insert(1, 3)), Op::InputsMut(ListEdit::Remove(1)),
        Op::SetCoord { m: 1, x: 2.5, y: -1.0 }, Op::SetQubit { m: 3, q: 4.0 }, Op::SetRow { m: 3, r: 7.5 },
        Op::SetVars { m: 1, vars: Par::new(&[0, 2], true) }, Op::AddToVars { m: 1, vars: Par::new(&[2, 3], true) },
        Op::SetVertexType { m: 3, ty: VType::ZBox },
        Op::Append { other: Other::Small { verts: vec![d(Z, 1, 8), d(X, 1, 1)], edges: vec![(1, 0, H)], scalar: ([0, 1, 0, 0], -1), cross: true }, new_ms: vec![6, 7] },
        Op::Append { other: Other::SelfClone, new_ms: vec![8, 9, 10, 11, 12, 13, 14, 15] },
        Op::PlugVertex { m: 0, b: X1 }, Op::PlugVertex { m: 3, b: SKIP },
        Op::PlugOutputs(vec![SKIP, Z0]),
        Op::Copy { adjoint: false, adopt: false },
        Op::MakeBipartite,
    ]);
    hs
}

fn run_scripted(index: u64, ops: Vec<Op>) {
    let mut run = Run::new("scripted", index, "scripted".into());
    let mut ended = "length";
    for op in ops {
        let terminal = matches!(op, Op::MakeBipartite);
        match run.feed(op) {
            Feed::Continue => {}
            Feed::Invalid(_) => *run.ex.stats.entry("scripted:skipped-invalid".into()).or_default() += 1,
            Feed::Stop => {
                ended = if terminal { "make_bipartite(terminal)" } else { "stopped-by-violation-or-trouble" };
                break;
            }
        }
    }
    run.finish(ended);
}

/// Self-test of the harness parts only (no verdict about quizx may hide in here): the
/// reference model, the expression pool, and the state comparison's ability to see a
/// difference, exercised on a backend that is driven by three trivial calls.
fn self_test() -> Result<(), String> {
    refgraph::self_test().map_err(|e| format!("refgraph: {e}"))?;
    let pool = expr_pool();
    if pool.len() != EXPR_POOL {
        return Err("expression pool size".into());
    }
    for i in 0..pool.len() {
        for j in 0..i {
            if pool[i] == pool[j] {
                return Err(format!("expression pool entries {i} and {j} coincide"));
            }
        }
    }
    let mut ex = Exec::new();
    for op in [Op::AddVertex { ty: VType::Z, m: 0 }, Op::AddVertex { ty: VType::X, m: 1 }, Op::AddEdge { s: 0, t: 1 }] {
        let o = ex.step(&op);
        if o.invalid.is_some() || !o.trouble.is_empty() {
            return Err(format!("executor self-test failed at {op:?}: {:?} {:?}", o.invalid, o.trouble));
        }
        if o.viols.iter().any(|v| v.fatal) {
            // quizx fails on the most basic calls: that is a finding, reported by the scripted family
            return Ok(());
        }
    }
    for (what, wrong) in [
        ("edge type", { let mut w = ex.model.clone(); w.set_edge_type(0, 1, EType::H).unwrap(); w }),
        ("phase", { let mut w = ex.model.clone(); w.set_phase(0, Ph::new(1, 4)).unwrap(); w }),
        ("missing edge", { let mut w = ex.model.clone(); w.remove_edge(0, 1).unwrap(); w }),
        ("inputs", { let mut w = ex.model.clone(); w.inputs.push(1); w }),
        ("scalar", { let mut w = ex.model.clone(); w.scalar = R::int(2); w }),
    ] {
        if check_state(&wrong, &ex.vecb, false).is_empty() || check_state(&wrong, &ex.hashb, false).is_empty() {
            return Err(format!("state comparison does not notice a changed {what}"));
        }
    }
    Ok(())
}

pub fn run() {
    // `Default::default()` and `GraphLike::new()` must be the same empty graph in each backend
    // (and the two backends' empty graphs must answer alike); observed through public queries
    {
        use quizx::graph::GraphLike;
        macro_rules! empty_checks {
            ($G:ty, $name:literal) => {{
                let (a, b): ($G, $G) = (<$G>::default(), <$G as GraphLike>::new());
                let same = a.num_vertices() == b.num_vertices()
                    && a.num_edges() == b.num_edges()
                    && a.vindex() == b.vindex()
                    && a.scalar() == b.scalar()
                    && a.inputs() == b.inputs()
                    && a.outputs() == b.outputs()
                    && a.scalar_factors().count() == b.scalar_factors().count()
                    && a == b;
                if !same || *b.scalar() != quizx::scalar::Scalar4::new([1, 0, 0, 0], 0) {
                    ctx().violation(
                        concat!("default-vs-new|empty-graphs-differ|", $name),
                        "scripted",
                        0,
                        json!({"backend": $name, "default_scalar": format!("{}", a.scalar()), "new_scalar": format!("{}", b.scalar()), "default_vertices": a.num_vertices(), "new_vertices": b.num_vertices()}),
                    );
                }
                // the same first steps on both must give the same answers
                let (mut a, mut b) = (a, b);
                let (va, vb) = (a.add_vertex(VType::Z), b.add_vertex(VType::Z));
                a.scalar_mut().mul_sqrt2_pow(3);
                b.scalar_mut().mul_sqrt2_pow(3);
                if va != vb || a.scalar() != b.scalar() || a != b {
                    ctx().violation(concat!("default-vs-new|diverge-after-identical-edits|", $name), "scripted", 0, json!({"backend": $name, "default_scalar": format!("{}", a.scalar()), "new_scalar": format!("{}", b.scalar())}));
                }
            }};
        }
        empty_checks!(quizx::vec_graph::Graph, "vec");
        empty_checks!(quizx::hash_graph::Graph, "hash");
        ctx().count("scripted:default-vs-new", 2);
    }

    let c = ctx();
    if let Err(e) = self_test() {
        c.harness_error(&format!("C09 self-test: {e}"));
        return;
    }
    c.set_rule(
        "case = one history (generated: 20-400 operations of the public GraphLike interface; plus 3 scripted ones) applied to vec_graph, hash_graph and the reference model with a full observable-state comparison after every operation; non-trivial when >= 20 operations were applied, at least one vertex was removed and the vector backend reused at least one hole; distinct = distinct operation lists (64-bit hash)",
    );
    c.assume("reference model O5 (harness/src/oracle/refgraph.rs) implements the documented meaning of each operation (self-tested at start); exact scalar arithmetic O1");
    c.assume("harness policy: input/output lists only ever name live vertices (a vertex is taken off the lists before it is removed); plug_* only on boundary vertices with one neighbour; plug_inputs/plug_outputs with full-length lists (the short-list panic belongs to C11)");
    c.assume("add_edge_smart: the pi phase of an N||H pair is expected on the first argument (the calculus allows either end; the shared default method uses `s`)");
    c.assume("append_graph/adjoint leave scalar *factors* alone (documentation silent); copy() and subgraph_from_vertices are compared on vertices/data/edges only (the shared default copy() does not carry over boundary lists or scalar - an observation, not a C09 verdict, since both backends agree)");
    c.assume("named insertion is issued only with ids that are free in both backends or live in both backends");
    c.assume("make_bipartite is judged by a loose postcondition (same-colour Z/X edges split by one opposite-colour phase-0 spider, nothing else changes; new edge types left open) and ends the history");
    let t = c.tier;
    let scripted = scripted_histories();
    let ns = scripted.len();
    par_cases("scripted", ns, move |_r, i| run_scripted(i, scripted[i as usize].clone()));
    let (n, max_len) = t.pick((12_000usize, 400usize), (400_000usize, 400usize));
    par_cases("hist-core", n, move |r, i| run_history("hist-core", i, r, false, max_len));
    par_cases("hist-named", n, move |r, i| run_history("hist-named", i, r, true, max_len));
    par_cases("hist-large", t.pick(60usize, 600usize), move |r, i| run_history_large("hist-large", i, r));
    c.extra("exhaustive", json!(false));
}

//! C09 -- monitor (to be written)
use crate::fw::ctx;

pub fn run() {
    ctx().harness_error("C09 monitor not implemented yet");
}

//! C11 -- monitor (to be written)
use crate::fw::ctx;

pub fn run() {
    ctx().harness_error("C11 monitor not implemented yet");
}

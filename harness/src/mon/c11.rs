//! C11 -- composition, adjoint and basis plugging of diagrams match linear algebra;
//! identity predicate.
//!
//! Events: the real `GraphLike::{plug, append_graph, adjoint, to_adjoint, plug_inputs,
//! plug_outputs, plug_input, plug_output, plug_vertex, is_identity}` (plus the helpers
//! `x_to_z`, `copy`, `subgraph_from_vertices`) run on generated diagrams in both backends
//! (and mixed backends where the call takes `&impl GraphLike`).
//! Oracle: the independent evaluator O2 (`snap::eval_graph`) of operands and results and
//! flat tensor algebra (`oracle::eval::{compose, tensor, dagger}` and the leg contraction
//! below). Exact in Z[omega][1/2] when all phases are multiples of pi/4, 1e-8 otherwise.
//!
//! Readings (where the text leaves room, the reading that cannot blame correct code):
//! * `plug_vertex` is documented as doing no normalisation and leaving the boundary lists
//!   alone: the harness removes the vertex from the lists and expects sqrt2 * (normalised
//!   state applied).
//! * `plug_input(i, b)` / `plug_output(i, b)` are only called with the four real basis
//!   elements (SKIP is not "a basis vertex").
//! * lists longer than the number of wires are never passed (documented: length <= wires).
//! * `copy` / `subgraph_from_vertices` are not part of the statement; only their vertex and
//!   edge structure is checked, what they do with boundary lists and scalar is *observed*
//!   (counters `observed:*`), never a verdict.

use crate::fw::{ctx, guarded, par_cases, Caught};
use crate::gen::diagram::*;
use crate::gen::prng::{hash_bytes, Rng};
use crate::oracle::eval::{self, EvalError, EK, VK};
use crate::oracle::ring::{Cf, Num, R};
use crate::snap::{eval_graph, graph_json, snap, Snap, Tens, FLOAT_TOL};
use quizx::graph::{BasisElem, EType, GraphLike, VType, V};
use num::One;
use serde_json::{json, Value};
use std::collections::{BTreeMap, BTreeSet};

type VG = quizx::vec_graph::Graph;
type HG = quizx::hash_graph::Graph;

// ------------------------------------------------------------------------------------
// tensor algebra on `Tens`
// ------------------------------------------------------------------------------------

fn t_compose(a: &Tens, ai: usize, ao: usize, b: &Tens, bi: usize, bo: usize) -> Tens {
    match (a, b) {
        (Tens::Exact(x), Tens::Exact(y)) => Tens::Exact(eval::compose(x, ai, ao, y, bi, bo)),
        _ => Tens::Float(eval::compose(&a.to_float(), ai, ao, &b.to_float(), bi, bo)),
    }
}

fn t_tensor(a: &Tens, ai: usize, ao: usize, b: &Tens, bi: usize, bo: usize) -> Tens {
    match (a, b) {
        (Tens::Exact(x), Tens::Exact(y)) => Tens::Exact(eval::tensor(x, ai, ao, y, bi, bo)),
        _ => Tens::Float(eval::tensor(&a.to_float(), ai, ao, &b.to_float(), bi, bo)),
    }
}

fn t_dagger(a: &Tens, ni: usize, no: usize) -> Tens {
    match a {
        Tens::Exact(x) => Tens::Exact(eval::dagger(x, ni, no)),
        Tens::Float(x) | Tens::FloatN(x, _) => Tens::Float(eval::dagger(x, ni, no)),
    }
}

/// Contract leg `j` (0 = most significant) of a tensor with `nlegs` legs with the vector `s`.
fn contract_leg<S: Num>(t: &[S], nlegs: usize, j: usize, s: &[S; 2]) -> Vec<S> {
    assert!(j < nlegs && t.len() == 1usize << nlegs);
    let sh = nlegs - 1 - j;
    let mut out = Vec::with_capacity(t.len() / 2);
    for idx in 0..(1usize << (nlegs - 1)) {
        let hi = idx >> sh;
        let lo = idx & ((1usize << sh) - 1);
        let i0 = (hi << (sh + 1)) | lo;
        let i1 = i0 | (1usize << sh);
        out.push(t[i0].mul(&s[0]).add(&t[i1].mul(&s[1])));
    }
    out
}

/// The normalised basis vector of `b` times `scale`: Z0=|0>, Z1=|1>, X0=|+>, X1=|->.
/// All four are real, so the same vector serves as state (input side) and effect (output side).
fn basis_vec<S: Num>(b: BasisElem, inv_sqrt2: &S, scale: &S) -> [S; 2] {
    let v = match b {
        BasisElem::Z0 => [S::one(), S::zero()],
        BasisElem::Z1 => [S::zero(), S::one()],
        BasisElem::X0 => [inv_sqrt2.clone(), inv_sqrt2.clone()],
        BasisElem::X1 => [inv_sqrt2.clone(), inv_sqrt2.neg()],
        BasisElem::SKIP => unreachable!("SKIP has no vector"),
    };
    [v[0].mul(scale), v[1].mul(scale)]
}

/// Apply basis elements to the given legs (leg index, element); legs are contracted from the
/// highest index down so that the remaining legs keep their relative order.
/// `unnormalised`: every vector is multiplied by sqrt2 (semantics of `plug_vertex`).
fn t_apply(t: &Tens, nlegs: usize, plugs: &[(usize, BasisElem)], unnormalised: bool) -> Tens {
    let mut ps: Vec<(usize, BasisElem)> = plugs.iter().copied().filter(|p| p.1 != BasisElem::SKIP).collect();
    ps.sort_by(|a, b| b.0.cmp(&a.0));
    match t {
        Tens::Exact(x) => {
            let inv = R::sqrt2_pow(-1);
            let scale = if unnormalised { R::sqrt2_pow(1) } else { R::one() };
            let mut cur = x.clone();
            let mut n = nlegs;
            for (j, b) in ps {
                cur = contract_leg(&cur, n, j, &basis_vec(b, &inv, &scale));
                n -= 1;
            }
            Tens::Exact(cur)
        }
        Tens::Float(x) | Tens::FloatN(x, _) => {
            let inv = Cf::new(std::f64::consts::FRAC_1_SQRT_2, 0.0);
            let scale = if unnormalised { Cf::new(std::f64::consts::SQRT_2, 0.0) } else { Cf::new(1.0, 0.0) };
            let mut cur = x.clone();
            let mut n = nlegs;
            for (j, b) in ps {
                cur = contract_leg(&cur, n, j, &basis_vec(b, &inv, &scale));
                n -= 1;
            }
            Tens::Float(cur)
        }
    }
}

/// Self-test of the leg contraction against hand-computed values (no quizx involved).
fn self_test() -> Result<(), String> {
    // CNOT tensor [i0 i1 o0 o1]
    let mut cnot = vec![R::zero(); 16];
    for (i, o) in [(0usize, 0usize), (1, 1), (2, 3), (3, 2)] {
        cnot[(i << 2) | o] = R::one();
    }
    let t = Tens::Exact(cnot);
    // plug |1> into input 0 and |+> into input 1: CNOT|1+> = |1+>
    let s = t_apply(&t, 4, &[(0, BasisElem::Z1), (1, BasisElem::X0)], false);
    let h = R::sqrt2_pow(-1);
    let want = vec![R::zero(), R::zero(), h.clone(), h.clone()];
    match &s {
        Tens::Exact(v) if *v == want => {}
        other => return Err(format!("CNOT|1+>: {:?}", other.brief())),
    }
    // effect <-| on output 1, input 1 left open, input 0 = |1>, output 0 = <1|:
    // <1,-| CNOT |1,x> = <-|X|x> = (1/sqrt2)(<0|-<1|) X |x> = x=0: -1/sqrt2 ; x=1: 1/sqrt2
    let s = t_apply(&t, 4, &[(0, BasisElem::Z1), (2, BasisElem::Z1), (3, BasisElem::X1), (1, BasisElem::SKIP)], false);
    match &s {
        Tens::Exact(v) if *v == vec![h.neg(), h.clone()] => {}
        other => return Err(format!("<1-|CNOT|1x>: {:?}", other.brief())),
    }
    // unnormalised: sqrt2 per plugged leg
    let s = t_apply(&t, 4, &[(0, BasisElem::Z0), (1, BasisElem::Z0), (2, BasisElem::Z0), (3, BasisElem::Z0)], true);
    match &s {
        Tens::Exact(v) if *v == vec![R::int(4)] => {}
        other => return Err(format!("unnormalised: {:?}", other.brief())),
    }
    // float path agrees
    let tf = Tens::Float(t.to_float());
    let a = t_apply(&tf, 4, &[(3, BasisElem::X1), (0, BasisElem::X0)], false);
    let b = t_apply(&t, 4, &[(0, BasisElem::X0), (3, BasisElem::X1)], false);
    if !a.same(&b, 1e-12) {
        return Err("float vs exact contraction".into());
    }
    Ok(())
}

// ------------------------------------------------------------------------------------
// generators: diagrams with a prescribed number of inputs and outputs
// ------------------------------------------------------------------------------------

#[derive(Clone, Copy, Debug)]
struct Shape {
    max_spiders: usize,
    pool: PhasePool,
    graph_like: bool,
    /// probability that a boundary is wired straight to the next boundary (bare wire, cap, cup)
    bare_p: f64,
    /// probability of a Hadamard edge at a boundary / on a bare wire
    h_p: f64,
    /// probability that a boundary goes to the same spider as the previous one
    multi_p: f64,
    /// pair boundaries of the same role first: bare wires become caps/cups
    same_role_pairs: bool,
}

fn norm_edge(a: usize, b: usize, k: EK) -> (usize, usize, EK) {
    (a.min(b), a.max(b), k)
}

fn gen_shaped(r: &mut Rng, sh: &Shape, n_in: usize, n_out: usize) -> DDesc {
    let ns = r.below(sh.max_spiders + 1);
    let mut verts = vec![];
    let spider = |r: &mut Rng| DV {
        kind: if sh.graph_like || r.chance(0.55) { VK::Z } else { VK::X },
        ph: gen_phase(r, sh.pool),
        vars: vec![],
    };
    for _ in 0..ns {
        let s = spider(r);
        verts.push(s);
    }
    let mut spiders: Vec<usize> = (0..ns).collect();
    let mut edges = vec![];
    let density = *r.pick(&[0.2, 0.4, 0.7]);
    for a in 0..ns {
        for b in (a + 1)..ns {
            if r.chance(density) {
                let k = if sh.graph_like || r.chance(0.5) { EK::H } else { EK::N };
                edges.push((a, b, k));
            }
        }
    }
    let nb = n_in + n_out;
    let mut roles: Vec<bool> = (0..nb).map(|i| i < n_in).collect(); // true = input
    r.shuffle(&mut roles);
    let b0 = verts.len();
    for _ in 0..nb {
        verts.push(DV { kind: VK::B, ph: (0, 1), vars: vec![] });
    }
    let mut order: Vec<usize> = (0..nb).collect();
    r.shuffle(&mut order);
    if sh.same_role_pairs {
        order.sort_by_key(|&k| roles[k]);
    }
    let mut last: Option<usize> = None;
    let mut i = 0;
    while i < nb {
        let b = b0 + order[i];
        let ek = if r.chance(sh.h_p) { EK::H } else { EK::N };
        let p_bare = if spiders.is_empty() { sh.bare_p.max(0.7) } else { sh.bare_p };
        if i + 1 < nb && r.chance(p_bare) {
            edges.push(norm_edge(b, b0 + order[i + 1], ek));
            i += 2;
            continue;
        }
        if spiders.is_empty() {
            let s = verts.len();
            let sp = spider(r);
            verts.push(sp);
            spiders.push(s);
        }
        let s = match last {
            Some(l) if r.chance(sh.multi_p) => l,
            _ => *r.pick(&spiders),
        };
        last = Some(s);
        edges.push(norm_edge(s, b, ek));
        i += 1;
    }
    let mut inputs: Vec<usize> = (0..nb).filter(|&k| roles[k]).map(|k| b0 + k).collect();
    let mut outputs: Vec<usize> = (0..nb).filter(|&k| !roles[k]).map(|k| b0 + k).collect();
    r.shuffle(&mut inputs);
    r.shuffle(&mut outputs);
    DDesc { verts, edges, inputs, outputs, scalar: gen_scalar(r) }
}

/// positions (in `list`) joined by a bare wire inside `d`
fn wires_within(d: &DDesc, list: &[usize]) -> Vec<(usize, usize)> {
    let pos: BTreeMap<usize, usize> = list.iter().enumerate().map(|(k, &v)| (v, k)).collect();
    d.edges.iter().filter_map(|&(a, b, _)| Some((*pos.get(&a)?, *pos.get(&b)?))).collect()
}

/// Discriminating condition of a seam: what kind of boundary-to-boundary wiring it contains.
fn seam_condition(g: &DDesc, h: &DDesc) -> &'static str {
    let cups = wires_within(g, &g.outputs);
    let caps = wires_within(h, &h.inputs);
    // closed loop made of boundaries only: a connected component of the position graph in
    // which the number of cup/cap wires equals the number of positions
    let m = g.outputs.len();
    let mut parent: Vec<usize> = (0..m).collect();
    fn find(p: &mut Vec<usize>, x: usize) -> usize {
        let mut r = x;
        while p[r] != r {
            r = p[r];
        }
        p[x] = r;
        r
    }
    for &(a, b) in cups.iter().chain(caps.iter()) {
        let (ra, rb) = (find(&mut parent, a), find(&mut parent, b));
        if ra != rb {
            parent[ra] = rb;
        }
    }
    let mut nodes: BTreeMap<usize, usize> = BTreeMap::new();
    let mut wires: BTreeMap<usize, usize> = BTreeMap::new();
    for p in 0..m {
        let c = find(&mut parent, p);
        *nodes.entry(c).or_default() += 1;
    }
    for &(a, _) in cups.iter().chain(caps.iter()) {
        let c = find(&mut parent, a);
        *wires.entry(c).or_default() += 1;
    }
    if wires.iter().any(|(c, &w)| w >= nodes[c]) {
        "boundary-only-closed-loop"
    } else if !caps.is_empty() {
        "other-has-input-input-wire"
    } else if !cups.is_empty() {
        "self-has-output-output-wire"
    } else {
        "plain-seam"
    }
}

// ------------------------------------------------------------------------------------
// small helpers
// ------------------------------------------------------------------------------------

fn pclass(e: &Caught) -> String {
    match e {
        Caught::Panic { msg, .. } => {
            if msg.starts_with("index out of bounds") {
                return "panic:index out of bounds".into();
            }
            let m: String = msg.chars().filter(|c| !c.is_ascii_digit()).take(44).collect();
            format!("panic:{}", m.trim())
        }
        Caught::Budget(r) => format!("budget:{r}"),
        Caught::Oracle(_) => "oracle".into(),
    }
}

fn same_snap(a: &Snap, b: &Snap) -> bool {
    a.diag == b.diag && a.scalar == b.scalar && a.scalar_approx == b.scalar_approx
}

fn elems(l: &[BasisElem]) -> Value {
    json!(l.iter().map(|b| format!("{b:?}")).collect::<Vec<_>>())
}

/// Evaluate a generated operand; None = skip (too wide) or harness error (ill-formed input).
fn eval_operand(g: &impl GraphLike, what: &str) -> Option<Tens> {
    match eval_graph(g) {
        Ok(t) => Some(t),
        Err(EvalError::TooWide(_)) => {
            ctx().skipped();
            None
        }
        Err(EvalError::IllFormed(m)) => {
            ctx().harness_error(&format!("C11 generator produced an ill-formed {what}: {m}"));
            None
        }
    }
}

/// Compare the evaluation of a result graph with the expected tensor.
/// Returns None when fine, Some((class, extra)) otherwise.
fn compare_result(g: &impl GraphLike, expect: &Tens) -> Option<(&'static str, Value)> {
    match eval_graph(g) {
        Ok(t) => {
            if t.len() != expect.len() || !t.same(expect, FLOAT_TOL) {
                Some(("map-mismatch", json!({"expected": expect.brief(), "observed": t.brief(), "result": graph_json(g)})))
            } else {
                None
            }
        }
        Err(EvalError::IllFormed(m)) => Some(("ill-formed-result", json!({"why": m, "result": graph_json(g)}))),
        Err(EvalError::TooWide(_)) => {
            ctx().skipped();
            None
        }
    }
}

// ------------------------------------------------------------------------------------
// plug / append_graph
// ------------------------------------------------------------------------------------

struct Pair {
    g: DDesc,
    h: DDesc,
    scr_g: Option<u64>,
    scr_h: Option<u64>,
}

impl Pair {
    fn json(&self) -> Value {
        json!({"g": self.g.to_json(), "h": self.h.to_json(), "scramble_g": self.scr_g, "scramble_h": self.scr_h})
    }
}

fn check_plug<G1: GraphLike, G2: GraphLike>(family: &'static str, index: u64, bk: &str, p: &Pair, expect: &Tens) {
    let cond = seam_condition(&p.g, &p.h);
    let (g, _) = p.g.build::<G1>(p.scr_g);
    let (h, _) = p.h.build::<G2>(p.scr_h);
    check_plug_graphs(family, index, bk, g, &h, cond, expect, &p.json());
}

/// `g.plug(&h)` on already built operands; `input` is the serialised case.
fn check_plug_graphs<G1: GraphLike, G2: GraphLike>(family: &'static str, index: u64, bk: &str, mut g: G1, h: &G2, cond: &str, expect: &Tens, input: &Value) {
    let c = ctx();
    let g_inputs = g.inputs().clone();
    let n_out = h.outputs().len();
    let h_before = snap(h).ok();
    c.count(&format!("op:plug:{bk}"), 1);
    c.count(&format!("plug:seam:{cond}"), 1);
    let detail = |what: &str, extra: Value| json!({"op": "g.plug(&h)", "what": what, "backends": bk, "pair": input, "seam": cond, "extra": extra});
    match guarded(|| g.plug(h)) {
        Err(Caught::Oracle(m)) => c.inconclusive("oracle-error", json!({"msg": m})),
        Err(e) => c.violation(&format!("plug|{}|{cond}", pclass(&e)), family, index, detail("panic", json!(e.text()))),
        Ok(()) => {
            if let (Some(a), Ok(b)) = (&h_before, snap(h)) {
                if !same_snap(a, &b) {
                    c.violation("plug|argument-modified", family, index, detail("`other` changed", json!(null)));
                }
            }
            if *g.inputs() != g_inputs || g.outputs().len() != n_out {
                c.violation(
                    &format!("plug|boundary-lists-wrong|{cond}"),
                    family,
                    index,
                    detail("inputs must stay, outputs must be those of `other`", json!({"inputs_before": g_inputs, "result": graph_json(&g)})),
                );
                return;
            }
            if let Some((class, extra)) = compare_result(&g, expect) {
                c.violation(&format!("plug|{class}|{cond}"), family, index, detail("E(g.plug(h)) != compose(E(g), E(h))", extra));
            }
        }
    }
}

fn check_append<G1: GraphLike, G2: GraphLike>(family: &'static str, index: u64, bk: &str, p: &Pair, expect: &Tens) {
    let c = ctx();
    let (mut g, _) = p.g.build::<G1>(p.scr_g);
    let (h, _) = p.h.build::<G2>(p.scr_h);
    let gv: BTreeSet<V> = g.vertices().collect();
    let ge = g.num_edges();
    let (g_in, g_out) = (g.inputs().clone(), g.outputs().clone());
    c.count(&format!("op:append_graph:{bk}"), 1);
    let detail = |what: &str, extra: Value| json!({"op": "g.append_graph(&h)", "what": what, "backends": bk, "pair": p.json(), "extra": extra});
    let vmap = match guarded(|| g.append_graph(&h)) {
        Err(Caught::Oracle(m)) => {
            c.inconclusive("oracle-error", json!({"msg": m}));
            return;
        }
        Err(e) => {
            c.violation(&format!("append_graph|{}", pclass(&e)), family, index, detail("panic", json!(e.text())));
            return;
        }
        Ok(m) => m,
    };
    let hv: BTreeSet<V> = h.vertices().collect();
    let keys: BTreeSet<V> = vmap.keys().copied().collect();
    let vals: BTreeSet<V> = vmap.values().copied().collect();
    let now: BTreeSet<V> = g.vertices().collect();
    let fresh = vals.iter().all(|v| !gv.contains(v) && now.contains(v));
    if keys != hv || vals.len() != vmap.len() || !fresh || now.len() != gv.len() + hv.len() || g.num_edges() != ge + h.num_edges() {
        c.violation(
            "append_graph|renaming-not-a-bijection-onto-fresh-ids",
            family,
            index,
            detail("renaming map", json!({"map": format!("{vmap:?}"), "old_vertices": gv, "result": graph_json(&g)})),
        );
        return;
    }
    if *g.inputs() != g_in || *g.outputs() != g_out {
        c.violation("append_graph|boundary-lists-of-self-changed", family, index, detail("documented: NOT updated", graph_json(&g)));
        return;
    }
    // complete the boundary lists as documented
    let mut ins = g_in;
    ins.extend(h.inputs().iter().map(|v| vmap[v]));
    let mut outs = g_out;
    outs.extend(h.outputs().iter().map(|v| vmap[v]));
    g.set_inputs(ins);
    g.set_outputs(outs);
    if let Some((class, extra)) = compare_result(&g, expect) {
        c.violation(&format!("append_graph|{class}"), family, index, detail("E(append) != E(g) (x) E(h)", extra));
    }
}

fn pair_case(family: &'static str, index: u64, r: &mut Rng, g: DDesc, h: DDesc) {
    let c = ctx();
    let p = Pair {
        g,
        h,
        scr_g: if r.chance(0.5) { Some(r.next_u64()) } else { None },
        scr_h: if r.chance(0.5) { Some(r.next_u64()) } else { None },
    };
    let (g0, _) = p.g.build::<VG>(None);
    let (h0, _) = p.h.build::<VG>(None);
    let (Some(eg), Some(eh)) = (eval_operand(&g0, "g"), eval_operand(&h0, "h")) else {
        return;
    };
    let (gi, go, hi, ho) = (p.g.inputs.len(), p.g.outputs.len(), p.h.inputs.len(), p.h.outputs.len());
    assert_eq!(go, hi);
    let composed = t_compose(&eg, gi, go, &eh, hi, ho);
    check_plug::<VG, VG>(family, index, "vec<-vec", &p, &composed);
    check_plug::<VG, HG>(family, index, "vec<-hash", &p, &composed);
    check_plug::<HG, VG>(family, index, "hash<-vec", &p, &composed);
    check_plug::<HG, HG>(family, index, "hash<-hash", &p, &composed);
    if gi + hi + go + ho <= 12 {
        let prod = t_tensor(&eg, gi, go, &eh, hi, ho);
        check_append::<VG, VG>(family, index, "vec<-vec", &p, &prod);
        check_append::<VG, HG>(family, index, "vec<-hash", &p, &prod);
        check_append::<HG, VG>(family, index, "hash<-vec", &p, &prod);
        check_append::<HG, HG>(family, index, "hash<-hash", &p, &prod);
    }
    c.count(&format!("plug:seam-width:{go}"), 1);
    c.count(if composed.is_exact() { "oracle:exact" } else { "oracle:float" }, 1);
    let nontrivial = p.g.verts.len() + p.h.verts.len() >= 2;
    let hsh = hash_bytes(format!("{family}{:?}{:?}", p.g, p.h).as_bytes());
    c.case(family, if nontrivial { Some(hsh) } else { None });
    c.evals(7);
    c.sample_n(3, || json!({"family": family, "index": index, "pair": p.json()}));
}

/// Chains: 3-5 operations one after the other on the SAME graph object - plug(h_k),
/// adjoint() in place, append_graph(h_k) with the boundary lists completed as documented, a
/// clone taken in between - with the expected tensor carried along by the oracle's own
/// compose / dagger / tensor. What one operation leaves behind (recycled ids and holes after
/// the seam vertices were removed, boundary lists rebuilt, scalar accumulated) is the next
/// operation's receiver; the single-operation families always start from a fresh build.
fn chain_case<G: GraphLike>(family: &'static str, index: u64, bk: &str, r: &mut Rng) {
    let c = ctx();
    let sh = Shape { max_spiders: 3, pool: if r.chance(0.8) { PhasePool::Exact } else { PhasePool::Float }, graph_like: r.chance(0.3), bare_p: 0.2, h_p: 0.3, multi_p: 0.3, same_role_pairs: r.chance(0.3) };
    let (mut ni, mut no) = (r.below(3), r.below(4));
    let d0 = gen_shaped(r, &sh, ni, no);
    let scr = if r.chance(0.5) { Some(r.next_u64()) } else { None };
    let (mut g, _) = d0.build::<G>(scr);
    let Some(mut t) = eval_operand(&g, "chain start") else { return };
    let mut trail: Vec<Value> = vec![json!({"start": d0.to_json(), "scramble": scr})];
    let steps = 3 + r.below(3);
    let mut done = 0;
    for _ in 0..steps {
        let op = r.below(10);
        if op < 5 {
            // plug
            let ho = r.below(4);
            let h = gen_shaped(r, &sh, no, ho);
            let sh_scr = if r.chance(0.5) { Some(r.next_u64()) } else { None };
            let (hg, _) = h.build::<VG>(sh_scr);
            let Some(eh) = eval_operand(&hg, "chain operand") else { return };
            t = t_compose(&t, ni, no, &eh, no, ho);
            trail.push(json!({"plug": h.to_json(), "scramble": sh_scr}));
            if let Err(e) = guarded(|| g.plug(&hg)) {
                if !matches!(e, Caught::Oracle(_)) {
                    c.violation(&format!("plug|{}|in-chain", pclass(&e)), family, index, json!({"backend": bk, "chain": trail, "panic": e.text()}));
                }
                return;
            }
            no = ho;
            c.count("chain-op:plug", 1);
        } else if op < 7 {
            t = t_dagger(&t, ni, no);
            std::mem::swap(&mut ni, &mut no);
            trail.push(json!("adjoint()"));
            if let Err(e) = guarded(|| g.adjoint()) {
                if !matches!(e, Caught::Oracle(_)) {
                    c.violation(&format!("adjoint|{}|in-chain", pclass(&e)), family, index, json!({"backend": bk, "chain": trail, "panic": e.text()}));
                }
                return;
            }
            c.count("chain-op:adjoint", 1);
        } else if op < 9 && ni + no <= 4 {
            let (hi, ho) = (r.below(2), r.below(2));
            let h = gen_shaped(r, &sh, hi, ho);
            let (hg, _) = h.build::<HG>(None);
            let Some(eh) = eval_operand(&hg, "chain operand") else { return };
            t = t_tensor(&t, ni, no, &eh, hi, ho);
            trail.push(json!({"append_graph": h.to_json()}));
            let (g_in, g_out) = (g.inputs().clone(), g.outputs().clone());
            match guarded(|| g.append_graph(&hg)) {
                Err(e) => {
                    if !matches!(e, Caught::Oracle(_)) {
                        c.violation(&format!("append_graph|{}|in-chain", pclass(&e)), family, index, json!({"backend": bk, "chain": trail, "panic": e.text()}));
                    }
                    return;
                }
                Ok(vmap) => {
                    let mut ins = g_in;
                    let mut outs = g_out;
                    if hg.inputs().iter().chain(hg.outputs().iter()).any(|v| !vmap.contains_key(v)) {
                        c.violation("append_graph|renaming-not-a-bijection-onto-fresh-ids|in-chain", family, index, json!({"backend": bk, "chain": trail, "map": format!("{vmap:?}")}));
                        return;
                    }
                    ins.extend(hg.inputs().iter().map(|v| vmap[v]));
                    outs.extend(hg.outputs().iter().map(|v| vmap[v]));
                    g.set_inputs(ins);
                    g.set_outputs(outs);
                }
            }
            ni += hi;
            no += ho;
            c.count("chain-op:append_graph", 1);
        } else {
            g = g.clone();
            trail.push(json!("clone()"));
            c.count("chain-op:clone", 1);
        }
        done += 1;
        if g.inputs().len() != ni || g.outputs().len() != no {
            c.violation("chain|boundary-lists-wrong", family, index, json!({"backend": bk, "chain": trail, "expected_inputs_outputs": [ni, no], "result": graph_json(&g)}));
            return;
        }
        if let Some((class, extra)) = compare_result(&g, &t) {
            let last = trail.last().map(|v| if v.is_string() { v.as_str().unwrap_or("").to_string() } else { v.as_object().and_then(|o| o.keys().next().cloned()).unwrap_or_default() }).unwrap_or_default();
            let last = last.trim_end_matches("()").to_string();
            c.violation(&format!("{last}|{class}|in-chain"), family, index, json!({"backend": bk, "chain": trail, "failed_after_step": done, "extra": extra}));
            return;
        }
    }
    c.maximum("max_chain_length", done as u64);
    let hsh = hash_bytes(format!("{family}{bk}{trail:?}").as_bytes());
    c.case(family, if done >= 2 { Some(hsh) } else { None });
}

/// Family (c): operands derived from circuits. quizx's own translation is used only as an
/// input generator: the expected value is computed from the evaluator applied to the very
/// operands. Variants: plain, first operand adjointed (the composition the equality checker
/// builds), basis states plugged into the first operand's inputs.
fn circuit_pair_case(family: &'static str, index: u64, r: &mut Rng, max_q: usize, max_d: usize) {
    use crate::gen::circuit::{circ_json, gen_circuit, to_quizx, CircParams, PhPool};
    let c = ctx();
    let pool = if r.chance(0.75) { PhPool::Exact } else { PhPool::Float };
    let n = 1 + r.below(max_q);
    let mut p = CircParams::unitary(n, max_d, pool);
    p.min_qubits = n;
    let (ca, cb) = (gen_circuit(r, &p), gen_circuit(r, &p));
    let (qa, qb) = (to_quizx(&ca), to_quizx(&cb));
    let variant = r.below(3);
    let states: Vec<BasisElem> = (0..n).map(|_| *r.pick(&ALL_ELEMS)).collect();
    fn mk<G: GraphLike>(q: &quizx::circuit::Circuit, variant: usize, states: &[BasisElem], first: bool) -> G {
        let mut g: G = q.to_graph();
        if first {
            match variant {
                1 => g.adjoint(),
                2 => g.plug_inputs(states),
                _ => {}
            }
        }
        g
    }
    let vname = ["to_graph", "to_graph then adjoint", "to_graph then plug_inputs"][variant];
    let input = json!({"circuit_g": circ_json(&ca), "circuit_h": circ_json(&cb), "variant": vname, "states": elems(&states)});
    let Ok((g0, h0)) = guarded(|| (mk::<VG>(&qa, variant, &states, true), mk::<VG>(&qb, variant, &states, false))) else {
        c.skipped();
        return;
    };
    let (Some(eg), Some(eh)) = (eval_operand(&g0, "g"), eval_operand(&h0, "h")) else {
        return;
    };
    let (gi, go, hi, ho) = (g0.inputs().len(), g0.outputs().len(), h0.inputs().len(), h0.outputs().len());
    let composed = t_compose(&eg, gi, go, &eh, hi, ho);
    let cond = "circuit-derived";
    let h_hash: HG = mk(&qb, variant, &states, false);
    check_plug_graphs(family, index, "vec<-vec", mk::<VG>(&qa, variant, &states, true), &h0, cond, &composed, &input);
    check_plug_graphs(family, index, "vec<-hash", mk::<VG>(&qa, variant, &states, true), &h_hash, cond, &composed, &input);
    check_plug_graphs(family, index, "hash<-vec", mk::<HG>(&qa, variant, &states, true), &h0, cond, &composed, &input);
    check_plug_graphs(family, index, "hash<-hash", mk::<HG>(&qa, variant, &states, true), &h_hash, cond, &composed, &input);
    c.count(&format!("plug:seam-width:{go}"), 1);
    c.count(if composed.is_exact() { "oracle:exact" } else { "oracle:float" }, 1);
    let hsh = hash_bytes(format!("{family}{ca:?}{cb:?}{variant}{states:?}").as_bytes());
    c.case(family, if !ca.gates.is_empty() || !cb.gates.is_empty() { Some(hsh) } else { None });
    c.evals(3);
    c.sample_n(8, || json!({"family": family, "index": index, "pair": input}));
}

// ------------------------------------------------------------------------------------
// adjoint, x_to_z, copy, subgraph, basis plugging: one diagram, one backend
// ------------------------------------------------------------------------------------

fn check_adjoint<G: GraphLike>(family: &'static str, index: u64, bk: &str, d: &DDesc, scr: Option<u64>, e: &Tens) {
    let c = ctx();
    let (g, _) = d.build::<G>(scr);
    let (ni, no) = (d.inputs.len(), d.outputs.len());
    let detail = |op: &str, what: &str, extra: Value| json!({"op": op, "what": what, "backend": bk, "diagram": d.to_json(), "scramble": scr, "extra": extra});
    let Ok(s0) = snap(&g) else { return };
    c.count(&format!("op:adjoint:{bk}"), 1);
    let a = match guarded(|| g.to_adjoint()) {
        Err(Caught::Oracle(m)) => {
            c.inconclusive("oracle-error", json!({"msg": m}));
            return;
        }
        Err(er) => {
            c.violation(&format!("to_adjoint|{}", pclass(&er)), family, index, detail("to_adjoint", "panic", json!(er.text())));
            return;
        }
        Ok(a) => a,
    };
    if !snap(&g).map(|s| same_snap(&s, &s0)).unwrap_or(false) {
        c.violation("to_adjoint|receiver-modified", family, index, detail("to_adjoint", "receiver changed", json!(null)));
    }
    let want = t_dagger(e, ni, no);
    if let Some((class, extra)) = compare_result(&a, &want) {
        c.violation(&format!("to_adjoint|{class}"), family, index, detail("to_adjoint", "E(adjoint) != dagger(E(g))", extra));
    }
    let mut b = g.clone();
    match guarded(|| b.adjoint()) {
        Err(er) => c.violation(&format!("adjoint|{}", pclass(&er)), family, index, detail("adjoint", "panic", json!(er.text()))),
        Ok(()) => {
            let same = matches!((snap(&a), snap(&b)), (Ok(x), Ok(y)) if same_snap(&x, &y));
            if !same {
                c.violation("adjoint|differs-from-to_adjoint", family, index, detail("adjoint", "in-place and copying variants differ", graph_json(&b)));
            }
            if guarded(|| b.adjoint()).is_ok() {
                let back = snap(&b).map(|s| same_snap(&s, &s0)).unwrap_or(false);
                if !back {
                    c.violation("adjoint|not-an-involution", family, index, detail("adjoint", "adjoint twice is not structurally the original", graph_json(&b)));
                }
                c.count("op:adjoint-twice", 1);
            }
        }
    }
    // helper: colour change
    let mut z = g.clone();
    c.count(&format!("op:x_to_z:{bk}"), 1);
    match guarded(|| z.x_to_z()) {
        Err(er) => c.violation(&format!("x_to_z|{}", pclass(&er)), family, index, detail("x_to_z", "panic", json!(er.text()))),
        Ok(()) => {
            if z.vertices().any(|v| z.vertex_type(v) == VType::X) {
                c.violation("x_to_z|x-spider-left", family, index, detail("x_to_z", "X spider left", graph_json(&z)));
            } else if let Some((class, extra)) = compare_result(&z, e) {
                c.violation(&format!("x_to_z|{class}"), family, index, detail("x_to_z", "E changed", extra));
            }
        }
    }
}

/// `copy` / `subgraph_from_vertices`: vertex data and edges under the renaming recovered from
/// unique tags (which ids the new vertices get is the backend's business; C09 checks the
/// documented "consecutive indices" of `copy`).
fn check_copy_helpers<G: GraphLike>(family: &'static str, index: u64, bk: &str, d: &DDesc, scr: Option<u64>, r: &mut Rng) {
    let c = ctx();
    let (mut g, _) = d.build::<G>(scr);
    // every vertex gets a unique tag in its (cosmetic) row coordinate: the copy is matched to
    // the original through the tags, whatever ids the backend gives the new vertices
    {
        let vs: Vec<V> = g.vertices().collect();
        for (k, v) in vs.into_iter().enumerate() {
            g.set_row(v, 1000.0 + k as f64);
        }
    }
    let detail = |op: &str, what: &str, extra: Value| json!({"op": op, "what": what, "backend": bk, "diagram": d.to_json(), "scramble": scr, "extra": extra});
    let structure_ok = |res: &G, verts: &[V], negate: bool| -> Result<(), String> {
        let k = verts.len();
        if res.num_vertices() != k {
            return Err(format!("{} vertices, expected {k}", res.num_vertices()));
        }
        // tag -> vertex of the result
        let mut by_tag: BTreeMap<i64, V> = BTreeMap::new();
        for w in res.vertices() {
            if by_tag.insert(res.row(w) as i64, w).is_some() {
                return Err("two result vertices carry the same tag".into());
            }
        }
        let mut image: BTreeMap<V, V> = BTreeMap::new();
        for &v in verts {
            match by_tag.get(&(g.row(v) as i64)) {
                Some(&w) => {
                    image.insert(v, w);
                }
                None => return Err(format!("vertex {v} has no counterpart in the result")),
            }
        }
        let pos: BTreeMap<V, V> = image.clone();
        for &v in verts {
            let i = image[&v];
            let ph = if negate { -g.phase(v) } else { g.phase(v) };
            if res.vertex_type(i) != g.vertex_type(v) || res.phase(i) != ph {
                return Err(format!("vertex {v} -> {i}: type/phase differ"));
            }
        }
        let mut want: Vec<(V, V, EType)> = g
            .edges()
            .filter_map(|(s, t, et)| {
                let (a, b) = (*pos.get(&s)?, *pos.get(&t)?);
                Some((a.min(b), a.max(b), et))
            })
            .collect();
        want.sort();
        let mut got: Vec<(V, V, EType)> = res.edges().map(|(s, t, et)| (s.min(t), s.max(t), et)).collect();
        got.sort();
        if want != got {
            return Err(format!("edges differ: want {want:?} got {got:?}"));
        }
        Ok(())
    };
    let all: Vec<V> = g.vertices().collect();
    for adj in [false, true] {
        c.count(&format!("op:copy:{bk}"), 1);
        match guarded(|| g.copy(adj)) {
            Err(er) => c.violation(&format!("copy|{}", pclass(&er)), family, index, detail("copy", "panic", json!(er.text()))),
            Ok(cp) => {
                if let Err(m) = structure_ok(&cp, &all, adj) {
                    c.violation("copy|structure-differs", family, index, detail("copy", &m, json!({"adjoint": adj, "result": graph_json(&cp)})));
                }
                // observations only (not part of the statement)
                if !g.inputs().is_empty() || !g.outputs().is_empty() {
                    if cp.inputs().is_empty() && cp.outputs().is_empty() {
                        c.count("observed:copy:boundary-lists-not-carried-over", 1);
                    } else {
                        c.count("observed:copy:boundary-lists-carried-over", 1);
                    }
                }
                if !g.scalar().is_one() {
                    if cp.scalar().is_one() {
                        c.count("observed:copy:scalar-not-carried-over", 1);
                    } else {
                        c.count("observed:copy:scalar-carried-over", 1);
                    }
                }
            }
        }
    }
    let mut sub: Vec<V> = all.iter().copied().filter(|_| r.chance(0.6)).collect();
    r.shuffle(&mut sub);
    c.count(&format!("op:subgraph_from_vertices:{bk}"), 1);
    let sub2 = sub.clone();
    match guarded(|| g.subgraph_from_vertices(sub2)) {
        Err(er) => c.violation(&format!("subgraph_from_vertices|{}", pclass(&er)), family, index, detail("subgraph_from_vertices", "panic", json!(er.text()))),
        Ok(sg) => {
            if let Err(m) = structure_ok(&sg, &sub, false) {
                c.violation(
                    "subgraph_from_vertices|structure-differs",
                    family,
                    index,
                    detail("subgraph_from_vertices", &m, json!({"verts": sub, "result": graph_json(&sg)})),
                );
            }
        }
    }
}

fn len_class(len: usize, n: usize) -> &'static str {
    if len < n {
        "list-shorter-than-wires"
    } else {
        "full-length-list"
    }
}

const REAL_ELEMS: [BasisElem; 4] = [BasisElem::Z0, BasisElem::Z1, BasisElem::X0, BasisElem::X1];
const ALL_ELEMS: [BasisElem; 5] = [BasisElem::Z0, BasisElem::Z1, BasisElem::X0, BasisElem::X1, BasisElem::SKIP];

/// lists to try for one length: all 5^len when that is at most 25, else `k` random ones
/// (always including the all-SKIP list and one list without SKIP)
fn lists_of_len(r: &mut Rng, len: usize, k: usize) -> Vec<Vec<BasisElem>> {
    if 5usize.pow(len as u32) <= 25 {
        let mut out = vec![];
        for mut code in 0..5usize.pow(len as u32) {
            let mut l = vec![];
            for _ in 0..len {
                l.push(ALL_ELEMS[code % 5]);
                code /= 5;
            }
            out.push(l);
        }
        out
    } else {
        let mut out = vec![vec![BasisElem::SKIP; len], (0..len).map(|_| *r.pick(&REAL_ELEMS)).collect()];
        for _ in 0..k {
            out.push((0..len).map(|_| if r.chance(0.3) { BasisElem::SKIP } else { *r.pick(&REAL_ELEMS) }).collect());
        }
        out
    }
}

fn check_basis<G: GraphLike>(family: &'static str, index: u64, bk: &str, d: &DDesc, scr: Option<u64>, e: &Tens, r: &mut Rng) {
    let c = ctx();
    let (ni, no) = (d.inputs.len(), d.outputs.len());
    let nlegs = ni + no;
    let (g0, _) = d.build::<G>(scr);
    let detail = |op: String, what: &str, extra: Value| json!({"op": op, "what": what, "backend": bk, "diagram": d.to_json(), "scramble": scr, "extra": extra});
    // plug_inputs / plug_outputs with every list length 0..=n
    for on_inputs in [true, false] {
        let (n, name, off) = if on_inputs { (ni, "plug_inputs", 0) } else { (no, "plug_outputs", ni) };
        for len in 0..=n {
            for list in lists_of_len(r, len, 3) {
                let mut g = g0.clone();
                let before_in = g.inputs().clone();
                let before_out = g.outputs().clone();
                let lc = len_class(len, n);
                c.count(&format!("op:{name}:{lc}"), 1);
                c.count(&format!("{name}:list-length:{len}-of-{n}"), 1);
                if list.iter().any(|b| *b == BasisElem::SKIP) {
                    c.count(&format!("op:{name}:with-SKIP"), 1);
                }
                let res = guarded(|| if on_inputs { g.plug_inputs(&list) } else { g.plug_outputs(&list) });
                let opname = format!("{name}({:?})", list);
                match res {
                    Err(Caught::Oracle(m)) => c.inconclusive("oracle-error", json!({"msg": m})),
                    Err(er) => c.violation(
                        &format!("{name}|{}|{lc}", pclass(&er)),
                        family,
                        index,
                        detail(opname, "panic", json!({"panic": er.text(), "list": elems(&list), "wires": n})),
                    ),
                    Ok(()) => {
                        let keep = |k: usize| k >= len || list[k] == BasisElem::SKIP;
                        let (want_in, want_out): (Vec<V>, Vec<V>) = if on_inputs {
                            (before_in.iter().enumerate().filter(|(k, _)| keep(*k)).map(|(_, v)| *v).collect(), before_out.clone())
                        } else {
                            (before_in.clone(), before_out.iter().enumerate().filter(|(k, _)| keep(*k)).map(|(_, v)| *v).collect())
                        };
                        if *g.inputs() != want_in || *g.outputs() != want_out {
                            c.violation(
                                &format!("{name}|remaining-wires-wrong|{lc}"),
                                family,
                                index,
                                detail(opname, "open wires must keep their order", json!({"list": elems(&list), "want_inputs": want_in, "want_outputs": want_out, "result": graph_json(&g)})),
                            );
                            continue;
                        }
                        let plugs: Vec<(usize, BasisElem)> = list.iter().enumerate().map(|(k, b)| (off + k, *b)).collect();
                        let want = t_apply(e, nlegs, &plugs, false);
                        if let Some((class, extra)) = compare_result(&g, &want) {
                            c.violation(&format!("{name}|{class}|{lc}"), family, index, detail(opname, "E != basis elements applied", json!({"list": elems(&list), "cmp": extra})));
                        }
                    }
                }
            }
        }
        // plug_input(i, b) / plug_output(i, b)
        let name1 = if on_inputs { "plug_input" } else { "plug_output" };
        for i in 0..n {
            let choice: Vec<BasisElem> = if n <= 2 { REAL_ELEMS.to_vec() } else { vec![*r.pick(&REAL_ELEMS)] };
            for b in choice {
                let mut g = g0.clone();
                let mut want_in = g.inputs().clone();
                let mut want_out = g.outputs().clone();
                if on_inputs {
                    want_in.remove(i);
                } else {
                    want_out.remove(i);
                }
                c.count(&format!("op:{name1}:{b:?}"), 1);
                let opname = format!("{name1}({i}, {b:?})");
                match guarded(|| if on_inputs { g.plug_input(i, b) } else { g.plug_output(i, b) }) {
                    Err(Caught::Oracle(m)) => c.inconclusive("oracle-error", json!({"msg": m})),
                    Err(er) => c.violation(&format!("{name1}|{}", pclass(&er)), family, index, detail(opname, "panic", json!(er.text()))),
                    Ok(()) => {
                        if *g.inputs() != want_in || *g.outputs() != want_out {
                            c.violation(&format!("{name1}|remaining-wires-wrong"), family, index, detail(opname, "open wires must keep their order", graph_json(&g)));
                            continue;
                        }
                        let want = t_apply(e, nlegs, &[(off + i, b)], false);
                        if let Some((class, extra)) = compare_result(&g, &want) {
                            c.violation(&format!("{name1}|{class}"), family, index, detail(opname, "E != basis element applied", extra));
                        }
                    }
                }
            }
        }
    }
    // plug_vertex(v, b): no normalisation, boundary lists untouched (documented)
    for leg in 0..nlegs {
        let choice: Vec<BasisElem> = if nlegs <= 3 { ALL_ELEMS.to_vec() } else { vec![*r.pick(&ALL_ELEMS), BasisElem::SKIP] };
        for b in choice {
            let mut g = g0.clone();
            let v = if leg < ni { g.inputs()[leg] } else { g.outputs()[leg - ni] };
            let (bi, bo) = (g.inputs().clone(), g.outputs().clone());
            c.count(&format!("op:plug_vertex:{b:?}"), 1);
            let opname = format!("plug_vertex({v}, {b:?})");
            match guarded(|| g.plug_vertex(v, b)) {
                Err(Caught::Oracle(m)) => c.inconclusive("oracle-error", json!({"msg": m})),
                Err(er) => c.violation(&format!("plug_vertex|{}", pclass(&er)), family, index, detail(opname, "panic", json!(er.text()))),
                Ok(()) => {
                    if *g.inputs() != bi || *g.outputs() != bo {
                        c.violation("plug_vertex|boundary-lists-changed", family, index, detail(opname, "documented: lists are not updated", graph_json(&g)));
                        continue;
                    }
                    if b == BasisElem::SKIP {
                        let same = matches!((snap(&g), snap(&g0)), (Ok(x), Ok(y)) if same_snap(&x, &y));
                        if !same {
                            c.violation("plug_vertex|SKIP-changed-the-graph", family, index, detail(opname, "SKIP must leave the wire open", graph_json(&g)));
                        }
                        continue;
                    }
                    if leg < ni {
                        g.inputs_mut().remove(leg);
                    } else {
                        g.outputs_mut().remove(leg - ni);
                    }
                    let want = t_apply(e, nlegs, &[(leg, b)], true);
                    if let Some((class, extra)) = compare_result(&g, &want) {
                        c.violation(&format!("plug_vertex|{class}"), family, index, detail(opname, "E != sqrt2 * basis element applied", extra));
                    }
                }
            }
        }
    }
}

fn unary_case(family: &'static str, index: u64, r: &mut Rng, d: DDesc) {
    let c = ctx();
    let scr = if r.chance(0.5) { Some(r.next_u64()) } else { None };
    let (g0, _) = d.build::<VG>(None);
    let Some(e) = eval_operand(&g0, "diagram") else { return };
    check_adjoint::<VG>(family, index, "vec", &d, scr, &e);
    check_adjoint::<HG>(family, index, "hash", &d, scr, &e);
    check_copy_helpers::<VG>(family, index, "vec", &d, scr, r);
    check_copy_helpers::<HG>(family, index, "hash", &d, scr, r);
    check_basis::<VG>(family, index, "vec", &d, scr, &e, r);
    check_basis::<HG>(family, index, "hash", &d, scr, &e, r);
    c.count(if e.is_exact() { "oracle:exact" } else { "oracle:float" }, 1);
    c.count(&format!("unary:wires:{}in-{}out", d.inputs.len(), d.outputs.len()), 1);
    let hsh = hash_bytes(format!("{family}{d:?}").as_bytes());
    c.case(family, if d.verts.len() >= 2 { Some(hsh) } else { None });
    c.sample_n(6, || json!({"family": family, "index": index, "diagram": d.to_json()}));
}

// ------------------------------------------------------------------------------------
// is_identity
// ------------------------------------------------------------------------------------

/// The harness predicate: exactly 2n vertices, i-th input joined to i-th output by a plain
/// edge (and, the description being well-formed, therefore nothing else).
/// Returns (strict, same test ignoring the edge kind).
fn identity_predicate(d: &DDesc) -> (bool, bool) {
    let n = d.inputs.len();
    if d.outputs.len() != n || d.verts.len() != 2 * n {
        return (false, false);
    }
    let mut strict = true;
    let mut loose = true;
    for i in 0..n {
        let (a, b) = (d.inputs[i].min(d.outputs[i]), d.inputs[i].max(d.outputs[i]));
        match d.edges.iter().find(|e| e.0 == a && e.1 == b) {
            Some(e) => {
                if e.2 != EK::N {
                    strict = false;
                }
            }
            None => {
                strict = false;
                loose = false;
            }
        }
    }
    (strict, loose)
}

/// near-identity wire diagrams; returns the description and the name of the variant
fn gen_near_identity(r: &mut Rng) -> (DDesc, &'static str) {
    let n = r.below(5);
    let bv = || DV { kind: VK::B, ph: (0, 1), vars: vec![] };
    // creation order of the 2n boundary vertices is random
    let mut ids: Vec<usize> = (0..2 * n).collect();
    r.shuffle(&mut ids);
    let mut verts: Vec<DV> = (0..2 * n).map(|_| bv()).collect();
    let mut inputs: Vec<usize> = ids[..n].to_vec();
    let mut outputs: Vec<usize> = ids[n..].to_vec();
    let mut kinds: Vec<EK> = vec![EK::N; n];
    let mut variant = "identity";
    let mut extra_edges: Vec<(usize, usize, EK)> = vec![];
    let mut drop_wires: Vec<usize> = vec![];
    let choice = r.below(10);
    match choice {
        0 | 1 => {}
        2 if n >= 2 => {
            // permuted outputs (not the identity permutation)
            let orig = outputs.clone();
            while outputs == orig {
                r.shuffle(&mut outputs);
            }
            // wires still join inputs[i] to orig[i]
            variant = "permuted-wires";
            let mut edges = vec![];
            for i in 0..n {
                edges.push(norm_edge(inputs[i], orig[i], EK::N));
            }
            return (DDesc { verts, edges, inputs, outputs, scalar: gen_scalar(r) }, variant);
        }
        3 if n >= 1 => {
            let k = 1 + r.below(n);
            let mut w: Vec<usize> = (0..n).collect();
            r.shuffle(&mut w);
            for &i in &w[..k] {
                kinds[i] = EK::H;
            }
            variant = "hadamard-wires";
        }
        4 => {
            verts.push(DV { kind: if r.chance(0.5) { VK::Z } else { VK::X }, ph: gen_phase(r, PhasePool::Exact), vars: vec![] });
            variant = "extra-isolated-spider";
        }
        5 if n >= 2 => {
            // wires 0 and 1 replaced by an input-input cap and an output-output cup
            drop_wires = vec![0, 1];
            let k = if r.chance(0.3) { EK::H } else { EK::N };
            extra_edges.push(norm_edge(inputs[0], inputs[1], k));
            extra_edges.push(norm_edge(outputs[0], outputs[1], k));
            variant = "cap-and-cup";
        }
        6 if n >= 1 => {
            // a phase-free spider in the middle of wire 0
            let s = verts.len();
            verts.push(DV { kind: VK::Z, ph: (0, 1), vars: vec![] });
            drop_wires = vec![0];
            extra_edges.push(norm_edge(inputs[0], s, EK::N));
            extra_edges.push(norm_edge(s, outputs[0], EK::N));
            variant = "spider-on-wire";
        }
        7 if n >= 1 => {
            // the two ends of some wires exchange roles: still plain wires from the i-th
            // input to the i-th output
            for i in 0..n {
                if r.chance(0.5) {
                    std::mem::swap(&mut inputs[i], &mut outputs[i]);
                }
            }
            variant = "identity-ends-exchanged";
        }
        8 => {
            // an extra output-output (or input-input) wire: arities differ
            let a = verts.len();
            verts.push(bv());
            let b = verts.len();
            verts.push(bv());
            extra_edges.push((a, b, EK::N));
            if r.chance(0.5) {
                outputs.push(a);
                outputs.push(b);
            } else {
                inputs.push(a);
                inputs.push(b);
            }
            variant = "extra-cup-or-cap";
        }
        9 if n >= 2 => {
            // hadamard wire and a transposition
            kinds[0] = EK::H;
            let mut edges = vec![];
            for i in 0..n {
                edges.push(norm_edge(inputs[i], outputs[i], kinds[i]));
            }
            outputs.swap(0, 1);
            return (DDesc { verts, edges, inputs, outputs, scalar: gen_scalar(r) }, "hadamard-and-permuted");
        }
        _ => {}
    }
    let mut edges = vec![];
    for i in 0..n {
        if !drop_wires.contains(&i) {
            edges.push(norm_edge(inputs[i], outputs[i], kinds[i]));
        }
    }
    edges.extend(extra_edges);
    (DDesc { verts, edges, inputs, outputs, scalar: gen_scalar(r) }, variant)
}

fn check_identity<G: GraphLike>(family: &'static str, index: u64, bk: &str, d: &DDesc, scr: Option<u64>, variant: &str) {
    let c = ctx();
    let (g, _) = d.build::<G>(scr);
    let (strict, loose) = identity_predicate(d);
    c.count(&format!("op:is_identity:{bk}"), 1);
    let detail = |what: &str, obs: Value| json!({"op": "is_identity", "what": what, "backend": bk, "variant": variant, "diagram": d.to_json(), "scramble": scr, "expected": strict, "observed": obs});
    match guarded(|| g.is_identity()) {
        Err(Caught::Oracle(m)) => c.inconclusive("oracle-error", json!({"msg": m})),
        Err(er) => c.violation(&format!("is_identity|{}", pclass(&er)), family, index, detail("panic", json!(er.text()))),
        Ok(obs) => {
            c.count(&format!("is_identity:expected-{strict}:observed-{obs}"), 1);
            if obs && !strict {
                let cond = if loose { "hadamard-wire" } else { "not-a-wire-diagram" };
                c.violation(&format!("is_identity|true-for-non-identity|{cond}"), family, index, detail("answers true for a diagram that is not plain in-order wires", json!(obs)));
            } else if !obs && strict {
                c.violation("is_identity|false-for-identity", family, index, detail("answers false for plain in-order wires", json!(obs)));
            }
        }
    }
}

fn identity_case(family: &'static str, index: u64, r: &mut Rng, d: DDesc, variant: &'static str) {
    let c = ctx();
    let scr = if r.chance(0.5) { Some(r.next_u64()) } else { None };
    // sanity of the harness predicate itself: strict => E = scalar * identity matrix
    let (strict, _) = identity_predicate(&d);
    let (g0, _) = d.build::<VG>(None);
    match eval_graph(&g0) {
        Ok(t) => {
            if strict {
                let n = d.inputs.len();
                let f = t.to_float();
                let s = f[0];
                let ok = (0..(1usize << n)).all(|i| (0..(1usize << n)).all(|o| (f[(i << n) | o] - if i == o { s } else { Cf::new(0.0, 0.0) }).norm() < 1e-9));
                if !ok {
                    c.harness_error(&format!("identity predicate accepted a diagram whose tensor is not a multiple of the identity: {}", d.to_json()));
                    return;
                }
            }
        }
        Err(EvalError::IllFormed(m)) => {
            c.harness_error(&format!("C11 identity generator produced an ill-formed diagram: {m}: {}", d.to_json()));
            return;
        }
        Err(EvalError::TooWide(_)) => {}
    }
    check_identity::<VG>(family, index, "vec", &d, scr, variant);
    check_identity::<HG>(family, index, "hash", &d, scr, variant);
    c.count(&format!("identity-variant:{variant}"), 1);
    let hsh = hash_bytes(format!("{family}{d:?}").as_bytes());
    c.case(family, if d.verts.len() >= 2 { Some(hsh) } else { None });
    c.evals(1);
}

// ------------------------------------------------------------------------------------
// run
// ------------------------------------------------------------------------------------

pub fn run() {
    let c = ctx();
    if let Err(e) = self_test() {
        c.harness_error(&format!("C11 tensor-contraction self-test failed: {e}"));
        return;
    }
    let t = c.tier;
    c.set_rule(
        "cases = generated pairs of composable diagrams (plug x 4 backend combinations, append_graph x 4), single diagrams (adjoint/to_adjoint/x_to_z/copy/subgraph, plug_inputs/plug_outputs for every list length 0..=n with SKIP patterns, plug_input/plug_output/plug_vertex; both backends) and wire diagrams for is_identity; a case is non-trivial when its diagrams have >= 2 vertices in total; distinct = distinct (family, description) hashes",
    );
    c.assume("independent evaluator O2 (harness/src/oracle/eval.rs), exact ring O1 and the flat tensor algebra (compose/tensor/dagger/leg contraction, self-tested at start) are correct");
    c.assume("plug_vertex: expected value is sqrt2 * normalised basis element (documented: no normalisation, boundary lists untouched); plug_input/plug_output are only called with Z0,Z1,X0,X1; lists longer than the number of wires are never passed");
    c.assume("copy / subgraph_from_vertices are outside the statement: only vertex/edge structure is judged; boundary lists and scalar of the copy are observed, not judged");

    let arb = Shape { max_spiders: 5, pool: PhasePool::Exact, graph_like: false, bare_p: 0.15, h_p: 0.35, multi_p: 0.3, same_role_pairs: false };
    let n_pairs = t.pick(7500usize, 300_000usize);
    let max_sp = t.pick(5usize, 7usize);

    par_cases("plug-arbitrary-exact", n_pairs, move |r, i| {
        let sh = Shape { max_spiders: max_sp, ..arb };
        let m = r.below(4);
        let (gi, ho) = (r.below(4), r.below(4));
        let g = gen_shaped(r, &sh, gi, m);
        let h = gen_shaped(r, &sh, m, ho);
        pair_case("plug-arbitrary-exact", i, r, g, h);
    });
    par_cases("plug-graph-like", n_pairs / 2, move |r, i| {
        let sh = Shape { max_spiders: max_sp + 1, pool: PhasePool::CliffordHeavy, graph_like: true, bare_p: 0.05, ..arb };
        let m = r.below(4);
        let (gi, ho) = (r.below(4), r.below(4));
        let g = gen_shaped(r, &sh, gi, m);
        let h = gen_shaped(r, &sh, m, ho);
        pair_case("plug-graph-like", i, r, g, h);
    });
    par_cases("plug-arbitrary-float", n_pairs / 2, move |r, i| {
        let sh = Shape { max_spiders: max_sp, pool: PhasePool::Float, ..arb };
        let m = r.below(4);
        let (gi, ho) = (r.below(3), r.below(3));
        let g = gen_shaped(r, &sh, gi, m);
        let h = gen_shaped(r, &sh, m, ho);
        pair_case("plug-arbitrary-float", i, r, g, h);
    });
    // seam stress: tiny operands, wide seams, many wires into one spider (parallel-edge
    // resolution incl. Z-X and same-colour cases), H on boundary edges, bare wires
    par_cases("plug-seam-stress", n_pairs * 2, move |r, i| {
        let sh = Shape { max_spiders: 2, pool: PhasePool::Exact, graph_like: false, bare_p: 0.2, h_p: 0.5, multi_p: 0.75, same_role_pairs: false };
        let m = 1 + r.below(4);
        let (gi, ho) = (r.below(3), r.below(3));
        let g = gen_shaped(r, &sh, gi, m);
        let h = gen_shaped(r, &sh, m, ho);
        pair_case("plug-seam-stress", i, r, g, h);
    });
    // caps and cups: bare wires between boundaries of the same role on either side
    par_cases("plug-caps-cups", n_pairs, move |r, i| {
        let sg = Shape { max_spiders: 2, pool: PhasePool::Exact, graph_like: false, bare_p: *r.pick(&[0.0, 0.5, 0.8]), h_p: 0.4, multi_p: 0.4, same_role_pairs: true };
        let sh = Shape { bare_p: *r.pick(&[0.0, 0.5, 0.8]), ..sg };
        let m = 1 + r.below(4);
        let (gi, ho) = (r.below(3), r.below(3));
        let g = gen_shaped(r, &sg, gi, m);
        let h = gen_shaped(r, &sh, m, ho);
        pair_case("plug-caps-cups", i, r, g, h);
    });

    let (cq, cd) = t.pick((3usize, 10usize), (4usize, 16usize));
    par_cases("plug-circuit-derived", n_pairs / 2, move |r, i| {
        circuit_pair_case("plug-circuit-derived", i, r, cq, cd);
    });

    let n_un = t.pick(3600usize, 100_000usize);
    let max_w = t.pick(3usize, 4usize);
    par_cases("chains", n_pairs, move |r, i| {
        if i % 2 == 0 {
            chain_case::<VG>("chains", i, "vec", r)
        } else {
            chain_case::<HG>("chains", i, "hash", r)
        }
    });
    par_cases("unary-arbitrary-exact", n_un, move |r, i| {
        let sh = Shape { max_spiders: max_sp, ..arb };
        let (ni, no) = (r.below(max_w + 1), r.below(max_w + 1));
        let d = gen_shaped(r, &sh, ni, no);
        unary_case("unary-arbitrary-exact", i, r, d);
    });
    par_cases("unary-bare-wires", n_un / 2, move |r, i| {
        let sh = Shape { max_spiders: 1, pool: PhasePool::Exact, graph_like: false, bare_p: 0.6, h_p: 0.5, multi_p: 0.5, same_role_pairs: r.chance(0.5) };
        let (ni, no) = (r.below(max_w + 1), r.below(max_w + 1));
        let d = gen_shaped(r, &sh, ni, no);
        unary_case("unary-bare-wires", i, r, d);
    });
    par_cases("unary-arbitrary-float", n_un / 2, move |r, i| {
        let sh = Shape { max_spiders: max_sp, pool: PhasePool::Float, ..arb };
        let (ni, no) = (r.below(max_w + 1), r.below(max_w + 1));
        let d = gen_shaped(r, &sh, ni, no);
        unary_case("unary-arbitrary-float", i, r, d);
    });
    par_cases("unary-gen-random", n_un / 2, move |r, i| {
        // the shared generator (arbitrary boundary split, isolated spiders, bare wires)
        let gl = r.chance(0.3);
        let d = gen_random(r, &DiagParams { max_spiders: max_sp, max_bnd: 5, pool: PhasePool::CliffordHeavy, graph_like: gl, bare_wires: true, var_prob: 0.0 });
        unary_case("unary-gen-random", i, r, d);
    });

    let n_id = t.pick(18000usize, 400_000usize);
    par_cases("identity-near", n_id, move |r, i| {
        let (d, variant) = gen_near_identity(r);
        identity_case("identity-near", i, r, d, variant);
    });
    par_cases("identity-random", n_id / 3, move |r, i| {
        let d = if r.chance(0.5) {
            gen_random(r, &DiagParams { max_spiders: 2, max_bnd: 4, pool: PhasePool::Pauli, graph_like: false, bare_wires: true, var_prob: 0.0 })
        } else {
            let sh = Shape { max_spiders: 0, pool: PhasePool::Exact, graph_like: false, bare_p: 1.0, h_p: 0.2, multi_p: 0.0, same_role_pairs: false };
            let n = r.below(4);
            gen_shaped(r, &sh, n, n)
        };
        identity_case("identity-random", i, r, d, "random");
    });
    c.extra("exhaustive", json!(false));
    c.extra(
        "list_lengths",
        json!("plug_inputs/plug_outputs: every length 0..=n per diagram; all 5^len lists when 5^len <= 25, otherwise all-SKIP + one SKIP-free + 3 random lists"),
    );
}

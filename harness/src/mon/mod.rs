//! One monitor per property.
pub mod cross;
pub mod c01;
pub mod c02;
pub mod c03;
pub mod c04;
pub mod c05;
pub mod c06;
pub mod c07;
pub mod c08;
pub mod c09;
pub mod c10;
pub mod c11;
pub mod c12;
pub mod c13;
pub mod c14;
pub mod c15;
pub mod c16;
pub mod c17;
pub mod c18;
pub mod c19;
pub mod c20;

pub type Monitor = fn();

/// (property id, monitor, floor on distinct non-trivial cases in the quick tier)
pub fn lookup(id: &str) -> Option<(&'static str, Monitor, u64)> {
    Some(match id {
        "C01" => ("C01", c01::run as Monitor, 50),
        "C02" => ("C02", c02::run as Monitor, 50),
        "C03" => ("C03", c03::run as Monitor, 30),
        "C04" => ("C04", c04::run as Monitor, 50),
        "C05" => ("C05", c05::run as Monitor, 30),
        "C06" => ("C06", c06::run as Monitor, 10),
        "C07" => ("C07", c07::run as Monitor, 50),
        "C08" => ("C08", c08::run as Monitor, 50),
        "C09" => ("C09", c09::run as Monitor, 50),
        "C10" => ("C10", c10::run as Monitor, 50),
        "C11" => ("C11", c11::run as Monitor, 50),
        "C12" => ("C12", c12::run as Monitor, 50),
        "C13" => ("C13", c13::run as Monitor, 50),
        "C14" => ("C14", c14::run as Monitor, 50),
        "C15" => ("C15", c15::run as Monitor, 50),
        "C16" => ("C16", c16::run as Monitor, 50),
        "C17" => ("C17", c17::run as Monitor, 50),
        "C18" => ("C18", c18::run as Monitor, 30),
        "C19" => ("C19", c19::run as Monitor, 30),
        "C20" => ("C20", c20::run as Monitor, 30),
        _ => return None,
    })
}

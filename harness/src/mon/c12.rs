//! C12 -- equality checkers never give a wrong definite answer.
//!
//! Events: every entry point of `quizx::equality` on generated pairs of circuits (n <= 4)
//! and on the diagrams derived from them (raw translation or simplified):
//!   equal_circuit_with_options(c1,c2,up_to_phase) / equal_circuit,
//!   equal_graph_with_options(g1,g2,up_to_phase)   / equal_graph,
//!   equal_circuit_tensor / equal_graph_tensor, equal_circuit_dim / equal_graph_dim.
//! Ground truth: circuit level from the gate-matrix simulator O3 (`oracle::sim`), graph level
//! from the independent diagram evaluator O2 applied to the very diagrams handed to the
//! checker: exactly equal / equal up to a global phase / different / different arity.
//! Oracle: Some(true) => equal for the requested mode; Some(false) => not exactly equal or
//! arities differ; None always allowed but counted; tensor check <=> exactly equal (exact
//! pool; in the float pool only `true => equal within 1e-9`); dim check <=> arities equal.
//!
//! Readings: the rewriting-based check composes one diagram with the adjoint of the other,
//! which is only meaningful for unitaries ("circuits or unitary diagrams"); the judged
//! families therefore contain unitary circuits only. A small ancilla family is *observed*
//! (counters `observed:nonunitary:*`), never judged. A panic of a checker is reported as a
//! violation of its own class (`|panic:`): the functions are total by their signatures.

use crate::fw::{ctx, guarded, par_cases, Caught};
use crate::gen::circuit::{circ_hash, circ_json, from_quizx, gen_circuit, gen_ph, to_quizx, CircParams, PhPool};
use crate::gen::prng::Rng;
use crate::oracle::eval::{self, EvalError};
use crate::oracle::ring::{cf_of_scalar, Cf, Num};
use crate::oracle::sim::{tensor_exact, tensor_float, Circ, G};
use crate::snap::{eval_graph, graph_json, Tens};
use quizx::circuit::Circuit;
use quizx::equality as eq;
use quizx::extract::ToCircuit;
use quizx::graph::GraphLike;
use quizx::simplify::{clifford_simp, full_simp};
use serde_json::{json, Value};

type VG = quizx::vec_graph::Graph;

// ------------------------------------------------------------------------------------
// ground truth
// ------------------------------------------------------------------------------------

#[derive(Clone, Copy, PartialEq, Eq, Debug)]
enum Truth {
    Equal,
    /// equal up to a global phase (a unit-modulus factor different from 1)
    Phase,
    Different,
    Arity,
    /// float pool only: too close to call
    Unsure,
}

impl Truth {
    fn name(&self) -> &'static str {
        match self {
            Truth::Equal => "equal",
            Truth::Phase => "equal-up-to-phase",
            Truth::Different => "different",
            Truth::Arity => "different-arity",
            Truth::Unsure => "unsure",
        }
    }
}

#[derive(Clone)]
struct Map {
    t: Tens,
    ni: usize,
    no: usize,
}

fn truth_of(a: &Map, b: &Map) -> Truth {
    if (a.ni, a.no) != (b.ni, b.no) {
        return Truth::Arity;
    }
    match (&a.t, &b.t) {
        (Tens::Exact(x), Tens::Exact(y)) => {
            if x == y {
                Truth::Equal
            } else if eval::proportional_exact(x, y) {
                // factor of modulus one?
                match x.iter().position(|v| !v.is_zero()) {
                    None => Truth::Equal,
                    Some(i) => {
                        if x[i].norm_sqr() == y[i].norm_sqr() {
                            Truth::Phase
                        } else {
                            Truth::Different
                        }
                    }
                }
            } else {
                Truth::Different
            }
        }
        _ => {
            let (x, y) = (a.t.to_float(), b.t.to_float());
            let m = x.iter().chain(y.iter()).map(|v| v.norm()).fold(1.0f64, f64::max);
            let diff = x.iter().zip(y.iter()).map(|(p, q)| (p - q).norm()).fold(0.0f64, f64::max) / m;
            if diff <= 1e-9 {
                return Truth::Equal;
            }
            if diff < 1e-6 {
                return Truth::Unsure;
            }
            let nx = x.iter().map(|v| v.norm_sqr()).sum::<f64>().sqrt();
            let ny = y.iter().map(|v| v.norm_sqr()).sum::<f64>().sqrt();
            if eval::proportional_float(&x, &y, 1e-9) {
                if (nx - ny).abs() <= 1e-9 * nx.max(1.0) {
                    Truth::Phase
                } else {
                    Truth::Different
                }
            } else if eval::proportional_float(&x, &y, 1e-6) {
                Truth::Unsure
            } else {
                Truth::Different
            }
        }
    }
}

fn circ_map(c: &Circ) -> Map {
    if c.is_pi4() {
        let (t, ni, no) = tensor_exact(c);
        Map { t: Tens::Exact(t), ni, no }
    } else {
        let (t, ni, no) = tensor_float(c);
        Map { t: Tens::Float(t), ni, no }
    }
}

fn graph_map(g: &VG) -> Result<Map, EvalError> {
    Ok(Map { t: eval_graph(g)?, ni: g.inputs().len(), no: g.outputs().len() })
}

/// all permutations of 0..n
fn perms(n: usize) -> Vec<Vec<usize>> {
    fn rec(cur: &mut Vec<usize>, used: &mut Vec<bool>, n: usize, out: &mut Vec<Vec<usize>>) {
        if cur.len() == n {
            out.push(cur.clone());
            return;
        }
        for i in 0..n {
            if !used[i] {
                used[i] = true;
                cur.push(i);
                rec(cur, used, n, out);
                cur.pop();
                used[i] = false;
            }
        }
    }
    let mut out = vec![];
    rec(&mut vec![], &mut vec![false; n], n, &mut out);
    out
}

/// Classify the residual a^dagger ; b of two n->n maps: is it (up to a factor) a wire
/// permutation followed by Hadamards on some wires? Only used to discriminate signatures.
fn residual_class(a: &Map, b: &Map) -> &'static str {
    if (a.ni, a.no) != (b.ni, b.no) {
        return "different-arity";
    }
    if a.ni != a.no || a.ni > 4 {
        return "not-square";
    }
    let n = a.ni;
    let (x, y) = (a.t.to_float(), b.t.to_float());
    let m = eval::compose(&eval::dagger(&x, n, n), n, n, &y, n, n);
    for sigma in perms(n) {
        let mut gates = vec![];
        let mut cur: Vec<usize> = (0..n).collect();
        for i in 0..n {
            let j = cur.iter().position(|&q| q == sigma[i]).unwrap();
            if j != i {
                gates.push(G::Swap(i, j));
                cur.swap(i, j);
            }
        }
        let is_id_perm = gates.is_empty();
        for hb in 0..(1usize << n) {
            let mut gs = gates.clone();
            for q in 0..n {
                if (hb >> q) & 1 == 1 {
                    gs.push(G::H(q));
                }
            }
            let (cand, _, _) = tensor_float(&Circ { n, gates: gs });
            if eval::proportional_float(&m, &cand, 1e-9) {
                return match (is_id_perm, hb == 0) {
                    (true, true) => "identity-up-to-factor",
                    (true, false) => "hadamard-layer",
                    (false, true) => "wire-permutation",
                    (false, false) => "wire-permutation-and-hadamards",
                };
            }
        }
    }
    "other"
}

// ------------------------------------------------------------------------------------
// pair generators
// ------------------------------------------------------------------------------------

#[derive(Clone)]
struct CPair {
    a: Circ,
    b: Circ,
    how: String,
}

fn params(n: usize, depth: usize, pool: PhPool) -> CircParams {
    let mut p = CircParams::unitary(n, depth, pool);
    p.min_qubits = n;
    p
}

fn pick_pool(r: &mut Rng) -> PhPool {
    if r.chance(0.75) {
        PhPool::Exact
    } else {
        PhPool::Float
    }
}

fn rand_gate(r: &mut Rng, n: usize, pool: PhPool) -> G {
    for _ in 0..30 {
        let c = gen_circuit(r, &params(n, 2, pool));
        if !c.gates.is_empty() {
            let k = r.below(c.gates.len());
            return c.gates[k].clone();
        }
    }
    G::H(0)
}

fn is_diagonal(g: &G) -> bool {
    matches!(g, G::Rz(..) | G::Z(_) | G::S(_) | G::T(_) | G::Sdg(_) | G::Tdg(_) | G::Cz(..) | G::Ccz(..) | G::Pp(..))
}

fn commute(x: &G, y: &G) -> bool {
    let (qx, qy) = (x.qubits(), y.qubits());
    qx.iter().all(|q| !qy.contains(q)) || (is_diagonal(x) && is_diagonal(y))
}

fn two(r: &mut Rng, n: usize) -> (usize, usize) {
    let a = r.below(n);
    let mut b = r.below(n - 1);
    if b >= a {
        b += 1;
    }
    (a, b)
}

fn neg(p: (i64, i64)) -> (i64, i64) {
    (-p.0, p.1)
}

fn cancelling_pair(r: &mut Rng, n: usize, pool: PhPool) -> Vec<G> {
    let q = r.below(n);
    let k = if n >= 3 { r.below(13) } else if n >= 2 { r.below(12) } else { r.below(7) };
    match k {
        0 => vec![G::H(q), G::H(q)],
        1 => vec![G::T(q), G::Tdg(q)],
        2 => vec![G::Sdg(q), G::S(q)],
        3 => vec![G::X(q), G::X(q)],
        4 => vec![G::Z(q), G::Z(q)],
        5 => {
            let p = gen_ph(r, pool);
            vec![G::Rz(q, p), G::Rz(q, neg(p))]
        }
        6 => {
            let p = gen_ph(r, pool);
            vec![G::Rx(q, neg(p)), G::Rx(q, p)]
        }
        7 => {
            let (a, b) = two(r, n);
            vec![G::Cx(a, b), G::Cx(a, b)]
        }
        8 => {
            let (a, b) = two(r, n);
            vec![G::Cz(a, b), G::Cz(b, a)]
        }
        9 => {
            let (a, b) = two(r, n);
            vec![G::Swap(a, b), G::Swap(b, a)]
        }
        10 => {
            let (a, b) = two(r, n);
            vec![G::Xcx(a, b), G::Xcx(a, b)]
        }
        11 => {
            let (a, b) = two(r, n);
            let p = gen_ph(r, pool);
            vec![G::Pp(vec![a, b], p), G::Pp(vec![b, a], neg(p))]
        }
        _ => {
            let mut qs: Vec<usize> = (0..n).collect();
            r.shuffle(&mut qs);
            vec![G::Ccz(qs[0], qs[1], qs[2]), G::Ccz(qs[2], qs[0], qs[1])]
        }
    }
}

fn insert_at(gs: &mut Vec<G>, pos: usize, ins: Vec<G>) {
    let tail = gs.split_off(pos);
    gs.extend(ins);
    gs.extend(tail);
}

/// swap network realising a random non-trivial permutation; SWAP gates or 3 CNOTs each
fn swap_network(r: &mut Rng, n: usize, as_cnots: bool) -> Vec<G> {
    let mut out = vec![];
    for _ in 0..(1 + r.below(3)) {
        let (a, b) = two(r, n);
        if as_cnots {
            out.extend([G::Cx(a, b), G::Cx(b, a), G::Cx(a, b)]);
        } else {
            out.push(G::Swap(a, b));
        }
    }
    out
}

fn reextract(c: &Circ, full: bool) -> Result<Circ, String> {
    let qc = to_quizx(c);
    let r = guarded(|| {
        let mut g: VG = qc.to_graph();
        if full {
            full_simp(&mut g);
        } else {
            clifford_simp(&mut g);
        }
        g.to_circuit().map_err(|e| e.0)
    });
    match r {
        Ok(Ok(c2)) => from_quizx(&c2),
        Ok(Err(m)) => Err(format!("extraction failed: {m}")),
        Err(e) => Err(format!("pipeline panicked: {}", e.text())),
    }
}

fn gen_pair(r: &mut Rng, family: &str, max_depth: usize) -> Option<CPair> {
    gen_pair_n(r, family, max_depth, None)
}

/// `wide`: the same constructions on the given number of qubits (7-9: tensors of 2^14..2^18 entries)
fn gen_pair_n(r: &mut Rng, family: &str, max_depth: usize, wide: Option<usize>) -> Option<CPair> {
    let pool = pick_pool(r);
    let n = wide.unwrap_or_else(|| 1 + r.below(4));
    let base = |r: &mut Rng, n: usize, d: usize| gen_circuit(r, &params(n, d, pool));
    Some(match family {
        "independent" => {
            // short circuits over a small pool so that equal pairs do occur
            let mut p = params(n, 3, PhPool::Exact);
            p.rotations = false;
            p.pp = false;
            p.ccz = false;
            p.xcx = false;
            let (a, b) = if r.chance(0.5) { (gen_circuit(r, &p), gen_circuit(r, &p)) } else { (base(r, n, max_depth), base(r, n, max_depth)) };
            CPair { a, b, how: "independent random, same qubit count".into() }
        }
        "different-arity" => {
            let mut m = 1 + r.below(4);
            if m == n {
                m = if n == 4 { 3 } else { n + 1 };
            }
            let a = base(r, n, max_depth);
            let b = if r.chance(0.3) {
                // the same gates on a larger/smaller register when they fit
                let gs: Vec<G> = a.gates.iter().filter(|g| g.qubits().iter().all(|&q| q < m)).cloned().collect();
                Circ { n: m, gates: gs }
            } else {
                base(r, m, max_depth)
            };
            CPair { a, b, how: format!("{n} vs {m} qubits") }
        }
        "reextract" => {
            let a = base(r, n, max_depth);
            let full = r.chance(0.5);
            match reextract(&a, full) {
                Ok(b) => CPair { a, b, how: format!("to_graph -> {} -> extract", if full { "full_simp" } else { "clifford_simp" }) },
                Err(m) => {
                    ctx().count("gen:reextract-unavailable", 1);
                    ctx().sample_n(2, || json!({"note": "re-extraction unavailable (not judged here, see C03)", "why": m, "circuit": circ_json(&a)}));
                    return None;
                }
            }
        }
        "commuted" => {
            let a = base(r, n, max_depth.max(4));
            let mut b = a.clone();
            let mut moved = 0;
            if b.gates.len() >= 2 {
                for _ in 0..(4 * b.gates.len()) {
                    let i = r.below(b.gates.len() - 1);
                    if b.gates[i] != b.gates[i + 1] && commute(&b.gates[i], &b.gates[i + 1]) {
                        b.gates.swap(i, i + 1);
                        moved += 1;
                    }
                }
            }
            CPair { a, b, how: format!("{moved} transpositions of commuting neighbours") }
        }
        "cancelling" => {
            let a = base(r, n, max_depth);
            let mut b = a.clone();
            let k = 1 + r.below(3);
            for _ in 0..k {
                let pos = r.below(b.gates.len() + 1);
                let ins = cancelling_pair(r, n, pool);
                insert_at(&mut b.gates, pos, ins);
            }
            if r.chance(0.5) {
                CPair { a, b, how: format!("{k} cancelling pairs inserted into the second") }
            } else {
                CPair { a: b, b: a, how: format!("{k} cancelling pairs inserted into the first") }
            }
        }
        "one-gate" => {
            let a = base(r, n, max_depth);
            let mut b = a.clone();
            let how = match r.below(4) {
                0 => {
                    b.gates.push(rand_gate(r, n, pool));
                    "one gate appended"
                }
                1 if !b.gates.is_empty() => {
                    let i = r.below(b.gates.len());
                    b.gates.remove(i);
                    "one gate removed"
                }
                2 if !b.gates.is_empty() => {
                    let i = r.below(b.gates.len());
                    b.gates[i] = rand_gate(r, n, pool);
                    "one gate replaced"
                }
                _ => {
                    let pos = r.below(b.gates.len() + 1);
                    let g = rand_gate(r, n, pool);
                    insert_at(&mut b.gates, pos, vec![g]);
                    "one gate inserted"
                }
            };
            if r.chance(0.5) {
                CPair { a, b, how: how.into() }
            } else {
                CPair { a: b, b: a, how: format!("{how} (sides exchanged)") }
            }
        }
        "global-phase" => {
            let a = base(r, n, max_depth);
            let mut b = a.clone();
            let q = r.below(n);
            let pos = r.below(b.gates.len() + 1);
            let (ins, how) = match r.below(4) {
                0 => (vec![G::Z(q), G::X(q), G::Z(q), G::X(q)], "z x z x = -1".to_string()),
                1 => (vec![G::X(q), G::Z(q), G::X(q), G::Z(q)], "x z x z = -1".to_string()),
                2 => (vec![G::S(q), G::X(q), G::S(q), G::X(q)], "s x s x = i".to_string()),
                _ => {
                    let p = gen_ph(r, pool);
                    (vec![G::Rz(q, p), G::X(q), G::Rz(q, p), G::X(q)], format!("rz(a) x rz(a) x = e^(i pi a), a = {}/{}", p.0, p.1))
                }
            };
            insert_at(&mut b.gates, pos, ins);
            if r.chance(0.3) {
                let pos = r.below(b.gates.len() + 1);
                let ins = cancelling_pair(r, n, pool);
                insert_at(&mut b.gates, pos, ins);
            }
            if r.chance(0.5) {
                CPair { a, b, how }
            } else {
                CPair { a: b, b: a, how: format!("{how} (sides exchanged)") }
            }
        }
        "hadamard-wires" => {
            let a = if r.chance(0.25) { Circ { n, gates: vec![] } } else { base(r, n, max_depth) };
            let mut b = a.clone();
            let mut qs: Vec<usize> = (0..n).collect();
            r.shuffle(&mut qs);
            let k = 1 + r.below(n);
            let front = r.chance(0.4);
            for &q in &qs[..k] {
                if front {
                    b.gates.insert(0, G::H(q));
                } else {
                    b.gates.push(G::H(q));
                }
            }
            if r.chance(0.5) {
                CPair { a, b, how: format!("Hadamard on {k} wire(s) at the {}", if front { "front" } else { "end" }) }
            } else {
                CPair { a: b, b: a, how: format!("Hadamard on {k} wire(s) at the {} (sides exchanged)", if front { "front" } else { "end" }) }
            }
        }
        "wire-permutation" => {
            let n = n.max(2);
            let a = if r.chance(0.25) { Circ { n, gates: vec![] } } else { base(r, n, max_depth) };
            let mut b = a.clone();
            let as_cnots = r.chance(0.5);
            let net = swap_network(r, n, as_cnots);
            if r.chance(0.4) {
                insert_at(&mut b.gates, 0, net);
            } else {
                b.gates.extend(net);
            }
            CPair { a, b, how: format!("swap network appended ({})", if as_cnots { "3 CNOTs per swap" } else { "SWAP gates" }) }
        }
        "float-heavy-equal" => {
            // many rotations by angles that are not multiples of pi/4 (approximate scalars
            // accumulate rounding errors), second circuit equal by construction
            let n = 1 + r.below(2);
            let depth = 8 + r.below(max_depth + 8);
            let mut gates = vec![];
            for _ in 0..depth {
                let q = r.below(n);
                let k = r.below(20);
                gates.push(if k < 9 {
                    G::Rz(q, gen_ph(r, PhPool::Float))
                } else if k < 16 {
                    G::Rx(q, gen_ph(r, PhPool::Float))
                } else if k < 18 || n < 2 {
                    G::H(q)
                } else {
                    G::Cx(q, 1 - q)
                });
            }
            let a = Circ { n, gates };
            let mut b = a.clone();
            let how = if r.chance(0.4) {
                match reextract(&a, r.chance(0.5)) {
                    Ok(x) => {
                        b = x;
                        "float-heavy circuit vs its re-extraction"
                    }
                    Err(_) => "float-heavy circuit vs itself",
                }
            } else {
                for _ in 0..(1 + r.below(3)) {
                    let pos = r.below(b.gates.len() + 1);
                    let q = r.below(n);
                    let p = gen_ph(r, PhPool::Float);
                    let ins = if r.chance(0.5) { vec![G::Rz(q, p), G::Rz(q, neg(p))] } else { vec![G::Rx(q, neg(p)), G::Rx(q, p)] };
                    insert_at(&mut b.gates, pos, ins);
                }
                "float-heavy circuit with cancelling rotations inserted"
            };
            CPair { a, b, how: how.into() }
        }
        "ancilla-observed" => {
            let mut p = params(n.max(2), max_depth, PhPool::Exact);
            p.ancilla = true;
            let a = gen_circuit(r, &p);
            let mut b = a.clone();
            if r.chance(0.6) && !b.gates.is_empty() {
                // change something that is not an ancilla marker
                let idx: Vec<usize> = (0..b.gates.len()).filter(|&i| !matches!(b.gates[i], G::InitAnc(_) | G::PostSel(_))).collect();
                if !idx.is_empty() {
                    let i = *r.pick(&idx);
                    let q = b.gates[i].qubits()[0];
                    b.gates[i] = if r.chance(0.5) { G::H(q) } else { G::T(q) };
                }
            }
            CPair { a, b, how: "circuits with ancillae / post-selection (observed only)".into() }
        }
        _ => unreachable!("unknown family {family}"),
    })
}

// ------------------------------------------------------------------------------------
// judging
// ------------------------------------------------------------------------------------

fn pclass(e: &Caught) -> String {
    match e {
        Caught::Panic { msg, .. } => {
            if msg.starts_with("index out of bounds") {
                return "panic:index out of bounds".into();
            }
            let m: String = msg.chars().filter(|c| !c.is_ascii_digit()).take(44).collect();
            format!("panic:{}", m.trim())
        }
        Caught::Budget(r) => format!("budget:{r}"),
        Caught::Oracle(_) => "oracle".into(),
    }
}

fn ans_name(a: Option<bool>) -> &'static str {
    match a {
        Some(true) => "Some(true)",
        Some(false) => "Some(false)",
        None => "None",
    }
}

struct Judge<'a> {
    family: &'static str,
    index: u64,
    pair: &'a CPair,
    /// extra discriminator appended to every signature of this level (translation fault)
    suffix: String,
    /// either circuit contains a SWAP gate (appended to signatures whose residual is a wire permutation)
    has_swap: bool,
    /// the two diagrams the rewriting check works on (for the scalar probe)
    graphs: Option<(&'a VG, &'a VG)>,
    ctxjson: Value,
}

/// Diagnosis aid for wrong answers that hinge on the scalar of the simplified composite
/// (exact mode): rebuild the composite the way the checker does and compare the value
/// `complex_value()` reports with the value actually stored (read through the raw hook).
fn probe_scalar(graphs: Option<(&VG, &VG)>) -> &'static str {
    let Some((ga, gb)) = graphs else { return "no-probe" };
    let r = guarded(|| {
        let mut g = ga.to_adjoint();
        g.plug(gb);
        full_simp(&mut g);
        (g.is_identity(), *g.scalar())
    });
    match r {
        Ok((true, s)) => {
            let stored = cf_of_scalar(&s);
            match guarded(|| s.complex_value()) {
                Ok(conv) => {
                    if (stored - conv).norm() > 1e-9 * stored.norm().max(1.0) {
                        "complex_value()-differs-from-stored-scalar"
                    } else {
                        "stored-scalar-read-correctly"
                    }
                }
                Err(_) => "complex_value()-panics",
            }
        }
        _ => "not-reproduced",
    }
}

impl Judge<'_> {
    fn detail(&self, entry: &str, what: &str, extra: Value) -> Value {
        json!({
            "entry": entry, "what": what, "how_the_pair_was_made": self.pair.how,
            "circuit_a": circ_json(&self.pair.a), "circuit_b": circ_json(&self.pair.b),
            "context": self.ctxjson, "extra": extra,
        })
    }

    /// rewriting-based check
    fn option(&self, entry: &str, level: &str, up_to: bool, ans: Result<Option<bool>, Caught>, truth: Truth, a: &Map, b: &Map, pool: &str) {
        let c = ctx();
        let mode = if up_to { "up-to-phase" } else { "exact" };
        let ans = match ans {
            Err(Caught::Oracle(m)) => {
                c.inconclusive("oracle-error", json!({"msg": m}));
                return;
            }
            Err(e) => {
                c.violation(&format!("{entry}|{}{}", pclass(&e), self.suffix), self.family, self.index, self.detail(entry, "panic", json!({"panic": e.text(), "mode": mode})));
                return;
            }
            Ok(a) => a,
        };
        c.count(&format!("answer:{level}:{mode}:{}", ans_name(ans)), 1);
        c.count(&format!("answer-by-family:{}:{level}:{mode}:{}", self.family, ans_name(ans)), 1);
        if ans.is_some() {
            c.count(&format!("definite:{level}:{mode}:truth={}", truth.name()), 1);
        } else {
            c.count(&format!("unknown:{level}:{mode}:truth={}", truth.name()), 1);
        }
        if truth == Truth::Unsure {
            if ans.is_some() {
                c.inconclusive("float-truth-too-close-to-call", json!({"entry": entry, "answer": ans_name(ans)}));
            }
            return;
        }
        match ans {
            Some(true) => {
                let ok = truth == Truth::Equal || (up_to && truth == Truth::Phase);
                if !ok {
                    let res = residual_class(a, b);
                    let sig = if truth == Truth::Phase {
                        format!("{entry}|answered-equal|exact-mode-but-global-phase-differs|{pool}|{}{}", probe_scalar(self.graphs), self.suffix)
                    } else {
                        let swap = if self.has_swap && res.starts_with("wire-permutation") { "|circuit-has-swap-gate" } else { "" };
                        format!("{entry}|answered-equal|truth={}|residual={res}{swap}{}", truth.name(), self.suffix)
                    };
                    c.violation(&sig, self.family, self.index, self.detail(entry, "answered Some(true)", json!({"mode": mode, "truth": truth.name(), "residual": res, "a": a.t.brief(), "b": b.t.brief()})));
                }
            }
            Some(false) => {
                if truth == Truth::Equal {
                    c.violation(
                        &format!("{entry}|answered-not-equal|truth=equal|mode={mode}|{pool}|{}{}", if up_to { "no-probe" } else { probe_scalar(self.graphs) }, self.suffix),
                        self.family,
                        self.index,
                        self.detail(entry, "answered Some(false)", json!({"mode": mode, "truth": truth.name(), "a": a.t.brief()})),
                    );
                }
            }
            None => {}
        }
    }

    fn tensor(&self, entry: &str, level: &str, ans: Result<bool, Caught>, truth: Truth, pool: &str) {
        let c = ctx();
        let ans = match ans {
            Err(Caught::Oracle(m)) => {
                c.inconclusive("oracle-error", json!({"msg": m}));
                return;
            }
            Err(e) => {
                c.violation(&format!("{entry}|{}{}", pclass(&e), self.suffix), self.family, self.index, self.detail(entry, "panic", json!(e.text())));
                return;
            }
            Ok(a) => a,
        };
        c.count(&format!("answer:{level}:tensor:{ans}:truth={}", truth.name()), 1);
        if truth == Truth::Unsure {
            return;
        }
        if ans && truth != Truth::Equal {
            c.violation(&format!("{entry}|true-but-truth={}{}", truth.name(), self.suffix), self.family, self.index, self.detail(entry, "answered true", json!({"truth": truth.name()})));
        } else if !ans && truth == Truth::Equal {
            if pool == "exact" {
                c.violation(&format!("{entry}|false-but-exactly-equal{}", self.suffix), self.family, self.index, self.detail(entry, "answered false", json!({"truth": truth.name()})));
            } else {
                // floating-point representations of equal numbers may differ in the last bits
                c.count(&format!("observed:{level}:tensor-false-on-float-pool-equal-pair"), 1);
            }
        }
    }

    fn dim(&self, entry: &str, level: &str, ans: Result<bool, Caught>, same_arity: bool) {
        let c = ctx();
        match ans {
            Err(Caught::Oracle(m)) => c.inconclusive("oracle-error", json!({"msg": m})),
            Err(e) => c.violation(&format!("{entry}|{}{}", pclass(&e), self.suffix), self.family, self.index, self.detail(entry, "panic", json!(e.text()))),
            Ok(a) => {
                c.count(&format!("answer:{level}:dim:{a}"), 1);
                if a != same_arity {
                    c.violation(&format!("{entry}|answered-{a}-but-arities-{}", if same_arity { "equal" } else { "differ" }), self.family, self.index, self.detail(entry, "dimension check", json!({"same_arity": same_arity})));
                }
            }
        }
    }
}

/// `guarded` plus the largest wall time seen per call kind (evidence: `maxima.max_ms:*`)
fn timed_as<T>(kind: &str, f: impl FnOnce() -> T) -> Result<T, Caught> {
    let t0 = std::time::Instant::now();
    let r = guarded(f);
    ctx().maximum(&format!("max_ms:{kind}"), t0.elapsed().as_millis() as u64);
    r
}

fn timed<T>(f: impl FnOnce() -> T) -> Result<T, Caught> {
    timed_as("equality-entry-point", f)
}

/// `equal_graph_tensor` is documented as feasible only for small diagrams: quizx contracts
/// vertex by vertex in a fixed order and keeps one tensor index per vertex that still has
/// unseen neighbours. This predicts the largest number of simultaneous indices for that
/// order (a cost estimate only, never part of a verdict); wider diagrams are not passed.
const MAX_TENSOR_WIDTH: usize = 16;

fn contraction_width(g: &VG) -> usize {
    use quizx::graph::VType;
    let mid = g.vertices().filter(|&v| g.vertex_type(v) != VType::B);
    let mut vs: Vec<usize> = g.inputs().iter().copied().chain(mid).chain(g.outputs().iter().copied()).collect();
    vs.reverse();
    let mut seen: std::collections::HashMap<usize, usize> = Default::default();
    let mut open: std::collections::HashSet<usize> = Default::default();
    let mut width = 0;
    for v in vs {
        open.insert(v);
        width = width.max(open.len());
        let mut deg_v = 0;
        for w in g.neighbors(v) {
            if let Some(dw) = seen.get_mut(&w) {
                deg_v += 1;
                *dw += 1;
                if g.vertex_type(w) != VType::B && g.degree(w) == *dw {
                    open.remove(&w);
                }
            }
        }
        if g.vertex_type(v) != VType::B && g.degree(v) == deg_v {
            open.remove(&v);
        }
        seen.insert(v, deg_v);
    }
    width
}

fn prep_name(k: usize) -> &'static str {
    ["raw", "clifford_simp", "full_simp"][k]
}

fn prepare(qc: &Circuit, k: usize) -> Result<VG, Caught> {
    guarded(|| {
        let mut g: VG = qc.to_graph();
        match k {
            1 => {
                clifford_simp(&mut g);
            }
            2 => {
                full_simp(&mut g);
            }
            _ => {}
        }
        g
    })
}

fn pair_case(family: &'static str, index: u64, r: &mut Rng, pair: CPair, judged: bool) {
    let c = ctx();
    let (qa, qb) = (crate::gen::circuit::to_quizx_layout(&pair.a), crate::gen::circuit::to_quizx_layout(&pair.b));
    let pool = if pair.a.is_pi4() && pair.b.is_pi4() { "exact" } else { "float" };
    let has_swap = pair.a.gates.iter().chain(pair.b.gates.iter()).any(|g| matches!(g, G::Swap(..)));
    let t0 = std::time::Instant::now();
    let (ma, mb) = (circ_map(&pair.a), circ_map(&pair.b));
    c.maximum("max_ms:oracle-simulator", t0.elapsed().as_millis() as u64);
    let truth = truth_of(&ma, &mb);
    c.count(&format!("truth:{family}:{}", truth.name()), 1);
    c.count(&format!("pool:{pool}"), 1);

    if !judged {
        // non-unitary circuits: the method is not meaningful, only observe
        for up_to in [true, false] {
            if let Ok(ans) = timed_as("equal_circuit_with_options", || eq::equal_circuit_with_options(&qa, &qb, up_to)) {
                let verdict = match (ans, truth) {
                    (None, _) => "unknown",
                    (_, Truth::Unsure) => "unsure",
                    (Some(true), Truth::Equal) => "right",
                    (Some(true), Truth::Phase) if up_to => "right",
                    (Some(true), _) => "wrong-equal",
                    (Some(false), Truth::Equal) => "wrong-not-equal",
                    (Some(false), _) => "right",
                };
                c.count(&format!("observed:nonunitary:{}:{verdict}", if up_to { "up-to-phase" } else { "exact" }), 1);
            } else {
                c.count("observed:nonunitary:panic", 1);
            }
        }
        // The arity and tensor clauses do not depend on unitarity, so they ARE judged here:
        // dim check <=> equal arities; tensor check <=> identical tensors (exact pool);
        // and a definite Some(false) of the rewriting check still has to mean "not exactly
        // equal, or different arities" (it is produced by the arity pre-check).
        let arities_equal = (ma.ni, ma.no) == (mb.ni, mb.no);
        let det = |what: &str, extra: Value| json!({"what": what, "how": pair.how, "a": circ_json(&pair.a), "b": circ_json(&pair.b), "arities": [[ma.ni, ma.no], [mb.ni, mb.no]], "truth": truth.name(), "extra": extra});
        match timed_as("equal_circuit_dim", || eq::equal_circuit_dim(&qa, &qb)) {
            Ok(ans) => {
                c.count(&format!("nonunitary:dim:{ans}"), 1);
                if ans != arities_equal {
                    c.violation(&format!("equal_circuit_dim|answers-{ans}|arities-{}|non-square-circuit", if arities_equal { "equal" } else { "differ" }), family, index, det("dimension check wrong on a non-unitary circuit", json!(ans)));
                }
            }
            Err(e) => c.violation(&format!("equal_circuit_dim|{}|non-square-circuit", pclass(&e)), family, index, det("panic", json!(e.text()))),
        }
        if pool == "exact" && !matches!(truth, Truth::Unsure) && pair.a.n <= 4 {
            match timed_as("equal_circuit_tensor", || eq::equal_circuit_tensor(&qa, &qb)) {
                Ok(ans) => {
                    c.count(&format!("nonunitary:tensor:{ans}"), 1);
                    let want = matches!(truth, Truth::Equal);
                    if ans != want {
                        c.violation(&format!("equal_circuit_tensor|answers-{ans}|truth={}|non-square-circuit", truth.name()), family, index, det("tensor check wrong on a non-unitary circuit", json!(ans)));
                    }
                }
                Err(e) => c.violation(&format!("equal_circuit_tensor|{}|non-square-circuit", pclass(&e)), family, index, det("panic", json!(e.text()))),
            }
        }
        for up_to in [true, false] {
            if let Ok(Some(false)) = timed_as("equal_circuit_with_options", || eq::equal_circuit_with_options(&qa, &qb, up_to)) {
                if matches!(truth, Truth::Equal) {
                    c.violation(&format!("equal_circuit_with_options|answered-not-equal|truth=equal|{}|non-square-circuit", if up_to { "up-to-phase" } else { "exact" }), family, index, det("definite 'not equal' on exactly equal non-unitary circuits", json!(null)));
                }
            }
        }
        let nonsquare = ma.ni != ma.no || mb.ni != mb.no;
        c.case(family, if nonsquare { Some(crate::gen::circuit::circ_hash(&pair.a) ^ crate::gen::circuit::circ_hash(&pair.b).rotate_left(7)) } else { None });
        return;
    }

    // ---- graph level: raw or simplified translations; truth from the evaluator on the
    // very diagrams handed to the checker
    let (ka, kb) = (r.below(3), r.below(3));
    let graphs = (prepare(&qa, ka), prepare(&qb, kb));
    let mut translation_fault = String::new();
    if let (Ok(ga), Ok(gb)) = &graphs {
        let t0 = std::time::Instant::now();
        let evaluated = (graph_map(ga), graph_map(gb));
        c.maximum("max_ms:oracle-evaluator", t0.elapsed().as_millis() as u64);
        match evaluated {
            (Ok(ea), Ok(eb)) => {
                // does the diagram denote what the simulator says? (C02/C01 territory: used
                // only to tell a translation fault from an equality-checker fault)
                let ta = truth_of(&ea, &ma);
                let tb = truth_of(&eb, &mb);
                if !matches!(ta, Truth::Equal | Truth::Unsure) || !matches!(tb, Truth::Equal | Truth::Unsure) {
                    translation_fault = format!("|diagram-differs-from-simulator{}", if has_swap { "+swap-gate" } else { "" });
                    c.count("observed:translated-diagram-differs-from-simulator", 1);
                }
                let gtruth = truth_of(&ea, &eb);
                c.count(&format!("graph-truth:{}", gtruth.name()), 1);
                let j = Judge {
                    family,
                    index,
                    pair: &pair,
                    suffix: String::new(),
                    has_swap: false,
                    graphs: Some((ga, gb)),
                    ctxjson: json!({"level": "graph", "prep_a": prep_name(ka), "prep_b": prep_name(kb), "graph_a": graph_json(ga), "graph_b": graph_json(gb)}),
                };
                let gpool = if ea.t.is_exact() && eb.t.is_exact() { "exact" } else { "float" };
                for up_to in [true, false] {
                    let ans = timed_as("equal_graph_with_options", || eq::equal_graph_with_options(ga, gb, up_to));
                    if up_to {
                        if let (Ok(x), Ok(y)) = (&ans, timed_as("equal_graph", || eq::equal_graph(ga, gb))) {
                            if *x != y {
                                c.violation("equal_graph|differs-from-equal_graph_with_options(true)", family, index, j.detail("equal_graph", "wrapper disagrees", json!({"wrapper": ans_name(y), "with_options": ans_name(*x)})));
                            }
                        }
                    }
                    j.option("equal_graph_with_options", "graph", up_to, ans, gtruth, &ea, &eb, gpool);
                }
                let width = contraction_width(ga).max(contraction_width(gb));
                c.maximum("max_contraction_width_passed_to_equal_graph_tensor", width.min(MAX_TENSOR_WIDTH) as u64);
                if width <= MAX_TENSOR_WIDTH {
                    j.tensor("equal_graph_tensor", "graph", timed_as("equal_graph_tensor", || eq::equal_graph_tensor(ga, gb)), gtruth, gpool);
                } else {
                    c.count("not-called:equal_graph_tensor:contraction-too-wide", 1);
                }
                j.dim("equal_graph_dim", "graph", timed_as("equal_graph_dim", || eq::equal_graph_dim(ga, gb)), gtruth != Truth::Arity);
                c.evals(4);
            }
            (Err(EvalError::TooWide(_)), _) | (_, Err(EvalError::TooWide(_))) => c.skipped(),
            (Err(EvalError::IllFormed(m)), _) | (_, Err(EvalError::IllFormed(m))) => {
                c.inconclusive("derived-diagram-ill-formed", json!({"why": m, "circuit_a": circ_json(&pair.a), "circuit_b": circ_json(&pair.b)}));
            }
        }
    } else {
        c.inconclusive("diagram-preparation-panicked", json!({"circuit_a": circ_json(&pair.a), "circuit_b": circ_json(&pair.b)}));
    }

    // ---- circuit level: truth from the simulator
    let raw: Option<(VG, VG)> = match (prepare(&qa, 0), prepare(&qb, 0)) {
        (Ok(x), Ok(y)) => Some((x, y)),
        _ => None,
    };
    let j = Judge {
        family,
        index,
        pair: &pair,
        suffix: translation_fault.clone(),
        has_swap,
        graphs: raw.as_ref().map(|(x, y)| (x, y)),
        ctxjson: json!({"level": "circuit", "pool": pool}),
    };
    for up_to in [true, false] {
        let ans = timed_as("equal_circuit_with_options", || eq::equal_circuit_with_options(&qa, &qb, up_to));
        if up_to {
            if let (Ok(x), Ok(y)) = (&ans, timed_as("equal_circuit", || eq::equal_circuit(&qa, &qb))) {
                if *x != y {
                    c.violation("equal_circuit|differs-from-equal_circuit_with_options(true)", family, index, j.detail("equal_circuit", "wrapper disagrees", json!({"wrapper": ans_name(y), "with_options": ans_name(*x)})));
                }
            }
        }
        j.option("equal_circuit_with_options", "circuit", up_to, ans, truth, &ma, &mb, pool);
    }
    j.tensor("equal_circuit_tensor", "circuit", timed_as("equal_circuit_tensor", || eq::equal_circuit_tensor(&qa, &qb)), truth, pool);
    j.dim("equal_circuit_dim", "circuit", timed_as("equal_circuit_dim", || eq::equal_circuit_dim(&qa, &qb)), truth != Truth::Arity);
    c.evals(3);

    let nontrivial = !pair.a.gates.is_empty() || !pair.b.gates.is_empty();
    let h = circ_hash(&pair.a).rotate_left(21) ^ circ_hash(&pair.b);
    c.case(family, if nontrivial { Some(h) } else { None });
    c.sample_n(5, || json!({"family": family, "index": index, "how": pair.how, "a": circ_json(&pair.a), "b": circ_json(&pair.b), "truth": truth.name()}));
}

fn self_test() -> Result<(), String> {
    // ground-truth classifier on hand-made pairs
    let m = |gs: Vec<G>, n: usize| circ_map(&Circ { n, gates: gs });
    let id1 = m(vec![], 1);
    if truth_of(&id1, &m(vec![G::H(0), G::H(0)], 1)) != Truth::Equal {
        return Err("h h = id".into());
    }
    if truth_of(&id1, &m(vec![G::Z(0), G::X(0), G::Z(0), G::X(0)], 1)) != Truth::Phase {
        return Err("zxzx = -id".into());
    }
    if truth_of(&id1, &m(vec![G::H(0)], 1)) != Truth::Different {
        return Err("h != id".into());
    }
    if truth_of(&id1, &m(vec![], 2)) != Truth::Arity {
        return Err("arity".into());
    }
    if truth_of(&m(vec![G::Rz(0, (1, 3))], 1), &m(vec![G::X(0), G::Rz(0, (-1, 3)), G::X(0)], 1)) != Truth::Phase {
        return Err("float: rz(a) ~ x rz(-a) x".into());
    }
    if truth_of(&m(vec![G::Rz(0, (1, 3)), G::Rz(0, (1, 6))], 1), &m(vec![G::S(0)], 1)) != Truth::Equal {
        return Err("float: rz(1/3) rz(1/6) = s".into());
    }
    if residual_class(&id1, &m(vec![G::H(0)], 1)) != "hadamard-layer" {
        return Err("residual H".into());
    }
    if residual_class(&m(vec![G::Cx(0, 1)], 2), &m(vec![G::Cx(0, 1), G::Swap(0, 1)], 2)) != "wire-permutation" {
        return Err("residual swap".into());
    }
    if residual_class(&m(vec![], 2), &m(vec![G::Cx(0, 1)], 2)) != "other" {
        return Err("residual other".into());
    }
    if residual_class(&m(vec![G::T(1)], 3), &m(vec![G::T(1), G::Swap(0, 2), G::H(1), G::Z(0), G::X(0), G::Z(0), G::X(0)], 3)) != "wire-permutation-and-hadamards" {
        return Err("residual perm+H".into());
    }
    let _ = Cf::new(0.0, 0.0);
    Ok(())
}

pub fn run() {
    let c = ctx();
    if let Err(e) = self_test() {
        c.harness_error(&format!("C12 ground-truth self-test failed: {e}"));
        return;
    }
    let t = c.tier;
    c.set_rule(
        "cases = pairs of unitary circuits (1..4 qubits; 7..9 in the family `wide`) with a relation known by construction and confirmed by the simulator; each pair is put through 5 circuit-level and 5 graph-level entry points (evaluations counts entry-point groups); a pair is non-trivial when at least one circuit has a gate; distinct = distinct ordered pairs (64-bit hash). Counters answer:* / definite:* / unknown:* show how many definite answers were observed per level and mode",
    );
    c.assume("gate-matrix simulator O3 (circuit level) and diagram evaluator O2 (graph level) are correct (self-tested at start, cross-checked against each other in C02/C08)");
    c.assume("float pool: pairs closer than 1e-6 but not within 1e-9 are not judged (inconclusive); Some(false)/tensor-false on float-equal pairs is judged for the rewriting check and only observed for the tensor check");
    c.assume("the rewriting check is judged on unitary circuits only (composition with the adjoint is the documented method); on ancilla / post-selected circuits its Some(true) answers are only observed, but the arity check, the tensor check and a definite Some(false) are judged there too (they do not depend on unitarity)");
    let n = t.pick(500usize, 10_000usize);
    let depth = t.pick(12usize, 24usize);
    let mut walls = serde_json::Map::new();
    macro_rules! fam {
        ($name:literal, $count:expr, $judged:expr) => {
            let t0 = std::time::Instant::now();
            par_cases($name, $count, move |r, i| {
                if let Some(p) = gen_pair(r, $name, depth) {
                    pair_case($name, i, r, p, $judged);
                } else {
                    ctx().skipped();
                }
            });
            walls.insert($name.to_string(), json!((t0.elapsed().as_secs_f64() * 10.0).round() / 10.0));
        };
    }
    fam!("independent", n * 2, true);
    fam!("different-arity", n / 2, true);
    fam!("reextract", n, true);
    fam!("commuted", n, true);
    fam!("cancelling", n, true);
    fam!("one-gate", n, true);
    fam!("global-phase", n, true);
    fam!("hadamard-wires", n, true);
    fam!("wire-permutation", n, true);
    fam!("float-heavy-equal", n * 20, true);
    fam!("ancilla-observed", n, false);
    {
        let t0 = std::time::Instant::now();
        par_cases("wide", t.pick(48usize, 2_000usize), move |r, i| {
            let how = *r.pick(&["commuted", "cancelling", "one-gate", "global-phase", "global-phase", "hadamard-wires", "wire-permutation", "independent"]);
            let nq = *r.pick(&[7usize, 8, 8]);
            if let Some(p) = gen_pair_n(r, how, 4, Some(nq)) {
                ctx().count(&format!("wide:construction:{how}"), 1);
                ctx().maximum("max_qubits", nq as u64);
                pair_case("wide", i, r, p, true);
            } else {
                ctx().skipped();
            }
        });
        walls.insert("wide".to_string(), json!((t0.elapsed().as_secs_f64() * 10.0).round() / 10.0));
    }
    c.extra("family_wall_s", Value::Object(walls));
    c.extra("exhaustive", json!(false));
}

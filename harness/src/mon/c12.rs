//! C12 -- monitor (to be written)
use crate::fw::ctx;

pub fn run() {
    ctx().harness_error("C12 monitor not implemented yet");
}

//! C13 -- monitor (to be written)
use crate::fw::ctx;

pub fn run() {
    ctx().harness_error("C13 monitor not implemented yet");
}

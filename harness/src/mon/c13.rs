//! C13 -- qgraph JSON encoding round-trips diagrams.
//!
//! Events: for each generated diagram (neutral description, built in either backend, with
//! optionally scrambled vertex ids): `json::encode_graph` -> `json::decode_graph` (same
//! backend and across backends) and `serde_json::to_string(&hash_graph)` -> `from_str`.
//! Oracle per event: encode is Ok and does not panic; decode is Ok and does not panic;
//! O5-iso finds an isomorphism original -> decoded that maps inputs/outputs in order and
//! preserves vertex kind, phase (exactly for denominators <= 256, nearest-fraction
//! distance otherwise), edge kind and coordinates; the scalar's exact value (raw read-out,
//! flag bits ignored) is identical when the original is sqrt2^p * e^{i k pi/4} and within
//! relative 1e-9 otherwise; E(decoded) == E(original) by the independent evaluator
//! (diagrams without H-boxes and without approximated phases).

use crate::fw::{ctx, guarded, par_cases, Caught};
use crate::gen::circuit::{gen_circuit, to_quizx, CircParams, PhPool};
use crate::gen::diagram::*;
use crate::gen::prng::{hash_bytes, Rng};
use crate::oracle::eval::EvalError;
use crate::oracle::iso::{self, IsoGraph, IsoOpts, IsoResult, IsoVert};
use crate::oracle::ring::{r_of_scalar, scalar_is_approx, scalar_of_r, Num, R};
use crate::snap::{eval_snap, snap, Tens, FLOAT_TOL};
use num::{BigInt, One, Rational64, Zero};
use quizx::graph::{EType, GraphLike, VData, VType, V};
use quizx::phase::Phase;
use quizx::scalar::Scalar4;
use quizx::scalar_traits::{FromPhase, Sqrt2};
use serde_json::{json, Value};

type VecG = quizx::vec_graph::Graph;
type HashG = quizx::hash_graph::Graph;

// ------------------------------------------------------------------------------------
// neutral description (superset of gen::diagram::DDesc: H-boxes, coordinates, any scalar)
// ------------------------------------------------------------------------------------

#[derive(Clone, Debug)]
pub struct NV {
    pub kind: VType,
    pub ph: (i64, i64),
    /// row
    pub x: f64,
    /// qubit
    pub y: f64,
}

#[derive(Clone, Debug)]
pub struct Neutral {
    pub verts: Vec<NV>,
    pub edges: Vec<(usize, usize, EType)>,
    pub inputs: Vec<usize>,
    pub outputs: Vec<usize>,
    pub scalar: Scalar4,
    /// provenance of the scalar: "one", "desc", "hand-exact", "hand-general", "hand-float", "simplifier:<name>"
    pub scalar_src: String,
    pub coord_mode: &'static str,
}

fn kind_code(t: VType) -> u8 {
    match t {
        VType::B => 0,
        VType::Z => 1,
        VType::X => 2,
        VType::H => 3,
        VType::WInput => 4,
        VType::WOutput => 5,
        VType::ZBox => 6,
    }
}

fn ekind_code(t: EType) -> u8 {
    match t {
        EType::N => 0,
        EType::H => 1,
        EType::Wio => 2,
    }
}

fn scalar_json(s: &Scalar4) -> Value {
    let raw = s.verif_raw();
    let cv = r_of_scalar(s).to_cf();
    json!({
        "raw(sign,approx,mantissa,exp)": raw.iter().map(|r| json!([r.0, r.1, r.2.to_string(), r.3])).collect::<Vec<_>>(),
        "exact": format!("{}", r_of_scalar(s)),
        "complex": format!("{:e}{:+e}i", cv.re, cv.im),
    })
}

impl Neutral {
    pub fn from_desc(d: &DDesc) -> Neutral {
        let verts = d
            .verts
            .iter()
            .map(|v| NV {
                kind: match v.kind {
                    crate::oracle::eval::VK::B => VType::B,
                    crate::oracle::eval::VK::Z => VType::Z,
                    crate::oracle::eval::VK::X => VType::X,
                },
                ph: v.ph,
                x: 0.0,
                y: 0.0,
            })
            .collect();
        let edges = d
            .edges
            .iter()
            .map(|&(a, b, k)| (a, b, if k == crate::oracle::eval::EK::H { EType::H } else { EType::N }))
            .collect();
        let scalar = Scalar4::new(d.scalar.coeffs, d.scalar.pow);
        let src = if d.scalar.coeffs == [1, 0, 0, 0] && d.scalar.pow == 0 { "one" } else { "desc" };
        Neutral { verts, edges, inputs: d.inputs.clone(), outputs: d.outputs.clone(), scalar, scalar_src: src.into(), coord_mode: "zero" }
    }

    /// Snapshot of a quizx graph through the public interface (vertices in id order).
    pub fn of_graph(g: &impl GraphLike, scalar_src: &str) -> Neutral {
        let mut vs: Vec<V> = g.vertices().collect();
        vs.sort();
        let pos = |v: V| vs.binary_search(&v).expect("edge/anchor refers to a vertex that is not in vertices()");
        let verts = vs
            .iter()
            .map(|&v| {
                let r = g.phase(v).to_rational();
                NV { kind: g.vertex_type(v), ph: (*r.numer(), *r.denom()), x: g.row(v), y: g.qubit(v) }
            })
            .collect();
        let mut edges: Vec<(usize, usize, EType)> = g.edges().map(|(s, t, k)| (pos(s), pos(t), k)).collect();
        edges.sort_by_key(|e| (e.0, e.1));
        Neutral {
            verts,
            edges,
            inputs: g.inputs().iter().map(|&v| pos(v)).collect(),
            outputs: g.outputs().iter().map(|&v| pos(v)).collect(),
            scalar: *g.scalar(),
            scalar_src: scalar_src.to_string(),
            coord_mode: "as-is",
        }
    }

    pub fn build<G: GraphLike>(&self, scramble: Option<u64>) -> G {
        let mut g = G::new();
        let mut ids = Vec::with_capacity(self.verts.len());
        let mut rng = scramble.map(Rng::new);
        let mut dummies: Vec<V> = vec![];
        for nv in &self.verts {
            if let Some(r) = rng.as_mut() {
                while r.chance(0.3) {
                    dummies.push(g.add_vertex(VType::Z));
                }
                if !dummies.is_empty() && r.chance(0.4) {
                    let i = r.below(dummies.len());
                    let d = dummies.swap_remove(i);
                    g.remove_vertex(d);
                }
            }
            let v = g.add_vertex_with_data(VData {
                ty: nv.kind,
                phase: Phase::new(Rational64::new(nv.ph.0, nv.ph.1)),
                qubit: nv.y,
                row: nv.x,
                ..Default::default()
            });
            ids.push(v);
        }
        for d in dummies {
            g.remove_vertex(d);
        }
        for &(a, b, k) in &self.edges {
            g.add_edge_with_type(ids[a], ids[b], k);
        }
        g.set_inputs(self.inputs.iter().map(|&i| ids[i]).collect());
        g.set_outputs(self.outputs.iter().map(|&i| ids[i]).collect());
        *g.scalar_mut() = self.scalar;
        g
    }

    pub fn to_iso(&self) -> IsoGraph {
        IsoGraph {
            verts: self.verts.iter().map(|v| IsoVert { kind: kind_code(v.kind), ph: v.ph, x: v.x, y: v.y }).collect(),
            edges: self.edges.iter().map(|&(a, b, k)| (a, b, ekind_code(k))).collect(),
            inputs: self.inputs.clone(),
            outputs: self.outputs.clone(),
        }
    }

    pub fn to_json(&self) -> Value {
        json!({
            "verts(index,kind,phase,row,qubit)": self.verts.iter().enumerate().map(|(i, v)| json!([i, format!("{:?}", v.kind), format!("{}/{}", v.ph.0, v.ph.1), v.x, v.y])).collect::<Vec<_>>(),
            "edges": self.edges.iter().map(|e| json!([e.0, e.1, format!("{:?}", e.2)])).collect::<Vec<_>>(),
            "inputs": self.inputs,
            "outputs": self.outputs,
            "scalar": scalar_json(&self.scalar),
            "scalar_src": self.scalar_src,
            "coord_mode": self.coord_mode,
        })
    }

    pub fn hash(&self) -> u64 {
        hash_bytes(format!("{:?}", (&self.verts, &self.edges, &self.inputs, &self.outputs, self.scalar.verif_raw())).as_bytes())
    }

    fn has_hbox(&self) -> bool {
        self.verts.iter().any(|v| !matches!(v.kind, VType::B | VType::Z | VType::X))
    }
    fn max_den(&self) -> i64 {
        self.verts.iter().map(|v| v.ph.1).max().unwrap_or(1)
    }
    fn num_h_edges(&self) -> usize {
        self.edges.iter().filter(|e| e.2 == EType::H).count()
    }
    fn num_inner(&self) -> usize {
        self.verts.iter().filter(|v| v.kind != VType::B).count()
    }
}

// ------------------------------------------------------------------------------------
// scalar classification (independent of quizx: works on the exact raw value)
// ------------------------------------------------------------------------------------

/// r == sqrt2^p * omega^k ?
pub fn exact_form(r: &R) -> Option<(i64, i64)> {
    if Num::is_zero(r) {
        return None;
    }
    let ns = r.norm_sqr();
    if ns.c[0] != BigInt::one() || !ns.c[1].is_zero() || !ns.c[2].is_zero() || !ns.c[3].is_zero() {
        return None;
    }
    let p = ns.e;
    let base = R::sqrt2_pow(p);
    (0..8).find(|&k| base.mul(&R::omega_pow(k)) == *r).map(|k| (p, k))
}

/// Is arg(z)/pi within 1e-12 of a fraction with denominator <= 256?
fn angle_class(r: &R) -> &'static str {
    let c = r.to_cf();
    let th = c.im.atan2(c.re) / std::f64::consts::PI;
    let mut best = f64::INFINITY;
    for d in 1..=256i64 {
        let k = (th * d as f64).round();
        best = best.min((th - k / d as f64).abs());
    }
    if best <= 1e-12 {
        "angle-den<=256"
    } else {
        "angle-den>256"
    }
}

/// Does converting this scalar to a complex float involve a dyadic number with 64
/// significant bits (a stored coefficient, or the intermediate c1 - c3 / c1 + c3)? Such
/// numbers are mis-converted by `Dyadic::val_and_exp` (finding recorded under C07); the
/// encoder's polar form inherits the wrong value.
fn has_64bit_mantissa(s: &Scalar4) -> bool {
    let raw = s.verif_raw();
    let big = |i: usize| -> (BigInt, i64) {
        let (sign, _, m, e) = raw[i];
        let v = BigInt::from(m);
        (if sign { -v } else { v }, e as i64)
    };
    let sig_bits = |x: &BigInt| -> u64 {
        if x.is_zero() {
            0
        } else {
            x.bits() - x.trailing_zeros().unwrap_or(0)
        }
    };
    if (0..4).any(|i| sig_bits(&big(i).0) >= 64) {
        return true;
    }
    let (b, eb) = big(1);
    let (d, ed) = big(3);
    if b.is_zero() || d.is_zero() {
        return false;
    }
    let e = eb.min(ed);
    let (b, d) = (b << ((eb - e) as usize), d << ((ed - e) as usize));
    sig_bits(&(&b - &d)) >= 64 || sig_bits(&(&b + &d)) >= 64
}

#[derive(Clone, Debug, PartialEq)]
enum ScalarClass {
    One,
    Zero,
    ExactForm(i64, i64),
    Other(&'static str),
}

fn classify_scalar(s: &Scalar4) -> ScalarClass {
    let r = r_of_scalar(s);
    if Num::is_zero(&r) {
        ScalarClass::Zero
    } else if r == R::one() {
        ScalarClass::One
    } else if let Some((p, k)) = exact_form(&r) {
        ScalarClass::ExactForm(p, k)
    } else {
        ScalarClass::Other(angle_class(&r))
    }
}

pub const SCALAR_REL_TOL: f64 = 1e-9;

/// Ok(()) or Err((failure class, discriminating condition, relative error))
fn check_scalar(orig: &Scalar4, dec: &Scalar4) -> Result<(), (String, String, f64)> {
    let ro = r_of_scalar(orig);
    let rd = r_of_scalar(dec);
    match classify_scalar(orig) {
        ScalarClass::One | ScalarClass::ExactForm(..) => {
            if ro == rd {
                Ok(())
            } else {
                let rel = rd.sub(&ro).to_cf().norm() / ro.to_cf().norm();
                Err(("scalar-not-exact".into(), "sqrt2^p*omega^k".into(), rel))
            }
        }
        ScalarClass::Zero => {
            if Num::is_zero(&rd) {
                Ok(())
            } else {
                Err(("scalar-not-preserved".into(), "zero".into(), f64::INFINITY))
            }
        }
        ScalarClass::Other(angle) => {
            let no = ro.to_cf().norm();
            let diff = rd.sub(&ro).to_cf().norm();
            let rel = diff / no;
            if rel.is_finite() && rel <= SCALAR_REL_TOL {
                Ok(())
            } else if !no.is_finite() || no == 0.0 {
                // magnitude outside the f64 range: the oracle cannot judge
                Err(("oracle-range".into(), String::new(), rel))
            } else {
                // the angle clause alone explains a failure, so it takes priority
                let cond = if angle == "angle-den>256" {
                    angle.to_string()
                } else if has_64bit_mantissa(orig) {
                    "dyadic-64bit-mantissa".to_string()
                } else {
                    angle.to_string()
                };
                Err(("scalar-not-preserved".into(), cond, rel))
            }
        }
    }
}

// ------------------------------------------------------------------------------------
// the check
// ------------------------------------------------------------------------------------

fn trunc(s: &str) -> String {
    if s.len() > 6000 {
        format!("{}...[{} bytes]", &s[..6000], s.len())
    } else {
        s.to_string()
    }
}

struct Orig<'a> {
    family: &'static str,
    index: u64,
    n: &'a Neutral,
    iso: IsoGraph,
    /// E(original) when evaluable
    tens: Option<Tens>,
    scalar_from_rewriting: bool,
}

/// A decoded diagram is itself a well-formed diagram whose scalar has the same value: encode
/// it again, decode, and judge the result against the *original* (first-trip artefacts such
/// as the approx flag set by the decoder must not change what the second trip preserves).
fn second_trip<G: GraphLike>(o: &Orig, site: &str, path: &str, g2: &G) {
    let c = ctx();
    let path2 = format!("{path}->re-encoded->same-backend");
    let text2 = match guarded(|| quizx::json::encode_graph(g2)) {
        Err(e) => {
            report_caught(o, site, "re-encode", &path2, None, e);
            return;
        }
        Ok(Err(e)) => {
            c.violation(
                &format!("{site}|re-encode-err"),
                o.family,
                o.index,
                json!({"what": "encode_graph returned Err on a decoded diagram", "path": path2, "original": o.n.to_json(), "error": format!("{e}")}),
            );
            return;
        }
        Ok(Ok(t)) => t,
    };
    match guarded(|| quizx::json::decode_graph::<G>(&text2)) {
        Err(e) => report_caught(o, site, "decode", &path2, Some(&text2), e),
        Ok(Err(e)) => c.violation(
            &format!("{site}|decode-err|second-trip"),
            o.family,
            o.index,
            json!({"what": "decode_graph returned Err on the re-encoding of a decoded diagram", "path": path2, "original": o.n.to_json(), "json": trunc(&text2), "error": format!("{e}")}),
        ),
        Ok(Ok(g3)) => {
            c.count("path:second-trip", 1);
            let _ = judge(o, site, &path2, &text2, &g3);
        }
    }
}

/// Returns true when structure and scalar were judged preserved.
fn judge<G: GraphLike>(o: &Orig, site: &str, path: &str, text: &str, g2: &G) -> bool {
    let c = ctx();
    let opts = IsoOpts::default();
    let dec = match guarded(|| Neutral::of_graph(g2, "decoded")) {
        Ok(d) => d,
        Err(e) => {
            c.violation(
                &format!("{site}|decoded-graph-inconsistent|{}", e.site()),
                o.family,
                o.index,
                json!({"path": path, "original": o.n.to_json(), "json": trunc(text), "error": e.text()}),
            );
            return false;
        }
    };
    let detail = |what: &str, extra: Value| {
        json!({"what": what, "path": path, "original": o.n.to_json(), "json": trunc(text), "decoded": dec.to_json(), "extra": extra})
    };
    let mut structure_ok = true;
    match iso::find_iso(&o.iso, &dec.to_iso(), &opts) {
        IsoResult::Iso(_) => c.count("iso:found", 1),
        IsoResult::Budget => {
            structure_ok = false;
            c.inconclusive("iso-budget", json!({"family": o.family, "index": o.index, "path": path}));
        }
        IsoResult::NotIso(reason) => {
            structure_ok = false;
            let class = iso::classify(&o.iso, &dec.to_iso(), &opts);
            c.violation(
                &format!("{site}|not-isomorphic|{class}"),
                o.family,
                o.index,
                detail("no anchored label-preserving isomorphism original -> decoded", json!({"first_reason": reason, "failing_clause": class})),
            );
        }
    }
    let mut scalar_ok = true;
    match check_scalar(&o.n.scalar, dec_scalar(g2)) {
        Ok(()) => c.count("scalar:preserved", 1),
        Err((class, cond, rel)) if class == "oracle-range" => {
            scalar_ok = false;
            c.inconclusive("scalar-magnitude-outside-f64", json!({"family": o.family, "index": o.index, "path": path, "rel": rel, "cond": cond}));
        }
        Err((class, cond, rel)) => {
            scalar_ok = false;
            let src = if o.scalar_from_rewriting { "from-clifford+t-rewriting" } else { "hand-made" };
            c.count(&format!("scalar-violation:{class}|{cond}:{src}"), 1);
            c.violation(
                &format!("{site}|{class}|{cond}"),
                o.family,
                o.index,
                detail(
                    "scalar value changed",
                    json!({"expected": scalar_json(&o.n.scalar), "observed": scalar_json(dec_scalar(g2)), "scalar_provenance": src, "relative_error": rel, "tolerance": if class == "scalar-not-exact" { 0.0 } else { SCALAR_REL_TOL }}),
                ),
            );
        }
    }
    // consequence clause: same linear map
    if let Some(before) = &o.tens {
        match snap(g2) {
            Err(e) => {
                if structure_ok {
                    c.violation(&format!("{site}|decoded-not-evaluable"), o.family, o.index, detail("decoded diagram has unsupported kinds", json!(e)));
                }
            }
            Ok(mut s2) => {
                // flag bits are not part of the contract: an equal value is evaluated in the same mode
                if s2.scalar == r_of_scalar(&o.n.scalar) {
                    s2.scalar_approx = scalar_is_approx(&o.n.scalar);
                }
                match eval_snap(&s2) {
                    Ok(after) => {
                        c.count(if before.is_exact() && after.is_exact() { "map:compared-exact" } else { "map:compared-float" }, 1);
                        if after.len() != before.len() || !after.same(before, FLOAT_TOL) {
                            if structure_ok && scalar_ok {
                                c.violation(
                                    &format!("{site}|map-changed|iso-and-scalar-ok"),
                                    o.family,
                                    o.index,
                                    detail("linear map changed although structure and scalar were judged equal", json!({"before": before.brief(), "after": after.brief()})),
                                );
                            } else {
                                c.count("map:changed-as-consequence", 1);
                            }
                        }
                    }
                    Err(EvalError::IllFormed(m)) => {
                        if structure_ok {
                            c.violation(&format!("{site}|decoded-ill-formed"), o.family, o.index, detail("decoded diagram ill-formed", json!(m)));
                        }
                    }
                    Err(EvalError::TooWide(_)) => c.count("map:too-wide", 1),
                }
            }
        }
    }
    structure_ok && scalar_ok
}

fn r_gl(i: u64) -> bool {
    i % 2 == 0
}

fn dec_scalar<G: GraphLike>(g: &G) -> &Scalar4 {
    g.scalar()
}

fn report_caught(o: &Orig, site: &str, stage: &str, path: &str, text: Option<&str>, e: Caught) {
    let c = ctx();
    match e {
        Caught::Oracle(m) => c.inconclusive("oracle-error", json!({"msg": m})),
        e => c.violation(
            &format!("{site}|{stage}-panic|{}", e.site()),
            o.family,
            o.index,
            json!({"what": format!("{stage} panicked"), "path": path, "original": o.n.to_json(), "json": text.map(trunc), "panic": e.text()}),
        ),
    }
}

/// encode from backend A, decode into backends listed.
fn roundtrip_from<A: GraphLike>(o: &Orig, from: &str, scramble: Option<u64>, to_vec: bool, to_hash: bool) {
    let c = ctx();
    let site = "qgraph";
    let g: A = o.n.build(scramble);
    let enc = guarded(|| quizx::json::encode_graph(&g));
    let text = match enc {
        Err(e) => {
            report_caught(o, site, "encode", from, None, e);
            return;
        }
        Ok(Err(e)) => {
            c.violation(
                &format!("{site}|encode-err"),
                o.family,
                o.index,
                json!({"what": "encode_graph returned Err on a well-formed diagram", "path": from, "original": o.n.to_json(), "error": format!("{e}")}),
            );
            return;
        }
        Ok(Ok(t)) => t,
    };
    c.count(&format!("encode:{from}"), 1);
    c.maximum("max_json_bytes", text.len() as u64);
    if to_vec {
        let path = format!("{from}->vec");
        match guarded(|| quizx::json::decode_graph::<VecG>(&text)) {
            Err(e) => report_caught(o, site, "decode", &path, Some(&text), e),
            Ok(Err(e)) => c.violation(
                &format!("{site}|decode-err"),
                o.family,
                o.index,
                json!({"what": "decode_graph returned Err on encoder output", "path": path, "original": o.n.to_json(), "json": trunc(&text), "error": format!("{e}")}),
            ),
            Ok(Ok(g2)) => {
                c.count(&format!("path:{path}"), 1);
                if judge(o, site, &path, &text, &g2) {
                    second_trip(o, site, &path, &g2);
                }
            }
        }
    }
    if to_hash {
        let path = format!("{from}->hash");
        match guarded(|| quizx::json::decode_graph::<HashG>(&text)) {
            Err(e) => report_caught(o, site, "decode", &path, Some(&text), e),
            Ok(Err(e)) => c.violation(
                &format!("{site}|decode-err"),
                o.family,
                o.index,
                json!({"what": "decode_graph returned Err on encoder output", "path": path, "original": o.n.to_json(), "json": trunc(&text), "error": format!("{e}")}),
            ),
            Ok(Ok(g2)) => {
                c.count(&format!("path:{path}"), 1);
                if judge(o, site, &path, &text, &g2) {
                    second_trip(o, site, &path, &g2);
                }
            }
        }
    }
}

/// The file variants of the same encoder/decoder: `write_graph` then `read_graph` (the
/// reader deserialises from an io::Read, which - unlike from_str - cannot lend out borrowed
/// strings). Used on a fraction of the cases; files live under harness/target/tmp.
fn roundtrip_file(o: &Orig, scramble: Option<u64>) {
    let c = ctx();
    let site = "qgraph-file";
    let dir = crate::fw::scratch_dir("c13");
    // every other case writes over a file that is already there (one per worker thread, left in
    // place between cases): what an earlier, possibly longer, document left behind must not matter
    let reuse = if o.family == "large-sparse" { o.index % 2 == 0 } else { (o.index / 8) % 2 == 0 };
    let file = if reuse {
        ctx().count("file:written-over-an-existing-file", 1);
        format!("{dir}/reused-{:?}.qgraph", std::thread::current().id())
    } else {
        format!("{dir}/{}-{}-{:?}.qgraph", o.family, o.index, std::thread::current().id())
    };
    let path = std::path::Path::new(&file);
    let g: VecG = o.n.build(scramble);
    match guarded(|| quizx::json::write_graph(&g, path)) {
        Err(e) => {
            report_caught(o, site, "write", "vec-file", None, e);
            if !reuse {
                let _ = std::fs::remove_file(path);
            }
            return;
        }
        Ok(Err(e)) => {
            c.violation(&format!("{site}|write-err"), o.family, o.index, json!({"what": "write_graph returned Err on a well-formed diagram", "original": o.n.to_json(), "error": format!("{e}")}));
            if !reuse {
                let _ = std::fs::remove_file(path);
            }
            return;
        }
        Ok(Ok(())) => {}
    }
    let text = std::fs::read_to_string(path).unwrap_or_default();
    let has_h = o.n.to_json().to_string().contains("\"H\"");
    match guarded(|| quizx::json::read_graph::<HashG>(path)) {
        Err(e) => report_caught(o, site, "read", "vec-file->hash", Some(&text), e),
        Ok(Err(e)) => c.violation(
            &format!("{site}|read-err|{}", if has_h { "diagram-has-hadamard-edge" } else { "no-hadamard-edge" }),
            o.family,
            o.index,
            json!({"what": "read_graph returned Err on a file written by write_graph", "original": o.n.to_json(), "json": trunc(&text), "error": format!("{e}")}),
        ),
        Ok(Ok(g2)) => {
            c.count("path:vec-file->hash", 1);
            let _ = judge(o, site, "vec-file->hash", &text, &g2);
        }
    }
    if !reuse {
        let _ = std::fs::remove_file(path);
    }
}

fn roundtrip_serde(o: &Orig, scramble: Option<u64>) {
    let c = ctx();
    let site = "serde(hash_graph)";
    let g: HashG = o.n.build(scramble);
    let text = match guarded(|| serde_json::to_string(&g)) {
        Err(e) => {
            report_caught(o, site, "serialize", "serde", None, e);
            return;
        }
        Ok(Err(e)) => {
            c.violation(
                &format!("{site}|serialize-err"),
                o.family,
                o.index,
                json!({"what": "serde_json::to_string(&hash_graph) returned Err", "original": o.n.to_json(), "error": format!("{e}")}),
            );
            return;
        }
        Ok(Ok(t)) => t,
    };
    match guarded(|| serde_json::from_str::<HashG>(&text)) {
        Err(e) => report_caught(o, site, "deserialize", "serde", Some(&text), e),
        Ok(Err(e)) => c.violation(
            &format!("{site}|deserialize-err"),
            o.family,
            o.index,
            json!({"what": "serde_json::from_str::<hash_graph::Graph> returned Err on serializer output", "original": o.n.to_json(), "json": trunc(&text), "error": format!("{e}")}),
        ),
        Ok(Ok(g2)) => {
            c.count("path:hash-serde", 1);
            let _ = judge(o, site, "hash-serde", &text, &g2);
        }
    }
}

pub fn check_neutral(family: &'static str, index: u64, r: &mut Rng, n: &Neutral) {
    let c = ctx();
    // harness-side sanity: the plain build must snapshot back to the description
    let g0: VecG = n.build(None);
    let back = Neutral::of_graph(&g0, "");
    if !matches!(iso::find_iso(&n.to_iso(), &back.to_iso(), &IsoOpts { coord_tol: 0.0, ..Default::default() }), IsoResult::Iso(_)) && n.max_den() <= 256 {
        c.harness_error(&format!("{family}#{index}: building the description does not reproduce it"));
        return;
    }
    let evaluable = !n.has_hbox() && n.max_den() <= 256;
    let tens = if evaluable {
        match snap(&g0).map_err(EvalError::IllFormed).and_then(|s| eval_snap(&s)) {
            Ok(t) => Some(t),
            Err(EvalError::TooWide(_)) => {
                c.count("map:too-wide", 1);
                None
            }
            Err(EvalError::IllFormed(m)) => {
                c.harness_error(&format!("{family}#{index}: generator produced an ill-formed diagram: {m}"));
                return;
            }
        }
    } else {
        c.count(if n.has_hbox() { "map:skipped-hbox" } else { "map:skipped-approximated-phase" }, 1);
        None
    };
    let from_rewriting = n.scalar_src.starts_with("simplifier") || n.scalar_src == "one" || n.scalar_src == "hand-exact";
    let o = Orig { family, index, n, iso: n.to_iso(), tens, scalar_from_rewriting: from_rewriting };
    let scr = if r.chance(0.5) { Some(r.next_u64()) } else { None };
    if family == "large-sparse" {
        // three paths only (the isomorphism search on ~1000 vertices dominates the cost)
        roundtrip_file(&o, scr);
        if index % 2 == 0 {
            roundtrip_from::<VecG>(&o, "vec", scr, false, true);
        } else {
            roundtrip_serde(&o, scr);
        }
    } else {
        roundtrip_from::<VecG>(&o, "vec", scr, true, true);
        roundtrip_from::<HashG>(&o, "hash", scr, true, true);
        roundtrip_serde(&o, scr);
        if index % 8 == 0 {
            roundtrip_file(&o, scr);
        }
    }
    // evidence
    let cls = classify_scalar(&n.scalar);
    c.count(
        &format!(
            "scalar-class:{}",
            match &cls {
                ScalarClass::One => "one".to_string(),
                ScalarClass::Zero => "zero".to_string(),
                ScalarClass::ExactForm(..) => "sqrt2^p*omega^k".to_string(),
                ScalarClass::Other(a) => format!("other({a})"),
            }
        ),
        1,
    );
    if scalar_is_approx(&n.scalar) {
        c.count("scalar-flag:approx", 1);
    }
    c.count(&format!("scalar-src:{}", n.scalar_src.split(':').next().unwrap_or("")), 1);
    c.count(&format!("coords:{}", n.coord_mode), 1);
    c.count("h-edges", n.num_h_edges() as u64);
    c.count("h-box-vertices", n.verts.iter().filter(|v| v.kind == VType::H).count() as u64);
    c.count("phases:den<=4", n.verts.iter().filter(|v| v.kind != VType::B && v.ph.1 <= 4).count() as u64);
    c.count("phases:4<den<=256", n.verts.iter().filter(|v| v.ph.1 > 4 && v.ph.1 <= 256).count() as u64);
    c.count("phases:den>256", n.verts.iter().filter(|v| v.ph.1 > 256).count() as u64);
    c.maximum("max_vertices", n.verts.len() as u64);
    c.maximum("max_boundaries", (n.inputs.len() + n.outputs.len()) as u64);
    let nontrivial = n.num_inner() >= 2 && !n.edges.is_empty();
    c.case(family, if nontrivial { Some(n.hash()) } else { None });
    c.evals(4); // five round-trip paths per diagram
    c.sample_n(6, || json!({"family": family, "index": index, "diagram": n.to_json()}));
}

// ------------------------------------------------------------------------------------
// generators
// ------------------------------------------------------------------------------------

const SMALL_DENS: [i64; 14] = [3, 5, 6, 7, 8, 12, 16, 32, 64, 100, 128, 255, 256, 9];
const LARGE_DENS: [i64; 9] = [257, 258, 511, 512, 1000, 1024, 4099, 65536, 1_000_003];

fn norm_phase(n: i64, d: i64) -> (i64, i64) {
    let p = Phase::new(Rational64::new(n, d)).to_rational();
    (*p.numer(), *p.denom())
}

fn rand_phase(r: &mut Rng, dens: &[i64]) -> (i64, i64) {
    let d = *r.pick(dens);
    // biased to the ends of (-1, 1]
    let k = match r.below(6) {
        0 => d - 1,
        1 => -(d - 1),
        2 => 1,
        _ => r.range(-d + 1, d),
    };
    norm_phase(k, d)
}

fn set_coords(r: &mut Rng, n: &mut Neutral) {
    let mode = r.below(6);
    n.coord_mode = ["zero", "unique-grid", "dyadic-with-duplicates", "random-floats", "extreme", "decimal"][mode];
    for (i, v) in n.verts.iter_mut().enumerate() {
        let (x, y) = match mode {
            0 => (0.0, 0.0),
            1 => (1.0 + i as f64, (i % 4) as f64),
            2 => (r.range(-8, 8) as f64 / 8.0, r.range(0, 3) as f64 / 2.0),
            3 => (r.f64() * 200.0 - 100.0, r.f64() * 20.0 - 10.0),
            4 => {
                let pool = [1e15 + 0.5, -1e-7, -0.0, 123456.789, 1e-300, -3.5e10, 0.1 + 0.2, 2f64.powi(52) + 1.0];
                (*r.pick(&pool), *r.pick(&pool) + i as f64)
            }
            _ => (r.range(-500, 500) as f64 / 100.0, r.range(0, 30) as f64 / 10.0),
        };
        v.x = x;
        v.y = y;
    }
}

/// Insert H-box vertices structurally: subdivide edges and attach new boxes.
fn add_hboxes(r: &mut Rng, n: &mut Neutral) {
    let ops = 1 + r.below(3);
    for _ in 0..ops {
        let ph = if r.chance(0.6) { (1, 1) } else { *r.pick(&[(0i64, 1i64), (1, 2), (1, 4), (-3, 4), (1, 3)]) };
        let spiders: Vec<usize> = (0..n.verts.len()).filter(|&i| n.verts[i].kind != VType::B).collect();
        if !n.edges.is_empty() && r.chance(0.5) {
            let ei = r.below(n.edges.len());
            let (a, b, _k) = n.edges.swap_remove(ei);
            let h = n.verts.len();
            n.verts.push(NV { kind: VType::H, ph, x: 0.0, y: 0.0 });
            n.edges.push((a, h, EType::N));
            n.edges.push((b, h, if r.chance(0.3) { EType::H } else { EType::N }));
        } else if !spiders.is_empty() {
            let h = n.verts.len();
            n.verts.push(NV { kind: VType::H, ph, x: 0.0, y: 0.0 });
            let ar = 1 + r.below(3.min(spiders.len()));
            let mut ss = spiders.clone();
            r.shuffle(&mut ss);
            for &s in ss.iter().take(ar) {
                n.edges.push((s, h, if r.chance(0.3) { EType::H } else { EType::N }));
            }
        }
    }
}

fn hand_scalar(r: &mut Rng) -> (Scalar4, &'static str) {
    match r.below(8) {
        0 => {
            // sqrt2^p * omega^k through the public constructors
            let p = r.range(-60, 60) as i32;
            let k = r.range(0, 7);
            (Scalar4::sqrt2_pow(p) * Scalar4::from_phase(Rational64::new(k, 4)), "hand-exact")
        }
        1 => {
            // the same class through explicit coefficients
            let p = r.range(-60, 60);
            let k = r.range(0, 7);
            let v = R::sqrt2_pow(p).mul(&R::omega_pow(k));
            (scalar_of_r(&v).expect("small"), "hand-exact")
        }
        2 => {
            let mut c = [0i64; 4];
            for x in c.iter_mut() {
                *x = r.range(-9, 9);
            }
            (Scalar4::new(c, r.range(-12, 12) as i32), "hand-general")
        }
        3 => {
            let mut c = [0i64; 4];
            for x in c.iter_mut() {
                *x = r.range(-1_000_000_007, 1_000_000_007);
            }
            (Scalar4::new(c, r.range(-40, 40) as i32), "hand-general")
        }
        4 => {
            // products of (1 + e^{i pi k/4}): what Clifford+T rewriting produces
            let mut s = Scalar4::sqrt2_pow(r.range(-6, 6) as i32) * Scalar4::from_phase(Rational64::new(r.range(0, 7), 4));
            for _ in 0..(1 + r.below(4)) {
                s *= Scalar4::one_plus_phase(Rational64::new(*r.pick(&[1i64, 3, 5, 7, 2, 6]), 4));
            }
            (s, "hand-general")
        }
        5 => (Scalar4::complex(r.f64() * 4.0 - 2.0, r.f64() * 4.0 - 2.0), "hand-float"),
        6 => {
            // products of float factors (non-Clifford+T phases)
            let mut s = Scalar4::from_phase(rand_phase_rat(r));
            for _ in 0..(1 + r.below(4)) {
                s *= Scalar4::one_plus_phase(rand_phase_rat(r));
            }
            (s, "hand-float")
        }
        _ => match r.below(4) {
            0 => (Scalar4::zero(), "hand-general"),
            1 => (Scalar4::real(r.f64() * 10.0 - 5.0), "hand-float"),
            2 => (Scalar4::real(1.0), "hand-float"),
            _ => (Scalar4::new([0, 0, 0, 0], 0) + Scalar4::new([2, 0, 0, 0], -1), "hand-exact"),
        },
    }
}

fn rand_phase_rat(r: &mut Rng) -> Rational64 {
    let (n, d) = rand_phase(r, &[3, 5, 7, 8, 16, 12]);
    Rational64::new(n, d)
}

fn base_desc(r: &mut Rng, max_spiders: usize) -> DDesc {
    let pool = *r.pick(&[PhasePool::Exact, PhasePool::CliffordHeavy, PhasePool::Float, PhasePool::Exact]);
    if r.chance(0.2) {
        gen_gadget_rich(r, 5, pool, 0.0)
    } else {
        let graph_like = r.chance(0.2);
        gen_random(r, &DiagParams { max_spiders, max_bnd: 5, pool, graph_like, bare_wires: true, var_prob: 0.0 })
    }
}

fn gen_arbitrary(r: &mut Rng, max_spiders: usize, large: bool) -> Neutral {
    let d = base_desc(r, max_spiders);
    let mut n = Neutral::from_desc(&d);
    // phases: small denominators exactly representable, optionally large ones
    let p_small = *r.pick(&[0.0, 0.3, 0.8]);
    for v in n.verts.iter_mut() {
        if v.kind == VType::B {
            continue;
        }
        if large && r.chance(0.5) {
            v.ph = rand_phase(r, &LARGE_DENS);
        } else if r.chance(p_small) {
            v.ph = rand_phase(r, &SMALL_DENS);
        }
    }
    if r.chance(0.3) {
        add_hboxes(r, &mut n);
    }
    set_coords(r, &mut n);
    if r.chance(0.4) {
        let (s, src) = hand_scalar(r);
        n.scalar = s;
        n.scalar_src = src.into();
    }
    n
}

const SIMPS: [&str; 8] = ["clifford_simp", "full_simp", "interior_clifford_simp", "spider_simp", "flow_simp", "pivot_simp", "local_comp_simp", "fuse_gadgets"];

fn apply_simp(name: &str, g: &mut VecG) {
    use quizx::simplify as s;
    match name {
        "clifford_simp" => {
            s::clifford_simp(g);
        }
        "full_simp" => {
            s::full_simp(g);
        }
        "interior_clifford_simp" => {
            s::interior_clifford_simp(g);
        }
        "spider_simp" => {
            s::spider_simp(g);
        }
        "flow_simp" => {
            s::flow_simp(g);
        }
        "pivot_simp" => {
            s::pivot_simp(g);
        }
        "local_comp_simp" => {
            s::local_comp_simp(g);
        }
        _ => {
            s::fuse_gadgets(g);
        }
    }
}

/// A diagram as left by a quizx simplifier on a Clifford+T input (quizx is only an input
/// generator here). None when the simplifier panicked / ran out of budget.
fn gen_simplified(r: &mut Rng, max_spiders: usize) -> Option<Neutral> {
    let name = *r.pick(&SIMPS);
    let mut g: VecG = if r.chance(0.5) {
        let pool = if r.chance(0.5) { PhasePool::Exact } else { PhasePool::CliffordHeavy };
        let d = if r.chance(0.3) {
            gen_gadget_rich(r, 5, pool, 0.0)
        } else {
            let graph_like = r.chance(0.5);
            gen_random(r, &DiagParams { max_spiders, max_bnd: 4, pool, graph_like, bare_wires: true, var_prob: 0.0 })
        };
        let mut n = Neutral::from_desc(&d);
        n.scalar = Scalar4::one();
        set_coords(r, &mut n);
        n.build(None)
    } else {
        let mut p = CircParams::unitary(4, 25, PhPool::Exact);
        p.swap = false;
        p.ancilla = r.chance(0.3);
        let circ = gen_circuit(r, &p);
        let qc = to_quizx(&circ);
        let mut g: VecG = guarded(|| qc.to_graph()).ok()?;
        let nq = g.inputs().len();
        match r.below(4) {
            0 => {
                let no = g.outputs().len();
                guarded(|| {
                    g.plug_inputs(&vec![quizx::graph::BasisElem::Z0; nq]);
                    g.plug_outputs(&vec![quizx::graph::BasisElem::Z0; no]);
                })
                .ok()?;
            }
            1 => {
                guarded(|| g.plug_inputs(&vec![quizx::graph::BasisElem::X0; nq])).ok()?;
            }
            _ => {}
        }
        g
    };
    let budget = 10_000 + 50 * ((g.num_vertices() + g.num_edges()) as u64).pow(2);
    quizx::verif::take_ticks();
    quizx::verif::set_budget(budget);
    let res = guarded(|| apply_simp(name, &mut g));
    quizx::verif::set_budget(u64::MAX);
    quizx::verif::take_ticks();
    res.ok()?;
    // the result must still be a well-formed diagram to be a legal input here
    let s = snap(&g).ok()?;
    s.diag.check_well_formed().ok()?;
    let mut n = guarded(|| Neutral::of_graph(&g, &format!("simplifier:{name}"))).ok()?;
    n.coord_mode = "as-left-by-quizx";
    Some(n)
}

pub fn run() {
    let c = ctx();
    let t = c.tier;
    if let Err(e) = iso::self_test() {
        c.harness_error(&format!("iso oracle self-test failed: {e}"));
        return;
    }
    // self-test of the scalar classifier
    for p in -5..=5i64 {
        for k in 0..8 {
            if exact_form(&R::sqrt2_pow(p).mul(&R::omega_pow(k))) != Some((p, k)) {
                c.harness_error("exact_form self-test failed");
                return;
            }
        }
    }
    if exact_form(&R::from_i64s([1, 1, 0, 0], 0)).is_some() || exact_form(&R::from_i64s([3, 0, 0, 0], 0)).is_some() || exact_form(&R::from_i64s([0, 1, 0, 2], 0)).is_some() {
        c.harness_error("exact_form self-test failed (negative)");
        return;
    }
    c.set_rule(
        "cases = generated diagrams, each pushed through 5 round-trip paths (vec->vec, vec->hash, hash->hash, hash->vec via encode_graph/decode_graph, and serde on the hash backend; evaluations counts paths); a diagram is non-trivial when it has >= 2 non-boundary vertices and >= 1 edge; distinct = distinct (vertices, edges, anchors, raw scalar) by 64-bit hash",
    );
    c.assume("O5-iso (harness/src/oracle/iso.rs) is correct (self-tested at start; every witness is re-verified)");
    c.assume("exact scalar read-out through Scalar4::verif_raw; flag bits (approx) are not part of the contract");
    c.assume("phases with denominator > 256 must decode to within 1/512 (+1e-12) of the original on the circle; nothing more is demanded of them");
    c.assume("coordinates are finite f64; tolerance |d| <= 1e-9 * max(1,|x|)");
    c.assume("scalars tagged hand-made (arbitrary Z[omega][1/2] elements, float scalars) go beyond 'scalars arising from Clifford+T rewriting'; their violations carry the tag in the signature");
    c.assume("well-formed diagram: every boundary has degree 1 and is an input or an output exactly once; no variables on vertices (the format does not carry them)");

    let (ms, n_arb, n_large, n_simp) = t.pick((9usize, 18000usize, 6000usize, 15000usize), (14usize, 2_500_000usize, 500_000usize, 2_000_000usize));
    // the in-scope scalars first, so that a replay file of a scalar signature carries a
    // witness that really arises from Clifford+T rewriting whenever there is one
    par_cases("simplified-clifford-t", n_simp, move |r, i| match gen_simplified(r, ms + 3) {
        Some(n) => check_neutral("simplified-clifford-t", i, r, &n),
        None => ctx().skipped(),
    });
    par_cases("arbitrary", n_arb, move |r, i| {
        let n = gen_arbitrary(r, ms, false);
        check_neutral("arbitrary", i, r, &n);
    });
    par_cases("large-denominators", n_large, move |r, i| {
        let n = gen_arbitrary(r, ms, true);
        check_neutral("large-denominators", i, r, &n);
    });
    // files well beyond one I/O buffer (64 KiB is about 350 vertices): 300-1500 spiders
    let n_ls = t.pick(40usize, 3_000usize);
    par_cases("large-sparse", n_ls, move |r, i| {
        let hi = *r.pick(&[450usize, 700, 1000]);
        let lo = if r.chance(0.5) { 300 } else { r.log_uniform(80, hi - 1) };
        let d = gen_long_sparse(r, lo, hi, PhasePool::Exact, r_gl(i), 0.0);
        let mut n = Neutral::from_desc(&d);
        for v in n.verts.iter_mut() {
            if v.kind != VType::B && r.chance(0.2) {
                v.ph = rand_phase(r, &SMALL_DENS);
            }
        }
        set_coords(r, &mut n);
        if n.coord_mode == "zero" || n.coord_mode == "dyadic-with-duplicates" {
            // keep the vertices distinguishable: the anchored search is quadratic otherwise
            n.coord_mode = "unique-grid";
            for (k, v) in n.verts.iter_mut().enumerate() {
                v.x = 1.0 + k as f64;
                v.y = (k % 4) as f64;
            }
        }
        check_neutral("large-sparse", i, r, &n);
    });
    // exhaustive: every sqrt2^p * omega^k, |p| <= P, on a one-wire diagram with one spider
    let pmax = t.pick(40i64, 200i64);
    let total = ((2 * pmax + 1) * 8 * 2) as usize; // two constructors per value
    par_cases("exact-scalars-exhaustive", total, move |r, i| {
        let p = (i as i64) / 16 - pmax;
        let k = (i as i64 / 2) % 8;
        let s = if i % 2 == 0 {
            Scalar4::sqrt2_pow(p as i32) * Scalar4::from_phase(Rational64::new(k, 4))
        } else {
            scalar_of_r(&R::sqrt2_pow(p).mul(&R::omega_pow(k))).expect("small")
        };
        if exact_form(&r_of_scalar(&s)) != Some((p, k)) {
            ctx().inconclusive("scalar-constructor-gave-unexpected-value", json!({"p": p, "k": k, "got": scalar_json(&s)}));
            return;
        }
        let n = Neutral {
            verts: vec![
                NV { kind: VType::B, ph: (0, 1), x: 0.0, y: 0.0 },
                NV { kind: VType::Z, ph: (1, 4), x: 1.0, y: 0.0 },
                NV { kind: VType::X, ph: (0, 1), x: 2.0, y: 0.0 },
                NV { kind: VType::B, ph: (0, 1), x: 3.0, y: 0.0 },
            ],
            edges: vec![(0, 1, EType::N), (1, 2, EType::H), (2, 3, EType::N)],
            inputs: vec![0],
            outputs: vec![3],
            scalar: s,
            scalar_src: "hand-exact".into(),
            coord_mode: "unique-grid",
        };
        check_neutral("exact-scalars-exhaustive", i, r, &n);
    });
    // the same form with exponents far outside anything a rewrite produces (the statement has
    // no bound): around 2^15, 2^16, 2^20, 2^30
    const HUGE_P: [i64; 14] = [1000, 32766, 32767, 32768, 32769, 40001, 65535, 65536, 65537, 1 << 20, (1 << 20) + 1, 1 << 28, (1 << 30) - 1, 1 << 30];
    par_cases("exact-scalars-huge-exponents", HUGE_P.len() * 2 * 8, move |r, i| {
        let i = i as usize;
        let p = HUGE_P[i / 16] * if (i / 8) % 2 == 0 { 1 } else { -1 };
        let k = (i % 8) as i64;
        let s = Scalar4::sqrt2_pow(p as i32) * Scalar4::from_phase(Rational64::new(k, 4));
        if exact_form(&r_of_scalar(&s)) != Some((p, k)) {
            ctx().inconclusive("scalar-constructor-gave-unexpected-value", json!({"p": p, "k": k, "got": scalar_json(&s)}));
            return;
        }
        let n = Neutral {
            verts: vec![NV { kind: VType::B, ph: (0, 1), x: 0.0, y: 0.0 }, NV { kind: VType::Z, ph: (1, 4), x: 1.0, y: 0.0 }, NV { kind: VType::B, ph: (0, 1), x: 2.0, y: 0.0 }],
            edges: vec![(0, 1, EType::N), (1, 2, EType::H)],
            inputs: vec![0],
            outputs: vec![2],
            scalar: s,
            scalar_src: "hand-exact".into(),
            coord_mode: "unique-grid",
        };
        check_neutral("exact-scalars-huge-exponents", i as u64, r, &n);
    });
    c.extra("exact_scalars_exhaustive", json!({"p_range": [-pmax, pmax], "k_range": [0, 7], "cases": total, "completed": !c.out_of_time()}));
    c.extra("exhaustive", json!(false));
}

//! C14 -- QASM printing and parsing round-trip circuits; unsupported constructs are errors.
//!
//! (i)   `Circuit::from_qasm(c.to_qasm())` is `Ok` and structurally equal to `c` (qubit
//!       count, gate names, qubit arguments, phases), exhaustively for single-gate circuits
//!       with every phase k/d, d <= 16, -d < k <= d, and for random circuits over the
//!       supported gate set, including zero-gate circuits and idle qubits.
//! (ii)  generated QASM texts with an independently computed expectation: several
//!       registers (consecutive numbering in declaration order), phase expressions in
//!       many syntactic forms (exact for integer/pi arithmetic and dyadic decimals, within
//!       the documented single-precision accuracy for other decimals), user gate
//!       definitions (inlined), whole-register broadcasts, built-in `CX`, `measure`.
//! (iii) texts containing barrier / reset / if / U / undefined names / names only defined
//!       in the ignored include file must give `Err`: no panic, no `Ok`.
//!
//! The comparison never uses quizx's own `==` as the oracle (it is observed and a
//! disagreement with the structural comparison is reported separately).

use crate::fw::{ctx, guarded, par_cases, Caught};
use crate::gen::circuit::{circ_hash, circ_json, gen_circuit, to_quizx, CircParams, PhPool};
use crate::gen::prng::{hash_bytes, Rng};
use crate::oracle::sim::{Circ, G};
use quizx::circuit::Circuit;
use quizx::gate::{GType, Gate};
use serde_json::{json, Value};
use std::sync::Arc;

// ------------------------------------------------------------------------------------
// expectation model
// ------------------------------------------------------------------------------------

fn gcd(a: i128, b: i128) -> i128 {
    let (mut a, mut b) = (a.abs(), b.abs());
    while b != 0 {
        let t = a % b;
        a = b;
        b = t;
    }
    a
}

/// A phase in units of pi: exactly known (rational) or known up to a tolerance.
#[derive(Clone, Debug)]
struct PhaseVal {
    exact: Option<(i128, i128)>,
    val: f64,
    /// accumulated magnitude (in units of pi) of the inexact literals, for the tolerance
    mag: f64,
}

impl PhaseVal {
    fn exact(n: i128, d: i128) -> PhaseVal {
        assert!(d != 0);
        let (n, d) = if d < 0 { (-n, -d) } else { (n, d) };
        let g = gcd(n, d).max(1);
        PhaseVal { exact: Some((n / g, d / g)), val: n as f64 / d as f64, mag: 0.0 }
    }
    fn approx(val: f64) -> PhaseVal {
        PhaseVal { exact: None, val, mag: val.abs() }
    }
    fn scale(&self, n: i128, d: i128) -> PhaseVal {
        let f = n as f64 / d as f64;
        match self.exact {
            Some((a, b)) => PhaseVal::exact(a * n, b * d),
            None => PhaseVal { exact: None, val: self.val * f, mag: self.mag * f.abs() },
        }
    }
    fn add(&self, o: &PhaseVal) -> PhaseVal {
        match (self.exact, o.exact) {
            (Some((a, b)), Some((c, d))) => PhaseVal::exact(a * d + c * b, b * d),
            _ => PhaseVal { exact: None, val: self.val + o.val, mag: self.mag + o.mag },
        }
    }
}

/// documented accuracy of decimal parameters: f32 literals, f32 division by pi
const DECIMAL_TOL: f64 = 1e-6;

fn circle_dist_f(a: f64, b: f64) -> f64 {
    let d = (a - b).rem_euclid(2.0);
    d.min(2.0 - d)
}

/// observed phase (reduced rational, any representative) against the expectation
fn phase_matches(exp: &PhaseVal, obs: (i64, i64)) -> bool {
    match exp.exact {
        Some((n, d)) => {
            let num = n * obs.1 as i128 - obs.0 as i128 * d;
            let den = 2 * d * obs.1 as i128;
            den > 0 && num.rem_euclid(den) == 0
        }
        None => {
            let o = obs.0 as f64 / obs.1 as f64;
            circle_dist_f(exp.val, o) <= DECIMAL_TOL * exp.mag.max(1.0)
        }
    }
}

#[derive(Clone, Debug)]
struct EGate {
    name: String,
    qs: Vec<usize>,
    phase: Option<PhaseVal>,
    bit: Option<u32>,
    /// syntactic features of the statement this gate came from
    tags: String,
}

fn gtype_name(t: GType) -> &'static str {
    match t {
        GType::ZPhase => "rz",
        GType::XPhase => "rx",
        GType::NOT => "x",
        GType::Z => "z",
        GType::S => "s",
        GType::T => "t",
        GType::Sdg => "sdg",
        GType::Tdg => "tdg",
        GType::HAD => "h",
        GType::CNOT => "cx",
        GType::CZ => "cz",
        GType::TOFF => "ccx",
        GType::CCZ => "ccz",
        GType::SWAP => "swap",
        GType::XCX => "xcx",
        GType::InitAncilla => "init_anc",
        GType::PostSelect => "post_sel",
        GType::Measure => "measure",
        GType::MeasureReset => "measure_r",
        GType::ParityPhase => "pp",
        GType::UnknownGate => "UNKNOWN",
    }
}

fn gate_json(g: &Gate) -> Value {
    let p = g.phase.to_rational();
    json!({"name": gtype_name(g.t), "qs": g.qs, "phase": format!("{}/{}", p.numer(), p.denom()), "vars": g.vars.iter().collect::<Vec<u32>>()})
}

fn circuit_json(c: &Circuit) -> Value {
    json!({"qubits": c.num_qubits(), "gates": c.gates.iter().take(80).map(gate_json).collect::<Vec<_>>(), "num_gates": c.num_gates()})
}

fn egate_json(e: &EGate) -> Value {
    json!({"name": e.name, "qs": e.qs, "phase": e.phase.as_ref().map(|p| match p.exact { Some((n, d)) => format!("{n}/{d}"), None => format!("~{}", p.val) }), "bit": e.bit, "tags": e.tags})
}

/// Err((failure class, discriminating condition, explanation))
fn compare(parsed: &Circuit, nq: usize, exp: &[EGate], strict_zero_phase: bool) -> Result<(), (String, String, Value)> {
    if parsed.num_qubits() != nq {
        let cond = if exp.is_empty() { "zero-gates" } else { "with-gates" };
        return Err(("qubit-count".into(), cond.into(), json!({"expected_qubits": nq, "observed_qubits": parsed.num_qubits()})));
    }
    if parsed.num_gates() != exp.len() {
        return Err(("gate-count".into(), String::new(), json!({"expected_gates": exp.len(), "observed_gates": parsed.num_gates()})));
    }
    for (i, (g, e)) in parsed.gates.iter().zip(exp.iter()).enumerate() {
        let at = |what: &str| json!({"position": i, "what": what, "expected": egate_json(e), "observed": gate_json(g)});
        if gtype_name(g.t) != e.name {
            return Err(("gate-kind".into(), e.tags.clone(), at("gate kind")));
        }
        if g.qs != e.qs {
            return Err(("qubit-arguments".into(), e.tags.clone(), at("qubit arguments")));
        }
        let r = g.phase.to_rational();
        let obs = (*r.numer(), *r.denom());
        // a loaded phase is a phase like any other: the representative in (-1, 1], in lowest
        // terms (`==` on phases compares representatives, so a circuit carrying 3/2 is not the
        // circuit carrying -1/2 and does not survive print -> parse)
        if obs.1 <= 0 || obs.0 <= -obs.1 || obs.0 > obs.1 || gcd(obs.0 as i128, obs.1 as i128) != 1 {
            return Err(("phase-not-canonical".into(), e.tags.clone(), at("loaded phase is not the canonical representative in (-1,1]")));
        }
        match &e.phase {
            Some(p) => {
                if !phase_matches(p, obs) {
                    let kind = if p.exact.is_some() { "exact" } else { "approx" };
                    return Err(("phase".into(), format!("{}|{kind}", e.tags), at("phase")));
                }
            }
            None => {
                if strict_zero_phase && obs.0 != 0 {
                    return Err(("phase-on-phaseless-gate".into(), e.tags.clone(), at("phase of a gate without parameter")));
                }
            }
        }
        let vars: Vec<u32> = g.vars.iter().collect();
        match e.bit {
            Some(b) => {
                if vars != vec![b] {
                    return Err(("measure-target".into(), e.tags.clone(), at("classical bit of measure")));
                }
            }
            None => {
                if strict_zero_phase && !vars.is_empty() {
                    return Err(("vars-on-plain-gate".into(), e.tags.clone(), at("variables on a plain gate")));
                }
            }
        }
    }
    Ok(())
}

fn parse(text: &str) -> Result<Result<Circuit, String>, Caught> {
    let t = text.to_string();
    guarded(move || Circuit::from_qasm(&t))
}

/// The same text through the file entry point (`Circuit::from_file`).
fn parse_file(text: &str) -> Result<Result<Circuit, String>, Caught> {
    let dir = crate::fw::scratch_dir("c14");
    let file = format!("{dir}/{:?}.qasm", std::thread::current().id()).replace(['(', ')'], "");
    if std::fs::write(&file, text).is_err() {
        return Err(Caught::Oracle(format!("cannot write scratch file {file}")));
    }
    let f = file.clone();
    let res = guarded(move || Circuit::from_file(&f));
    let _ = std::fs::remove_file(&file);
    res
}

/// Entry point by flag; the label goes into the violation signature when it is the file one.
fn parse_via(text: &str, via_file: bool) -> Result<Result<Circuit, String>, Caught> {
    ctx().count(if via_file { "parse-entry:from_file" } else { "parse-entry:from_qasm" }, 1);
    if via_file {
        parse_file(text)
    } else {
        parse(text)
    }
}

fn to_gate(g: &G) -> Gate {
    let one = Circ { n: 64, gates: vec![g.clone()] };
    to_quizx(&one).gates[0].clone()
}

/// How the quizx circuit under test is assembled: the property says "any circuit", and the gate
/// list is a VecDeque whose memory layout depends on the construction history.
#[derive(Clone, Copy, Debug, PartialEq)]
enum Build {
    Push,
    /// last gates pushed first, then the first `k` with push_front (wrapped ring buffer)
    Front(usize),
    /// everything with push_front, in reverse (what extraction does)
    AllFront,
    /// built reversed with push, then reversed in place
    Reversed,
}

impl Build {
    fn label(&self) -> &'static str {
        match self {
            Build::Push => "push",
            Build::Front(_) => "push+push_front",
            Build::AllFront => "push_front-only",
            Build::Reversed => "push-then-reverse",
        }
    }
    fn draw(r: &mut Rng, len: usize) -> Build {
        if len == 0 {
            return Build::Push;
        }
        match r.below(8) {
            0 | 1 | 2 | 3 => Build::Push,
            4 | 5 => Build::Front(1 + r.below(len)),
            6 => Build::AllFront,
            _ => Build::Reversed,
        }
    }
    fn build(&self, hc: &Circ) -> Circuit {
        match *self {
            Build::Push => to_quizx(hc),
            Build::Front(k) => {
                let k = k.min(hc.gates.len());
                let mut q = Circuit::new(hc.n);
                for g in &hc.gates[k..] {
                    q.push(to_gate(g));
                }
                for g in hc.gates[..k].iter().rev() {
                    q.push_front(to_gate(g));
                }
                q
            }
            Build::AllFront => {
                let mut q = Circuit::new(hc.n);
                for g in hc.gates.iter().rev() {
                    q.push_front(to_gate(g));
                }
                q
            }
            Build::Reversed => {
                let mut q = Circuit::new(hc.n);
                for g in hc.gates.iter().rev() {
                    q.push(to_gate(g));
                }
                q.reverse();
                q
            }
        }
    }
}

// ------------------------------------------------------------------------------------
// (i) print / parse round trip
// ------------------------------------------------------------------------------------

fn expected_of_circ(c: &Circ, tags: &str) -> Vec<EGate> {
    c.gates
        .iter()
        .map(|g| {
            let phase = match g {
                G::Rz(_, p) | G::Rx(_, p) => Some(PhaseVal::exact(p.0 as i128, p.1 as i128)),
                _ => None,
            };
            let den = match g {
                G::Rz(_, p) | G::Rx(_, p) => format!("{}|d={}", g.name(), p.1),
                _ => g.name().to_string(),
            };
            EGate { name: g.name().to_string(), qs: g.qubits(), phase, bit: None, tags: format!("{tags}{den}") }
        })
        .collect()
}

/// returns true when the round trip was judged fine
fn check_roundtrip(family: &'static str, index: u64, circ: &Circ, record: bool) -> bool {
    check_roundtrip_as(family, index, circ, record, Build::Push, false)
}

fn check_roundtrip_as(family: &'static str, index: u64, circ: &Circ, record: bool, how: Build, via_file: bool) -> bool {
    let c = ctx();
    let qc = match guarded(|| how.build(circ)) {
        Ok(q) => q,
        Err(e) => {
            c.inconclusive("oracle-error", json!({"msg": format!("building the circuit: {}", e.text())}));
            return false;
        }
    };
    if how != Build::Push {
        c.count(&format!("built-by:{}", how.label()), 1);
        if qc != to_quizx(circ) {
            // quizx's own equality is not the oracle here, only a harness sanity check of the builder
            c.inconclusive("oracle-error", json!({"msg": "alternative construction differs from the push construction"}));
            return false;
        }
    }
    let detail0 = json!({"circuit": circ_json(circ), "built_by": how.label()});
    // `to_qasm` and `Display` are the two printing entry points
    let use_display = index % 3 == 1;
    let text = match guarded(|| if use_display { format!("OPENQASM 2.0;\ninclude \"qelib1.inc\";\n{qc}") } else { qc.to_qasm() }) {
        Ok(t) => t,
        Err(Caught::Oracle(m)) => {
            c.inconclusive("oracle-error", json!({"msg": m}));
            return false;
        }
        Err(e) => {
            if record {
                c.violation(&format!("to_qasm|panic|{}", e.site()), family, index, json!({"input": detail0, "panic": e.text()}));
            }
            return false;
        }
    };
    let det = |extra: Value| json!({"circuit": circ_json(circ), "built_by": how.label(), "parsed_via": if via_file { "from_file" } else { "from_qasm" }, "printed_qasm": text, "extra": extra});
    match parse_via(&text, via_file) {
        Err(Caught::Oracle(m)) => {
            c.inconclusive("oracle-error", json!({"msg": m}));
            false
        }
        Err(e) => {
            if record {
                c.violation(&format!("roundtrip|parse-panic|{}", e.site()), family, index, det(json!({"panic": e.text()})));
            }
            false
        }
        Ok(Err(msg)) => {
            if record {
                let cond = if circ.gates.is_empty() { "zero-gates" } else { "with-gates" };
                c.violation(&format!("roundtrip|parse-err|{cond}"), family, index, det(json!({"expected": "Ok(circuit)", "observed_error": msg})));
            }
            false
        }
        Ok(Ok(parsed)) => {
            let exp = expected_of_circ(circ, "");
            match compare(&parsed, circ.n, &exp, true) {
                Ok(()) => {
                    // quizx's own equality must agree with the structural verdict
                    if parsed != qc && record {
                        c.violation(
                            "roundtrip|quizx-eq-differs-but-structure-equal",
                            family,
                            index,
                            det(json!({"parsed": circuit_json(&parsed)})),
                        );
                        return false;
                    }
                    true
                }
                Err((class, cond, why)) => {
                    if record {
                        c.violation(
                            &format!("roundtrip|{class}|{cond}"),
                            family,
                            index,
                            det(json!({"why": why, "parsed": circuit_json(&parsed)})),
                        );
                    }
                    false
                }
            }
        }
    }
}

fn single_gate_space() -> Vec<Circ> {
    let mut v = vec![];
    // every phase k/d, d <= 16, -d < k <= d, on rz and rx, middle qubit of 3
    for d in 1..=16i64 {
        for k in (-d + 1)..=d {
            let g = gcd(k as i128, d as i128).max(1) as i64;
            let ph = (k / g, d / g);
            v.push(Circ { n: 3, gates: vec![G::Rz(1, ph)] });
            v.push(Circ { n: 3, gates: vec![G::Rx(1, ph)] });
        }
    }
    // every phase-free gate on every tuple of distinct qubits of 3
    for a in 0..3usize {
        for g in [G::X(a), G::Z(a), G::S(a), G::T(a), G::Sdg(a), G::Tdg(a), G::H(a), G::InitAnc(a), G::PostSel(a)] {
            v.push(Circ { n: 3, gates: vec![g] });
        }
        for b in 0..3usize {
            if a == b {
                continue;
            }
            for g in [G::Cx(a, b), G::Cz(a, b), G::Swap(a, b), G::Xcx(a, b)] {
                v.push(Circ { n: 3, gates: vec![g] });
            }
            let t = 3 - a - b;
            v.push(Circ { n: 3, gates: vec![G::Ccx(a, b, t)] });
            v.push(Circ { n: 3, gates: vec![G::Ccz(a, b, t)] });
        }
    }
    v
}

fn redraw_phases(r: &mut Rng, c: &mut Circ) {
    for g in c.gates.iter_mut() {
        if let G::Rz(_, p) | G::Rx(_, p) = g {
            let d = r.range(1, 16);
            let k = r.range(-d + 1, d);
            let gg = gcd(k as i128, d as i128).max(1) as i64;
            *p = (k / gg, d / gg);
        }
    }
}

// ------------------------------------------------------------------------------------
// (ii) generated texts
// ------------------------------------------------------------------------------------

#[derive(Clone, Debug)]
struct Reg {
    name: String,
    size: usize,
    base: usize,
}

#[derive(Clone, Debug)]
struct Regs {
    q: Vec<Reg>,
    c: Vec<Reg>,
    nq: usize,
    #[allow(dead_code)]
    nc: usize,
}

fn gen_regs(r: &mut Rng, min_q: usize, need_creg: bool) -> Regs {
    let qnames = ["q", "r", "anc", "data", "w", "b1"];
    let cnames = ["c", "m", "out"];
    let mut names: Vec<&str> = qnames.to_vec();
    r.shuffle(&mut names);
    loop {
        let nr = 1 + r.below(3);
        let mut q = vec![];
        let mut base = 0;
        for name in names.iter().take(nr) {
            let size = 1 + r.below(4);
            q.push(Reg { name: name.to_string(), size, base });
            base += size;
        }
        if base < min_q {
            continue;
        }
        let ncr = if need_creg { 1 + r.below(2) } else { r.below(3) };
        let mut c = vec![];
        let mut cb = 0;
        for name in cnames.iter().take(ncr) {
            let size = 1 + r.below(3);
            c.push(Reg { name: name.to_string(), size, base: cb });
            cb += size;
        }
        return Regs { q, c, nq: base, nc: cb };
    }
}

/// k distinct qubits as (text, global index)
fn pick_qubits(r: &mut Rng, regs: &Regs, k: usize) -> Vec<(String, usize)> {
    let mut all: Vec<(String, usize)> = vec![];
    for reg in &regs.q {
        for i in 0..reg.size {
            all.push((format!("{}[{}]", reg.name, i), reg.base + i));
        }
    }
    r.shuffle(&mut all);
    all.truncate(k);
    all
}

fn fmt_dec(x: f64, digits: usize) -> String {
    // the lexer needs digits on both sides of the point and has no exponent form
    let s = format!("{:.*}", digits.max(1), x.abs());
    s
}

/// A top-level phase expression for the value k/d (in units of pi) in a random syntactic form.
fn gen_phase_expr(r: &mut Rng) -> (String, PhaseVal, String) {
    let d = *r.pick(&[1i64, 2, 3, 4, 4, 5, 6, 7, 8, 8, 9, 10, 12, 16, 16]);
    let k = match r.below(8) {
        0 => d,
        1 => 1,
        2 => -1,
        _ => r.range(-d + 1, d),
    };
    let exact = PhaseVal::exact(k as i128, d as i128);
    let sign = if k < 0 { "-" } else { "" };
    let ka = k.abs();
    let form = r.below(12);
    match form {
        0 => {
            let s = if k == 0 {
                "0".to_string()
            } else if d == 1 {
                if ka == 1 {
                    format!("{sign}pi")
                } else {
                    format!("{sign}{ka}*pi")
                }
            } else if ka == 1 {
                format!("{sign}pi/{d}")
            } else {
                format!("{sign}{ka}*pi/{d}")
            };
            (s, exact, "k*pi/d".into())
        }
        1 => (format!("{sign}pi*{ka}/{d}"), exact, "pi*k/d".into()),
        2 => (format!("{sign}{ka}/{d}*pi"), exact, "k/d*pi".into()),
        3 => {
            let s = match r.below(3) {
                0 => format!("{sign}({ka}*pi)/{d}"),
                1 => format!("{sign}{ka}*(pi/{d})"),
                _ => format!("({sign}{ka}*((pi))/{d})"),
            };
            (s, exact, "parenthesised".into())
        }
        4 => {
            // k/d = k1/d + k2/d
            let k1 = r.range(-2 * d, 2 * d);
            let k2 = k - k1;
            let term = |x: i64| format!("{}*pi/{}", x.abs(), d);
            let s = format!("{}{} {} {}", if k1 < 0 { "-" } else { "" }, term(k1), if k2 < 0 { "-" } else { "+" }, term(k2));
            (s, exact, "sum".into())
        }
        5 => {
            let m = *r.pick(&[1i64, -1, 2, -3]);
            let kk = k + 2 * d * m;
            // the value is kept unreduced: inside a gate body the parameter may be halved
            (format!("{}{}*pi/{}", if kk < 0 { "-" } else { "" }, kk.abs(), d), PhaseVal::exact(kk as i128, d as i128), "outside(-pi,pi]".into())
        }
        6 | 7 => {
            // dyadic decimal coefficient: exactly what to_qasm prints for these values
            let dd = *r.pick(&[1i64, 2, 4, 8, 16]);
            let kk = if r.chance(0.2) { dd } else { r.range(-dd + 1, dd) };
            let x = kk as f64 / dd as f64;
            let lit = if x.fract() == 0.0 { format!("{:.1}", x.abs()) } else { format!("{}", x.abs()) };
            let sg = if kk < 0 { "-" } else { "" };
            let s = if form == 6 { format!("{sg}{lit}*pi") } else { format!("{sg}pi*{lit}") };
            (s, PhaseVal::exact(kk as i128, dd as i128), "dyadic-decimal*pi".into())
        }
        8 => {
            // non-dyadic decimal coefficient: only approximately k/d
            let digits = *r.pick(&[3usize, 5, 7, 10, 16]);
            let lit = fmt_dec(k as f64 / d as f64, digits);
            let v: f64 = lit.parse().unwrap();
            let v = if k < 0 { -v } else { v };
            let s = if r.chance(0.5) { format!("{sign}{lit}*pi") } else { format!("{sign}pi*{lit}") };
            (s, PhaseVal::approx(v), "decimal*pi".into())
        }
        9 | 10 => {
            // plain decimal in radians (form 10: several turns away from the principal range)
            let digits = *r.pick(&[4usize, 6, 8, 12, 16]);
            let turns = if form == 10 { *r.pick(&[1.0f64, -1.0, 3.0]) } else { 0.0 };
            let rad = (k as f64 / d as f64 + 2.0 * turns) * std::f64::consts::PI;
            let lit = fmt_dec(rad, digits);
            let v: f64 = lit.parse().unwrap();
            let v = if rad < 0.0 { -v } else { v };
            let s = format!("{}{lit}", if rad < 0.0 { "-" } else { "" });
            (s, PhaseVal::approx(v / std::f64::consts::PI), "decimal-radians".into())
        }
        _ => {
            let (s, turns) = *r.pick(&[("0", 0i128), ("0*pi", 0), ("0.0", 0), ("pi-pi", 0), ("2*pi", 2), ("-2*pi", -2), ("0/4", 0)]);
            (s.to_string(), PhaseVal::exact(turns, 1), "zero-mod-2pi".into())
        }
    }
}

/// phase = coef * param[idx] + off
#[derive(Clone, Debug)]
struct BodyExpr {
    coef: Option<(usize, (i128, i128))>,
    off: PhaseVal,
}

impl BodyExpr {
    fn eval(&self, params: &[PhaseVal]) -> PhaseVal {
        match self.coef {
            Some((i, (n, d))) => params[i].scale(n, d).add(&self.off),
            None => self.off.clone(),
        }
    }
}

fn gen_body_expr(r: &mut Rng, pnames: &[String]) -> (String, BodyExpr) {
    let zero = PhaseVal::exact(0, 1);
    if pnames.is_empty() || r.chance(0.25) {
        // constant, exact forms only
        let d = *r.pick(&[1i64, 2, 4, 8, 3]);
        let k = r.range(-d + 1, d);
        let s = format!("{}{}*pi/{}", if k < 0 { "-" } else { "" }, k.abs(), d);
        return (s, BodyExpr { coef: None, off: PhaseVal::exact(k as i128, d as i128) });
    }
    let i = r.below(pnames.len());
    let p = &pnames[i];
    match r.below(8) {
        0 => (p.clone(), BodyExpr { coef: Some((i, (1, 1))), off: zero }),
        1 => (format!("-{p}"), BodyExpr { coef: Some((i, (-1, 1))), off: zero }),
        2 => (format!("{p}/2"), BodyExpr { coef: Some((i, (1, 2))), off: zero }),
        3 => (format!("2*{p}"), BodyExpr { coef: Some((i, (2, 1))), off: zero }),
        4 => (format!("{p}+pi/4"), BodyExpr { coef: Some((i, (1, 1))), off: PhaseVal::exact(1, 4) }),
        5 => (format!("{p} - pi/2"), BodyExpr { coef: Some((i, (1, 1))), off: PhaseVal::exact(-1, 2) }),
        6 => (format!("-({p}+pi)/2"), BodyExpr { coef: Some((i, (-1, 2))), off: PhaseVal::exact(-1, 2) }),
        _ => (format!("{p}*3/4"), BodyExpr { coef: Some((i, (3, 4))), off: zero }),
    }
}

#[derive(Clone, Debug)]
enum BStmt {
    Prim { name: &'static str, phase: Option<BodyExpr>, args: Vec<usize> },
    Call { def: usize, params: Vec<BodyExpr>, args: Vec<usize> },
}

#[derive(Clone, Debug)]
struct Def {
    name: String,
    nparams: usize,
    nargs: usize,
    body: Vec<BStmt>,
    text: String,
}

const PRIMS1: [&str; 9] = ["x", "z", "s", "t", "sdg", "tdg", "h", "init_anc", "post_sel"];
const PRIMS2: [&str; 4] = ["cx", "cz", "swap", "xcx"];
const PRIMS3: [&str; 2] = ["ccx", "ccz"];

fn distinct_idx(r: &mut Rng, n: usize, k: usize) -> Vec<usize> {
    let mut v: Vec<usize> = (0..n).collect();
    r.shuffle(&mut v);
    v.truncate(k);
    v
}

fn gen_def(r: &mut Rng, idx: usize, earlier: &[Def]) -> Def {
    gen_def_chain(r, idx, earlier, false)
}

/// `chain`: the body ends with a call of the previous definition (deep nesting)
fn gen_def_chain(r: &mut Rng, idx: usize, earlier: &[Def], chain: bool) -> Def {
    let name = format!("{}{}", *r.pick(&["foo", "bar", "my_gate", "u_block", "G"]), idx);
    let nparams = r.below(3);
    let mut nargs = 1 + r.below(3);
    if chain {
        if let Some(prev) = earlier.last() {
            nargs = nargs.max(prev.nargs);
        }
    }
    let pnames: Vec<String> = (0..nparams).map(|i| ["theta", "phi", "lam"][i].to_string()).collect();
    let anames: Vec<String> = (0..nargs).map(|i| ["a", "b", "c"][i].to_string()).collect();
    let mut body = vec![];
    let mut lines = vec![];
    let nst = 1 + r.below(4);
    for _ in 0..nst {
        let choice = r.below(10);
        if choice < 3 {
            let nm = *r.pick(&PRIMS1);
            let a = distinct_idx(r, nargs, 1);
            lines.push(format!("{nm} {};", anames[a[0]]));
            body.push(BStmt::Prim { name: nm, phase: None, args: a });
        } else if choice < 6 {
            let nm = *r.pick(&["rz", "rx"]);
            let a = distinct_idx(r, nargs, 1);
            let (s, e) = gen_body_expr(r, &pnames);
            lines.push(format!("{nm}({s}) {};", anames[a[0]]));
            body.push(BStmt::Prim { name: nm, phase: Some(e), args: a });
        } else if choice < 8 && nargs >= 2 {
            let a = distinct_idx(r, nargs, 2);
            if r.chance(0.3) {
                lines.push(format!("CX {},{};", anames[a[0]], anames[a[1]]));
                body.push(BStmt::Prim { name: "cx", phase: None, args: a });
            } else {
                let nm = *r.pick(&PRIMS2);
                lines.push(format!("{nm} {}, {};", anames[a[0]], anames[a[1]]));
                body.push(BStmt::Prim { name: nm, phase: None, args: a });
            }
        } else if choice == 8 && nargs >= 3 {
            let nm = *r.pick(&PRIMS3);
            let a = distinct_idx(r, nargs, 3);
            lines.push(format!("{nm} {},{},{};", anames[a[0]], anames[a[1]], anames[a[2]]));
            body.push(BStmt::Prim { name: nm, phase: None, args: a });
        } else if !earlier.is_empty() {
            let di = r.below(earlier.len());
            let dd = &earlier[di];
            if dd.nargs <= nargs {
                let a = distinct_idx(r, nargs, dd.nargs);
                let mut ps = vec![];
                let mut ptxt = vec![];
                for _ in 0..dd.nparams {
                    let (s, e) = gen_body_expr(r, &pnames);
                    ptxt.push(s);
                    ps.push(e);
                }
                let ptxt = if ptxt.is_empty() { String::new() } else { format!("({})", ptxt.join(",")) };
                lines.push(format!("{}{} {};", dd.name, ptxt, a.iter().map(|&i| anames[i].clone()).collect::<Vec<_>>().join(",")));
                body.push(BStmt::Call { def: di, params: ps, args: a });
            }
        }
    }
    if chain && !earlier.is_empty() {
        let di = earlier.len() - 1;
        let dd = &earlier[di];
        let a = distinct_idx(r, nargs, dd.nargs);
        let mut ps = vec![];
        let mut ptxt = vec![];
        for _ in 0..dd.nparams {
            let (s, e) = gen_body_expr(r, &pnames);
            ptxt.push(s);
            ps.push(e);
        }
        let ptxt = if ptxt.is_empty() { String::new() } else { format!("({})", ptxt.join(",")) };
        lines.push(format!("{}{} {};", dd.name, ptxt, a.iter().map(|&i| anames[i].clone()).collect::<Vec<_>>().join(",")));
        body.push(BStmt::Call { def: di, params: ps, args: a });
    }
    if body.is_empty() {
        lines.push(format!("h {};", anames[0]));
        body.push(BStmt::Prim { name: "h", phase: None, args: vec![0] });
    }
    let ptxt = if nparams == 0 { String::new() } else { format!("({})", pnames.join(",")) };
    let text = format!("gate {name}{ptxt} {} {{ {} }}", anames.join(","), lines.join(" "));
    Def { name, nparams, nargs, body, text }
}

fn expand(defs: &[Def], di: usize, params: &[PhaseVal], qubits: &[usize], tags: &str, out: &mut Vec<EGate>) {
    for st in &defs[di].body {
        match st {
            BStmt::Prim { name, phase, args } => out.push(EGate {
                name: name.to_string(),
                qs: args.iter().map(|&i| qubits[i]).collect(),
                phase: phase.as_ref().map(|e| e.eval(params)),
                bit: None,
                tags: tags.to_string(),
            }),
            BStmt::Call { def, params: ps, args } => {
                let pv: Vec<PhaseVal> = ps.iter().map(|e| e.eval(params)).collect();
                let qs: Vec<usize> = args.iter().map(|&i| qubits[i]).collect();
                expand(defs, *def, &pv, &qs, tags, out);
            }
        }
    }
}

struct Program {
    text: String,
    regs: Regs,
    expected: Vec<EGate>,
    features: Vec<String>,
}

/// One supported top-level statement: text + expected gates.
fn gen_statement(r: &mut Rng, regs: &Regs, defs: &[Def], allow_measure: bool, feats: &mut Vec<String>) -> Option<(String, Vec<EGate>)> {
    let multi = if regs.q.len() > 1 { "multi-register|" } else { "" };
    let choice = r.below(20);
    let sp = |r: &mut Rng| if r.chance(0.2) { "" } else { " " };
    if choice < 5 {
        let nm = *r.pick(&PRIMS1);
        let q = pick_qubits(r, regs, 1);
        Some((format!("{nm} {};", q[0].0), vec![EGate { name: nm.into(), qs: vec![q[0].1], phase: None, bit: None, tags: format!("{multi}plain") }]))
    } else if choice < 10 {
        let nm = *r.pick(&["rz", "rx"]);
        let q = pick_qubits(r, regs, 1);
        let (s, pv, form) = gen_phase_expr(r);
        feats.push(format!("phase-form:{form}"));
        Some((
            format!("{nm}({s}) {};", q[0].0),
            vec![EGate { name: nm.into(), qs: vec![q[0].1], phase: Some(pv), bit: None, tags: format!("{multi}phase-form:{form}") }],
        ))
    } else if choice < 13 {
        if regs.nq < 2 {
            return None;
        }
        let q = pick_qubits(r, regs, 2);
        if r.chance(0.2) {
            feats.push("builtin-CX".into());
            Some((format!("CX {},{}{};", q[0].0, sp(r), q[1].0), vec![EGate { name: "cx".into(), qs: vec![q[0].1, q[1].1], phase: None, bit: None, tags: format!("{multi}builtin-CX") }]))
        } else {
            let nm = *r.pick(&PRIMS2);
            Some((format!("{nm} {},{}{};", q[0].0, sp(r), q[1].0), vec![EGate { name: nm.into(), qs: vec![q[0].1, q[1].1], phase: None, bit: None, tags: format!("{multi}plain") }]))
        }
    } else if choice == 13 {
        if regs.nq < 3 {
            return None;
        }
        let nm = *r.pick(&PRIMS3);
        let q = pick_qubits(r, regs, 3);
        Some((
            format!("{nm} {}, {}, {};", q[0].0, q[1].0, q[2].0),
            vec![EGate { name: nm.into(), qs: vec![q[0].1, q[1].1, q[2].1], phase: None, bit: None, tags: format!("{multi}plain") }],
        ))
    } else if choice < 16 {
        // whole-register broadcast
        feats.push("broadcast".into());
        let ri = r.below(regs.q.len());
        let reg = &regs.q[ri];
        if r.chance(0.6) || regs.q.len() < 2 {
            if r.chance(0.5) {
                let nm = *r.pick(&PRIMS1);
                let gs = (0..reg.size).map(|i| EGate { name: nm.into(), qs: vec![reg.base + i], phase: None, bit: None, tags: format!("{multi}broadcast") }).collect();
                Some((format!("{nm} {};", reg.name), gs))
            } else {
                let (s, pv, form) = gen_phase_expr(r);
                let gs = (0..reg.size)
                    .map(|i| EGate { name: "rz".into(), qs: vec![reg.base + i], phase: Some(pv.clone()), bit: None, tags: format!("{multi}broadcast|phase-form:{form}") })
                    .collect();
                Some((format!("rz({s}) {};", reg.name), gs))
            }
        } else {
            // two-qubit gate: register against a single qubit of another register, or two equal-size registers
            let rj = (ri + 1 + r.below(regs.q.len() - 1)) % regs.q.len();
            let other = &regs.q[rj];
            let nm = *r.pick(&["cx", "cz"]);
            if other.size == reg.size && r.chance(0.5) {
                let gs = (0..reg.size).map(|i| EGate { name: nm.into(), qs: vec![reg.base + i, other.base + i], phase: None, bit: None, tags: format!("{multi}broadcast") }).collect();
                Some((format!("{nm} {},{};", reg.name, other.name), gs))
            } else {
                let j = r.below(other.size);
                if r.chance(0.5) {
                    let gs = (0..reg.size).map(|i| EGate { name: nm.into(), qs: vec![reg.base + i, other.base + j], phase: None, bit: None, tags: format!("{multi}broadcast") }).collect();
                    Some((format!("{nm} {},{}[{}];", reg.name, other.name, j), gs))
                } else {
                    let gs = (0..reg.size).map(|i| EGate { name: nm.into(), qs: vec![other.base + j, reg.base + i], phase: None, bit: None, tags: format!("{multi}broadcast") }).collect();
                    Some((format!("{nm} {}[{}],{};", other.name, j, reg.name), gs))
                }
            }
        }
    } else if choice < 19 {
        if defs.is_empty() {
            return None;
        }
        // with a long chain of definitions, the deepest ones are called more often
        let di = if defs.len() >= 5 && r.chance(0.6) { defs.len() - 1 - r.below(2) } else { r.below(defs.len()) };
        let d = &defs[di];
        if d.nargs > regs.nq {
            return None;
        }
        feats.push("user-gate".into());
        if defs.len() >= 5 {
            feats.push("deep-definition-chain".into());
        }
        let q = pick_qubits(r, regs, d.nargs);
        let mut ps = vec![];
        let mut ptxt = vec![];
        let mut forms = vec![];
        for _ in 0..d.nparams {
            let (s, pv, form) = gen_phase_expr(r);
            ptxt.push(s);
            ps.push(pv);
            forms.push(form);
        }
        let ptxt = if ptxt.is_empty() { String::new() } else { format!("({})", ptxt.join(", ")) };
        let mut out = vec![];
        let tags = format!("{multi}user-gate{}", if forms.is_empty() { String::new() } else { format!("|phase-form:{}", forms.join("+")) });
        expand(defs, di, &ps, &q.iter().map(|x| x.1).collect::<Vec<_>>(), &tags, &mut out);
        Some((format!("{}{} {};", d.name, ptxt, q.iter().map(|x| x.0.clone()).collect::<Vec<_>>().join(",")), out))
    } else {
        if !allow_measure || regs.c.is_empty() {
            return None;
        }
        feats.push("measure".into());
        let ci = r.below(regs.c.len());
        let creg = &regs.c[ci];
        let same: Vec<&Reg> = regs.q.iter().filter(|q| q.size == creg.size).collect();
        if !same.is_empty() && r.chance(0.3) {
            let qreg = *r.pick(&same);
            let gs = (0..qreg.size)
                .map(|i| EGate { name: "measure".into(), qs: vec![qreg.base + i], phase: None, bit: Some((creg.base + i) as u32), tags: format!("{multi}measure|broadcast") })
                .collect();
            Some((format!("measure {} -> {};", qreg.name, creg.name), gs))
        } else {
            let q = pick_qubits(r, regs, 1);
            let j = r.below(creg.size);
            Some((
                format!("measure {}{}->{}{}[{}];", q[0].0, sp(r), sp(r), creg.name, j),
                vec![EGate { name: "measure".into(), qs: vec![q[0].1], phase: None, bit: Some((creg.base + j) as u32), tags: format!("{multi}measure") }],
            ))
        }
    }
}

/// `late_at = Some(i)`: the last qreg is declared just before statement i (i >= 1) instead of
/// with the other registers (legal OpenQASM 2; numbering is still by declaration order).
fn assemble(r: &mut Rng, regs: &Regs, defs: &[Def], stmts: &[String], late_at: Option<usize>) -> String {
    let mut s = String::from("OPENQASM 2.0;\n");
    if r.chance(0.8) {
        s += "include \"qelib1.inc\";\n";
    }
    if r.chance(0.3) {
        s += "// generated by qvmon C14\n";
    }
    // declarations: the relative order of qregs (and of cregs) is fixed, interleaving is free
    let mut decls: Vec<String> = vec![];
    let (mut qi, mut ci) = (0, 0);
    let late_at = if regs.q.len() > 1 { late_at } else { None };
    let nq_first = if late_at.is_some() { regs.q.len() - 1 } else { regs.q.len() };
    while qi < nq_first || ci < regs.c.len() {
        let take_q = qi < nq_first && (ci >= regs.c.len() || r.chance(0.6));
        if take_q {
            decls.push(format!("qreg {}[{}];", regs.q[qi].name, regs.q[qi].size));
            qi += 1;
        } else {
            decls.push(format!("creg {}[{}];", regs.c[ci].name, regs.c[ci].size));
            ci += 1;
        }
    }
    // gate definitions may come before or after the registers
    let defs_first = r.chance(0.5);
    let sep = |r: &mut Rng| if r.chance(0.85) { "\n" } else { " " };
    if defs_first {
        for d in defs {
            s += &d.text;
            s += sep(r);
        }
    }
    for d in &decls {
        s += d;
        s += sep(r);
    }
    if !defs_first {
        for d in defs {
            s += &d.text;
            s += sep(r);
        }
    }
    for (i, st) in stmts.iter().enumerate() {
        if late_at == Some(i) {
            let q = regs.q.last().unwrap();
            s += &format!("qreg {}[{}];\n", q.name, q.size);
        }
        if r.chance(0.08) {
            // comment lines of their own (they may look like statements)
            s += "// h q[0];\n";
            if r.chance(0.3) {
                s += "  // barrier q;\n";
            }
        }
        s += st;
        if r.chance(0.1) {
            s += " // comment ; x q[0];";
        }
        s += "\n";
    }
    if late_at == Some(stmts.len()) {
        let q = regs.q.last().unwrap();
        s += &format!("qreg {}[{}];\n", q.name, q.size);
    }
    s
}

fn gen_program(r: &mut Rng, max_stmts: usize) -> Program {
    let regs = gen_regs(r, 1, false);
    let mut defs: Vec<Def> = vec![];
    // mostly 0-3 definitions; now and then a chain of 5-14 in which each calls the one before
    let deep = r.chance(0.05);
    let nd = if deep {
        5 + r.below(10)
    } else if r.chance(0.5) {
        0
    } else {
        1 + r.below(3)
    };
    for i in 0..nd {
        let d = if deep { gen_def_chain(r, i, &defs, true) } else { gen_def(r, i, &defs) };
        defs.push(d);
    }
    if deep {
        ctx().maximum("max_definition_nesting_depth", nd as u64);
    }
    let ns = 1 + r.below(max_stmts);
    let mut stmts = vec![];
    let mut expected = vec![];
    let mut feats = vec![];
    let mut tries = 0;
    while stmts.len() < ns && tries < 10 * ns {
        tries += 1;
        if let Some((t, gs)) = gen_statement(r, &regs, &defs, true, &mut feats) {
            stmts.push(t);
            expected.extend(gs);
        }
    }
    // a register may be declared after some statements, as long as none of them uses it
    let mut late_at = None;
    if regs.q.len() > 1 && r.chance(0.2) {
        let last = regs.q.last().unwrap();
        // syntactic use: the register name occurs as an identifier token in the statement
        let mentions = |st: &String| st.split(|ch: char| !(ch.is_ascii_alphanumeric() || ch == '_')).any(|tok| tok == last.name);
        let first_use = stmts.iter().position(mentions).unwrap_or(stmts.len());
        if first_use >= 1 {
            late_at = Some(1 + r.below(first_use));
            feats.push("late-qreg-declaration".into());
        }
    }
    let text = assemble(r, &regs, &defs, &stmts, late_at);
    if regs.q.len() > 1 {
        feats.push("multi-register".into());
    }
    if !defs.is_empty() {
        feats.push("has-gate-definitions".into());
    }
    feats.sort();
    feats.dedup();
    Program { text, regs, expected, features: feats }
}

fn check_text(family: &'static str, index: u64, p: &Program, via_file: bool) {
    let c = ctx();
    for f in &p.features {
        c.count(&format!("feature:{f}"), 1);
    }
    let det = |extra: Value| {
        json!({"qasm": p.text, "parsed_via": if via_file { "from_file" } else { "from_qasm" }, "expected_qubits": p.regs.nq, "expected_gates": p.expected.iter().take(80).map(egate_json).collect::<Vec<_>>(), "features": p.features, "extra": extra})
    };
    match parse_via(&p.text, via_file) {
        Err(Caught::Oracle(m)) => c.inconclusive("oracle-error", json!({"msg": m})),
        Err(e) => c.violation(&format!("text|parse-panic|{}", e.site()), family, index, det(json!({"panic": e.text()}))),
        Ok(Err(msg)) => {
            // which feature set? use the sorted feature list as the discriminating condition
            c.violation(&format!("text|rejected-valid-program|{}", p.features.join("+")), family, index, det(json!({"expected": "Ok", "observed_error": msg})));
        }
        Ok(Ok(parsed)) => {
            c.count("text:accepted", 1);
            c.count("text:gates-compared", p.expected.len() as u64);
            c.count("text:phases-exact", p.expected.iter().filter(|e| e.phase.as_ref().is_some_and(|p| p.exact.is_some())).count() as u64);
            c.count("text:phases-approx", p.expected.iter().filter(|e| e.phase.as_ref().is_some_and(|p| p.exact.is_none())).count() as u64);
            // how many of the approximate ones came out as a fraction with denominator <= 64
            for (g, e) in parsed.gates.iter().zip(p.expected.iter()) {
                if e.phase.as_ref().is_some_and(|p| p.exact.is_none()) && *g.phase.to_rational().denom() <= 64 {
                    c.count("text:approx-phase-parsed-to-small-fraction", 1);
                }
            }
            if let Err((class, cond, why)) = compare(&parsed, p.regs.nq, &p.expected, false) {
                c.violation(&format!("text|{class}|{cond}"), family, index, det(json!({"why": why, "parsed": circuit_json(&parsed)})));
            }
        }
    }
}

// ------------------------------------------------------------------------------------
// (iii) rejection corpus
// ------------------------------------------------------------------------------------

/// (construct class, statement text(s), extra top-level definitions)
fn gen_unsupported(r: &mut Rng, regs: &Regs) -> (String, String, String) {
    let q1 = pick_qubits(r, regs, 1);
    let q2 = if regs.nq >= 2 { pick_qubits(r, regs, 2) } else { vec![] };
    let q3 = if regs.nq >= 3 { pick_qubits(r, regs, 3) } else { vec![] };
    let reg = r.pick(&regs.q).name.clone();
    let creg = regs.c[r.below(regs.c.len())].clone();
    let none = String::new();
    loop {
        match r.below(12) {
            0 => {
                let s = match r.below(3) {
                    0 => format!("barrier {reg};"),
                    1 => format!("barrier {};", q1[0].0),
                    _ if q2.len() == 2 => format!("barrier {},{};", q2[0].0, q2[1].0),
                    _ => format!("barrier {reg};"),
                };
                return ("barrier".into(), s, none);
            }
            1 => {
                let s = if r.chance(0.5) { format!("reset {};", q1[0].0) } else { format!("reset {reg};") };
                return ("reset".into(), s, none);
            }
            2 | 3 => {
                let val = r.below(2);
                let then = match r.below(6) {
                    0 => format!("x {};", q1[0].0),
                    1 => format!("rz(pi/4) {};", q1[0].0),
                    2 if q2.len() == 2 => format!("cx {},{};", q2[0].0, q2[1].0),
                    3 => format!("measure {} -> {}[0];", q1[0].0, creg.name),
                    4 => format!("U(pi,0,pi) {};", q1[0].0),
                    5 => format!("h {reg};"),
                    _ => format!("z {};", q1[0].0),
                };
                let s = if r.chance(0.5) { format!("if({}=={}) {}", creg.name, val, then) } else { format!("if ( {} == {} ) {}", creg.name, val, then) };
                return ("conditional".into(), s, none);
            }
            4 => {
                let s = match r.below(4) {
                    0 => format!("U(pi/2,0,pi) {};", q1[0].0),
                    1 => format!("U(0,0,pi/4) {};", q1[0].0),
                    2 => format!("U(0.1,0.2,0.3) {reg};"),
                    _ => format!("U(0,0,0) {};", q1[0].0),
                };
                return ("U".into(), s, none);
            }
            5 => {
                // U / barrier hidden inside a user gate definition
                if r.chance(0.35) {
                    // the same, k definitions deep (k = 1..14): w0 hides the construct, w_i calls w_(i-1)
                    let k = 1 + r.below(14);
                    let inner = if r.chance(0.5) { "U(0,0,pi/2) a;" } else { "barrier a;" };
                    let mut defs = format!("gate w0 a {{ h a; {inner} h a; }}");
                    for i in 1..=k {
                        defs += &format!("\ngate w{i} a {{ {} w{} a; }}", if r.chance(0.5) { "t a;" } else { "" }, i - 1);
                    }
                    let class = if inner.starts_with('U') { "U-in-nested-gate-body" } else { "barrier-in-nested-gate-body" };
                    ctx().maximum("max_definition_nesting_depth", k as u64 + 1);
                    return (class.into(), format!("w{k} {};", q1[0].0), defs);
                } else if r.chance(0.5) {
                    return ("U-in-gate-body".into(), format!("hidden_u {};", q1[0].0), "gate hidden_u a { h a; U(0,0,pi/2) a; h a; }".into());
                } else if q2.len() == 2 {
                    return (
                        "barrier-in-gate-body".into(),
                        format!("hidden_b {},{};", q2[0].0, q2[1].0),
                        "gate hidden_b a,b { cx a,b; barrier a,b; cx a,b; }".into(),
                    );
                }
            }
            6 | 7 => {
                let s = match r.below(5) {
                    0 => format!("foo {};", q1[0].0),
                    1 => format!("mygate(0.3) {};", q1[0].0),
                    2 if q2.len() == 2 => format!("rzz(pi/2) {},{};", q2[0].0, q2[1].0),
                    3 => format!("sx {};", q1[0].0),
                    _ => format!("hh {reg};"),
                };
                return ("undefined-gate".into(), s, none);
            }
            8 | 9 => {
                // defined in qelib1.inc only; the include is ignored by the parser front end
                let s = match r.below(12) {
                    0 => format!("y {};", q1[0].0),
                    1 => format!("id {};", q1[0].0),
                    2 => format!("u1(pi/4) {};", q1[0].0),
                    3 => format!("u2(0,pi) {};", q1[0].0),
                    4 => format!("u3(pi/2,0,pi) {};", q1[0].0),
                    5 => format!("ry(pi/2) {};", q1[0].0),
                    6 if q2.len() == 2 => format!("ch {},{};", q2[0].0, q2[1].0),
                    7 if q2.len() == 2 => format!("cy {},{};", q2[0].0, q2[1].0),
                    8 if q2.len() == 2 => format!("crz(pi/4) {},{};", q2[0].0, q2[1].0),
                    9 if q2.len() == 2 => format!("cu1(pi/2) {},{};", q2[0].0, q2[1].0),
                    10 if q2.len() == 2 => format!("cu3(pi/2,0,pi) {},{};", q2[0].0, q2[1].0),
                    11 if q3.len() == 3 => format!("cswap {},{},{};", q3[0].0, q3[1].0, q3[2].0),
                    _ => format!("y {reg};"),
                };
                return ("include-only-gate".into(), s, none);
            }
            10 => {
                // names quizx knows as gate kinds but does not declare in its prelude
                let s = if q2.len() == 2 && r.chance(0.5) { format!("pp(pi/4) {},{};", q2[0].0, q2[1].0) } else { format!("measure_r {};", q1[0].0) };
                return ("quizx-name-without-declaration".into(), s, none);
            }
            _ => {
                if q2.len() == 2 {
                    return ("undefined-gate-in-gate-body".into(), format!("wrap {},{};", q2[0].0, q2[1].0), "gate wrap a,b { cx a,b; nope a; }".into());
                }
            }
        }
    }
}

fn check_reject(family: &'static str, index: u64, r: &mut Rng) {
    let c = ctx();
    let regs = gen_regs(r, 1, true);
    let mut feats = vec![];
    let mut stmts: Vec<String> = vec![];
    let mut expected: Vec<EGate> = vec![];
    let n_before = r.below(5);
    let n_after = r.below(4);
    let mut guard = 0;
    while stmts.len() < n_before && guard < 50 {
        guard += 1;
        if let Some((t, gs)) = gen_statement(r, &regs, &[], true, &mut feats) {
            stmts.push(t);
            expected.extend(gs);
        }
    }
    let n_prefix_gates = expected.len();
    let (class, bad, extra_def) = gen_unsupported(r, &regs);
    let pos = stmts.len();
    stmts.push(bad.clone());
    guard = 0;
    while stmts.len() < pos + 1 + n_after && guard < 50 {
        guard += 1;
        if let Some((t, gs)) = gen_statement(r, &regs, &[], true, &mut feats) {
            stmts.push(t);
            expected.extend(gs);
        }
    }
    let mut text = assemble(r, &regs, &[], &stmts, None);
    if !extra_def.is_empty() {
        // definitions go right after the header line
        text = text.replacen("OPENQASM 2.0;\n", &format!("OPENQASM 2.0;\n{extra_def}\n"), 1);
    }
    let where_ = if n_before == 0 && n_after == 0 {
        "alone"
    } else if n_before == 0 {
        "first"
    } else if n_after == 0 {
        "last"
    } else {
        "middle"
    };
    c.count(&format!("reject:{class}"), 1);
    c.count(&format!("reject-position:{where_}"), 1);
    let via_file = r.chance(0.2);
    let det = |extra: Value| json!({"qasm": text, "parsed_via": if via_file { "from_file" } else { "from_qasm" }, "unsupported_statement": bad, "construct": class, "position": where_, "extra": extra});
    match parse_via(&text, via_file) {
        Err(Caught::Oracle(m)) => c.inconclusive("oracle-error", json!({"msg": m})),
        Err(e) => c.violation(&format!("reject|panic|{class}|{}", e.site()), family, index, det(json!({"expected": "Err(..)", "panic": e.text()}))),
        Ok(Err(msg)) => {
            c.count("reject:got-err", 1);
            c.sample_n(8, || json!({"family": family, "construct": class, "statement": bad, "error": msg.chars().take(200).collect::<String>()}));
        }
        Ok(Ok(parsed)) => {
            // was the construct silently dropped (all supported statements kept / only the prefix kept)?
            let all_kept = compare(&parsed, regs.nq, &expected, false).is_ok();
            let prefix_kept = compare(&parsed, regs.nq, &expected[..n_prefix_gates], false).is_ok();
            let how = if all_kept {
                "construct-silently-dropped"
            } else if prefix_kept {
                "supported-prefix-returned"
            } else {
                "other-circuit-returned"
            };
            c.violation(
                &format!("reject|accepted|{class}|{how}"),
                family,
                index,
                det(json!({"expected": "Err(..)", "observed": "Ok", "parsed": circuit_json(&parsed)})),
            );
        }
    }
    c.case(family, Some(hash_bytes(text.as_bytes())));
}

// ------------------------------------------------------------------------------------
// run
// ------------------------------------------------------------------------------------

pub fn run() {
    let c = ctx();
    let t = c.tier;
    c.set_rule(
        "cases = (i) circuits printed with to_qasm and parsed back, (ii) generated QASM texts with an independently computed expected circuit, (iii) texts with one unsupported construct; a case is non-trivial when the circuit/text contains at least one gate statement (zero-gate programs are counted but trivial); distinct = distinct circuits / texts by 64-bit hash",
    );
    c.assume("supported gate names: rz rx x z s t sdg tdg h cx cz ccx ccz swap xcx init_anc post_sel (+ built-in CX, measure); pp / measure_r / measure_d-with-variables are outside the property");
    c.assume("0-qubit circuits are excluded: `qreg q[0];` is not valid OpenQASM 2");
    c.assume("decimal parameters are single precision in the parser front end (openqasm Expr::Real(f32)) and are divided by pi in f32: expected phase within 1e-6 * max(1,|phase|) on the circle; integer/pi arithmetic and dyadic decimals times pi must be exact");
    c.assume("self-test: the phase comparison and expectation model are exercised by the 272 exhaustive k/d cases, which must pass for the run to mean anything");

    // self-test of the expectation arithmetic
    {
        let a = PhaseVal::exact(3, 4).add(&PhaseVal::exact(-1, 2)).scale(2, 1);
        if a.exact != Some((1, 2)) || !phase_matches(&a, (5, 2)) || phase_matches(&a, (1, 4)) || !phase_matches(&PhaseVal::approx(0.25), (250001, 1000000)) || phase_matches(&PhaseVal::approx(0.25), (26, 100)) {
            c.harness_error("C14 expectation self-test failed");
            return;
        }
        if (circle_dist_f(0.999, -0.999) - 0.002).abs() > 1e-12 {
            c.harness_error("C14 circle distance self-test failed");
            return;
        }
    }

    // (i-a) exhaustive single-gate circuits
    let space = Arc::new(single_gate_space());
    let n_space = space.len();
    {
        let space = space.clone();
        par_cases("single-gate-exhaustive", n_space, move |_r, i| {
            let circ = &space[i as usize];
            let ok = check_roundtrip("single-gate-exhaustive", i, circ, true);
            let c = ctx();
            c.count(&format!("single-gate:{}:{}", circ.gates[0].name(), if ok { "ok" } else { "bad" }), 1);
            c.case("single-gate-exhaustive", Some(circ_hash(circ)));
        });
    }
    let exhaustive_done = !c.out_of_time();
    c.extra(
        "exhaustive_single_gate",
        json!({"phases": "all k/d with d<=16, -d<k<=d on rz and rx", "phase_free_gates": "every supported gate on every tuple of distinct qubits of 3", "cases": n_space, "completed": exhaustive_done}),
    );

    // (i-a') observation only: how far beyond d = 16 is the decimal round trip exact?
    if c.replay.is_none() {
        let dmax = t.pick(128i64, 512i64);
        let mut first_bad: Option<(i64, i64)> = None;
        let mut bad_count = 0u64;
        let mut total = 0u64;
        'outer: for d in 17..=dmax {
            for k in (-d + 1)..=d {
                if gcd(k as i128, d as i128) != 1 {
                    continue;
                }
                if c.out_of_time() {
                    break 'outer;
                }
                total += 1;
                let circ = Circ { n: 1, gates: vec![G::Rz(0, (k, d))] };
                if !check_roundtrip("observe-large-denominators", 0, &circ, false) {
                    bad_count += 1;
                    if first_bad.is_none() {
                        first_bad = Some((k, d));
                    }
                }
            }
        }
        c.extra(
            "beyond_property_observation",
            json!({"what": "rz(k/d) print/parse exactness for 17 <= d <= dmax (not part of the property, no verdict)", "dmax": dmax, "reduced_fractions_tried": total, "not_exact": bad_count, "first_not_exact": first_bad.map(|(k, d)| format!("{k}/{d}"))}),
        );
    }

    // (i-b) zero-gate circuits and idle qubits
    par_cases("zero-gate-circuits", 8, move |_r, i| {
        let circ = Circ { n: 1 + i as usize, gates: vec![] };
        check_roundtrip("zero-gate-circuits", i, &circ, true);
        ctx().case("zero-gate-circuits", None);
    });
    par_cases("idle-qubits", 24, move |r, i| {
        // n qubits, gates only on one of them
        let n = 2 + (i as usize % 6);
        let q = r.below(n);
        let circ = Circ { n, gates: vec![G::H(q), G::Rz(q, (1, 4))] };
        check_roundtrip("idle-qubits", i, &circ, true);
        ctx().case("idle-qubits", Some(circ_hash(&circ)));
    });

    // (i-c) random circuits
    let (n_rand, max_q, max_d) = t.pick((24000usize, 6usize, 40usize), (5_000_000usize, 10usize, 120usize));
    par_cases("random-circuits", n_rand, move |r, i| {
        let mut p = CircParams::unitary(max_q, max_d, PhPool::Float);
        p.pp = false;
        p.ancilla = true;
        p.measure = false;
        let mut circ = gen_circuit(r, &p);
        redraw_phases(r, &mut circ);
        if r.chance(0.3) {
            circ.n += 1 + r.below(3); // idle qubits at the end
        }
        let how = Build::draw(r, circ.gates.len());
        let via_file = r.chance(0.15);
        let ok = check_roundtrip_as("random-circuits", i, &circ, true, how, via_file);
        let c = ctx();
        c.count(if ok { "random:ok" } else { "random:bad" }, 1);
        c.count("random:gates", circ.gates.len() as u64);
        if circ.gates.is_empty() {
            c.count("random:zero-gate-circuits", 1);
        }
        for g in &circ.gates {
            c.count(&format!("gate:{}", g.name()), 1);
        }
        c.maximum("max_gates", circ.gates.len() as u64);
        c.maximum("max_qubits", circ.n as u64);
        c.case("random-circuits", if circ.gates.is_empty() { None } else { Some(circ_hash(&circ)) });
        c.sample_n(3, || json!({"family": "random-circuits", "index": i, "circuit": circ_json(&circ)}));
    });

    // (i-d) sizes far above the random family: 65-300 qubits, 100-2500 gates (the comparison
    // is structural, so size costs nothing)
    let n_big = t.pick(300usize, 30_000usize);
    par_cases("large-circuits", n_big, move |r, i| {
        let (nq, depth) = if r.chance(0.5) {
            (*r.pick(&[7usize, 33, 65, 70, 129, 300]), *r.pick(&[100usize, 260, 1030, 2500]))
        } else {
            (r.log_uniform(3, 400), r.log_uniform(20, 3000))
        };
        let mut p = CircParams::unitary(nq, depth, PhPool::Float);
        p.min_qubits = nq.max(3) - 2;
        p.pp = false;
        p.ancilla = r.chance(0.3);
        p.measure = false;
        let mut circ = gen_circuit(r, &p);
        redraw_phases(r, &mut circ);
        let how = Build::draw(r, circ.gates.len());
        let via_file = r.chance(0.3);
        let ok = check_roundtrip_as("large-circuits", i, &circ, true, how, via_file);
        let c = ctx();
        c.count(if ok { "large:ok" } else { "large:bad" }, 1);
        c.maximum("max_gates", circ.gates.len() as u64);
        c.maximum("max_qubits", circ.n as u64);
        c.case("large-circuits", Some(circ_hash(&circ)));
    });

    // (ii) generated texts
    let n_text = t.pick(30_000usize, 6_000_000usize);
    par_cases("generated-texts", n_text, move |r, i| {
        let p = gen_program(r, 12);
        let via_file = r.chance(0.2);
        check_text("generated-texts", i, &p, via_file);
        let c = ctx();
        c.case("generated-texts", if p.expected.is_empty() { None } else { Some(hash_bytes(p.text.as_bytes())) });
        c.sample_n(6, || json!({"family": "generated-texts", "index": i, "qasm": p.text, "features": p.features}));
    });
    // zero-statement texts with several registers
    par_cases("texts-without-statements", 40, move |r, i| {
        let regs = gen_regs(r, 1, false);
        let text = assemble(r, &regs, &[], &[], None);
        let p = Program { text, regs, expected: vec![], features: vec!["zero-statements".into()] };
        check_text("texts-without-statements", i, &p, i % 2 == 1);
        ctx().case("texts-without-statements", None);
    });

    // (iii) rejection corpus
    let n_rej = t.pick(15000usize, 2_000_000usize);
    par_cases("unsupported-constructs", n_rej, move |r, i| {
        check_reject("unsupported-constructs", i, r);
    });
    // observation only: user-declared opaque gates are accepted as UnknownGate
    if c.replay.is_none() {
        let text = "OPENQASM 2.0;\nqreg q[2];\nopaque mystery(alpha) a,b;\nh q[0];\nmystery(pi/2) q[0],q[1];\n";
        let obs = match parse(text) {
            Ok(Ok(p)) => json!({"result": "Ok", "parsed": circuit_json(&p)}),
            Ok(Err(e)) => json!({"result": "Err", "error": e}),
            Err(e) => json!({"result": "panic", "panic": e.text()}),
        };
        c.extra("observation_user_opaque_gate", json!({"qasm": text, "observed": obs, "note": "no verdict: a declared opaque gate is not an undefined name"}));
    }
    // observation only: a 0-qubit circuit prints `qreg q[0];`, which is not valid OpenQASM 2
    if c.replay.is_none() {
        let text = Circuit::new(0).to_qasm();
        let obs = match parse(&text) {
            Ok(Ok(p)) => json!({"result": "Ok", "parsed": circuit_json(&p)}),
            Ok(Err(e)) => json!({"result": "Err", "error": e.chars().take(300).collect::<String>()}),
            Err(e) => json!({"result": "panic", "panic": e.text()}),
        };
        c.extra("observation_zero_qubit_circuit", json!({"printed": text, "observed": obs, "note": "no verdict: outside the property (see assumptions)"}));
    }
    c.extra("exhaustive", json!(false));
}

//! C14 -- monitor (to be written)
use crate::fw::ctx;

pub fn run() {
    ctx().harness_error("C14 monitor not implemented yet");
}

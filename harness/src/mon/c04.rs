//! C04 -- monitor (to be written)
use crate::fw::ctx;

pub fn run() {
    ctx().harness_error("C04 monitor not implemented yet");
}

//! C04 -- a rewrite rule is sound when its matcher accepts and a no-op when it rejects.
//!
//! For every diagram, backend, rule and argument tuple over vertices(d) + two ids that do
//! not exist: (1) the matcher must not panic; (2) accepted => apply the unchecked rule on
//! a clone: no panic, well-formed result, E(after) == E(before) (independent evaluator);
//! (3) rejected => the checked form returns false and the clone is == the original
//! (derived PartialEq of the backend, i.e. bit-for-bit).

use crate::fw::{ctx, guarded, par_cases};
use crate::gen::diagram::*;
use crate::gen::prng::Rng;
use crate::oracle::eval::EvalError;
use crate::snap::{eval_graph, graph_json, Tens, FLOAT_TOL};
use quizx::basic_rules as br;
use quizx::graph::{GraphLike, VType, V};
use serde_json::json;

#[derive(Clone, Copy, Debug, PartialEq, Eq)]
pub enum Arity {
    One,
    Two,
}

/// (name, arity, has a checked form)
pub const RULES: [(&str, Arity, bool); 15] = [
    ("pi_copy", Arity::One, true),
    ("remove_id", Arity::One, true),
    ("color_change", Arity::One, true),
    ("local_comp", Arity::One, true),
    ("remove_single", Arity::One, true),
    ("spider_fusion", Arity::Two, true),
    ("pivot", Arity::Two, true),
    ("gen_pivot", Arity::Two, true),
    ("gen_pivot_reduce", Arity::Two, false),
    ("boundary_pivot", Arity::Two, true),
    ("h_boundary_pivot", Arity::Two, true),
    ("boundary_local_comp", Arity::Two, true),
    ("gadget_fusion", Arity::Two, true),
    ("remove_pair", Arity::Two, true),
    ("remove_duplicate", Arity::Two, true),
];

pub fn check_rule<G: GraphLike>(rule: &str, g: &G, a: V, b: V) -> bool {
    match rule {
        "pi_copy" => br::check_pi_copy(g, a),
        "remove_id" => br::check_remove_id(g, a),
        "color_change" => br::check_color_change(g, a),
        "local_comp" => br::check_local_comp(g, a),
        "remove_single" => br::check_remove_single(g, a),
        "spider_fusion" => br::check_spider_fusion(g, a, b),
        "pivot" => br::check_pivot(g, a, b),
        "gen_pivot" => br::check_gen_pivot(g, a, b),
        "gen_pivot_reduce" => br::check_gen_pivot_reduce(g, a, b),
        "boundary_pivot" => br::check_boundary_pivot(g, a, b),
        "h_boundary_pivot" => br::check_h_boundary_pivot(g, a, b),
        "boundary_local_comp" => br::check_boundary_local_comp(g, a, b),
        "gadget_fusion" => br::check_gadget_fusion(g, a, b),
        "remove_pair" => br::check_remove_pair(g, a, b),
        "remove_duplicate" => br::check_remove_duplicate(g, a, b),
        _ => unreachable!(),
    }
}

pub fn apply_unchecked<G: GraphLike>(rule: &str, g: &mut G, a: V, b: V) {
    match rule {
        "pi_copy" => br::pi_copy_unchecked(g, a),
        "remove_id" => br::remove_id_unchecked(g, a),
        "color_change" => br::color_change_unchecked(g, a),
        "local_comp" => br::local_comp_unchecked(g, a),
        "remove_single" => br::remove_single_unchecked(g, a),
        "spider_fusion" => br::spider_fusion_unchecked(g, a, b),
        "pivot" => br::pivot_unchecked(g, a, b),
        "gen_pivot" | "gen_pivot_reduce" | "boundary_pivot" | "h_boundary_pivot" => br::gen_pivot_unchecked(g, a, b),
        "boundary_local_comp" => br::boundary_local_comp_unchecked(g, a, b),
        "gadget_fusion" => br::gadget_fusion_unchecked(g, a, b),
        "remove_pair" => br::remove_pair_unchecked(g, a, b),
        "remove_duplicate" => br::remove_duplicate_unchecked(g, a, b),
        _ => unreachable!(),
    }
}

pub fn apply_checked<G: GraphLike>(rule: &str, g: &mut G, a: V, b: V) -> bool {
    match rule {
        "pi_copy" => br::pi_copy(g, a),
        "remove_id" => br::remove_id(g, a),
        "color_change" => br::color_change(g, a),
        "local_comp" => br::local_comp(g, a),
        "remove_single" => br::remove_single(g, a),
        "spider_fusion" => br::spider_fusion(g, a, b),
        "pivot" => br::pivot(g, a, b),
        "gen_pivot" => br::gen_pivot(g, a, b),
        "boundary_pivot" => br::boundary_pivot(g, a, b),
        "h_boundary_pivot" => br::h_boundary_pivot(g, a, b),
        "boundary_local_comp" => br::boundary_local_comp(g, a, b),
        "gadget_fusion" => br::gadget_fusion(g, a, b),
        "remove_pair" => br::remove_pair(g, a, b),
        "remove_duplicate" => br::remove_duplicate(g, a, b),
        _ => unreachable!(),
    }
}

fn arg_class<G: GraphLike>(g: &G, a: V, b: V, ar: Arity) -> &'static str {
    let ea = g.contains_vertex(a);
    let eb = ar == Arity::One || g.contains_vertex(b);
    if !ea || !eb {
        "missing"
    } else if ar == Arity::Two && a == b {
        "equal"
    } else if g.vertex_type(a) == VType::B || (ar == Arity::Two && g.vertex_type(b) == VType::B) {
        "boundary"
    } else {
        "spiders"
    }
}

/// Run all rules x all argument tuples on one diagram in one backend.
/// Returns the number of accepted applications.
fn check_all<G: GraphLike + PartialEq>(family: &'static str, index: u64, backend: &str, g: &G, before: &Tens, desc: &serde_json::Value) -> u64 {
    let cx = ctx();
    let mut args: Vec<V> = g.vertices().collect();
    args.sort();
    let maxid = args.iter().copied().max().map_or(0, |m| m + 1).max(g.vindex());
    args.push(maxid);
    args.push(1_000_000);
    let mut accepted_total = 0u64;
    let mut n_checks = 0u64;
    // on large diagrams (tens of thousands of tuples per rule) every matcher call is still made,
    // but only a deterministic sample of the outcomes is followed up: the first 40 accepted
    // tuples of each rule and every 16th after that are evaluated, and every 37th rejected
    // tuple is confirmed through the checked form
    let big = args.len() > 42;
    // (above 120 vertices: the first 12 and every 64th)
    let (first_n, every) = if args.len() > 120 { (12, 64) } else { (40, 16) };
    for (rule, ar, has_checked) in RULES {
        let mut acc = 0u64;
        let mut rej = 0u64;
        for &a in &args {
            let bs: &[V] = if ar == Arity::One { &args[..1] } else { &args[..] };
            for &b in bs {
                let b = if ar == Arity::One { a } else { b };
                n_checks += 1;
                let cls = arg_class(g, a, b, ar);
                let detail = |what: &str, extra: serde_json::Value| {
                    json!({"what": what, "rule": rule, "args": [a, b], "arg_class": cls, "backend": backend, "diagram": desc, "graph": graph_json(g), "extra": extra})
                };
                let ok = match guarded(|| check_rule(rule, g, a, b)) {
                    Ok(ok) => ok,
                    Err(e) => {
                        cx.violation(&format!("check_{rule}|panic|{cls}"), family, index, detail("matcher panicked", json!(e.text())));
                        continue;
                    }
                };
                if ok {
                    acc += 1;
                    cx.count(&format!("accept:{rule}:{cls}"), 1);
                    if big && acc > first_n && acc % every != 0 {
                        cx.count("large-diagram:accepted-not-followed-up", 1);
                        continue;
                    }
                    let mut h = g.clone();
                    if let Err(e) = guarded(|| apply_unchecked(rule, &mut h, a, b)) {
                        cx.violation(&format!("{rule}|panic-after-accept|{cls}"), family, index, detail("rule panicked after matcher accepted", json!(e.text())));
                        continue;
                    }
                    match eval_graph(&h) {
                        Ok(after) => {
                            if after.len() != before.len() || !after.same(before, FLOAT_TOL) {
                                cx.violation(
                                    &format!("{rule}|map-changed|{cls}"),
                                    family,
                                    index,
                                    detail("accepted application changed the linear map", json!({"before": before.brief(), "after": after.brief(), "result": graph_json(&h)})),
                                );
                            }
                        }
                        Err(EvalError::IllFormed(m)) => cx.violation(
                            &format!("{rule}|ill-formed-result|{cls}"),
                            family,
                            index,
                            detail("accepted application produced an ill-formed diagram", json!({"why": m, "result": graph_json(&h)})),
                        ),
                        Err(EvalError::TooWide(_)) => cx.skipped(),
                    }
                } else {
                    rej += 1;
                    if has_checked && (!big || rej % 37 == 0) {
                        let mut h = g.clone();
                        match guarded(|| apply_checked(rule, &mut h, a, b)) {
                            Ok(false) => {
                                if h != *g {
                                    cx.violation(&format!("{rule}|rejected-but-modified|{cls}"), family, index, detail("checked form returned false but changed the graph", json!({"result": graph_json(&h)})));
                                }
                            }
                            Ok(true) => cx.violation(&format!("{rule}|checked-form-disagrees|{cls}"), family, index, detail("matcher rejected but checked form returned true", json!(null))),
                            Err(e) => cx.violation(&format!("{rule}|panic-on-reject|{cls}"), family, index, detail("checked form panicked", json!(e.text()))),
                        }
                    }
                }
            }
        }
        cx.count(&format!("accepted:{rule}"), acc);
        cx.count(&format!("rejected:{rule}"), rej);
        accepted_total += acc;
    }
    cx.count("check_calls", n_checks);
    accepted_total
}

pub fn check_desc(family: &'static str, index: u64, r: &mut Rng, d: &DDesc) {
    let cx = ctx();
    let scr = if r.chance(0.4) { Some(r.next_u64()) } else { None };
    let (gv, _) = d.build::<quizx::vec_graph::Graph>(scr);
    let before = match eval_graph(&gv) {
        Ok(t) => t,
        Err(EvalError::TooWide(_)) => {
            cx.skipped();
            return;
        }
        Err(EvalError::IllFormed(m)) => {
            cx.harness_error(&format!("generator produced ill-formed diagram: {m}"));
            return;
        }
    };
    let desc = d.to_json();
    let mut acc = check_all(family, index, "vec", &gv, &before, &desc);
    let (gh, _) = d.build::<quizx::hash_graph::Graph>(scr);
    acc += check_all(family, index, "hash", &gh, &before, &desc);
    cx.case(family, if acc > 0 { Some(d.hash()) } else { None });
    cx.sample_n(4, || json!({"family": family, "index": index, "diagram": desc, "accepted_applications": acc}));
}

/// A walk of accepted rule applications on the SAME graph object: up to 14 steps, each a
/// random (rule, arguments) tuple that the matcher accepts in the *current* state, applied
/// through the unchecked or the checked form; after every step the map must still be the
/// original one. Rejected checked calls are interleaved and must leave the object untouched.
/// The state a rule leaves behind (recycled ids, holes, parallel-edge resolution, phases set by
/// earlier steps) is the next rule's input - single applications to freshly built diagrams
/// never see that.
fn rule_walk<G: GraphLike + PartialEq>(family: &'static str, index: u64, backend: &str, r: &mut Rng, mut g: G, before: &Tens, desc: &serde_json::Value) -> u64 {
    let cx = ctx();
    let mut applied = 0u64;
    let mut trail: Vec<String> = vec![];
    for _step in 0..14 {
        let mut args: Vec<V> = g.vertices().collect();
        args.sort();
        if args.is_empty() {
            break;
        }
        // find an accepted tuple
        let mut found = None;
        for _ in 0..80 {
            let (rule, ar, has_checked) = *r.pick(&RULES);
            let a = *r.pick(&args);
            let b = if ar == Arity::One {
                a
            } else if r.chance(0.7) {
                // neighbours are the likely partners
                let nb: Vec<V> = g.neighbors(a).collect();
                if nb.is_empty() {
                    *r.pick(&args)
                } else {
                    *r.pick(&nb)
                }
            } else {
                *r.pick(&args)
            };
            match guarded(|| check_rule(rule, &g, a, b)) {
                Ok(true) => {
                    found = Some((rule, a, b, has_checked));
                    break;
                }
                Ok(false) => {
                    if has_checked && r.chance(0.1) {
                        let snapshot = g.clone();
                        match guarded(|| apply_checked(rule, &mut g, a, b)) {
                            Ok(false) if g == snapshot => {}
                            Ok(false) => {
                                cx.violation(&format!("{rule}|rejected-but-modified|in-walk"), family, index, json!({"rule": rule, "args": [a, b], "backend": backend, "diagram": desc, "steps_before": trail, "graph": graph_json(&snapshot), "result": graph_json(&g)}));
                                return applied;
                            }
                            Ok(true) => {
                                cx.violation(&format!("{rule}|checked-form-disagrees|in-walk"), family, index, json!({"rule": rule, "args": [a, b], "backend": backend, "diagram": desc, "steps_before": trail, "graph": graph_json(&snapshot)}));
                                return applied;
                            }
                            Err(e) => {
                                cx.violation(&format!("{rule}|panic-on-reject|in-walk"), family, index, json!({"rule": rule, "args": [a, b], "backend": backend, "diagram": desc, "steps_before": trail, "panic": e.text()}));
                                return applied;
                            }
                        }
                    }
                }
                Err(e) => {
                    cx.violation(&format!("check_{rule}|panic|in-walk"), family, index, json!({"rule": rule, "args": [a, b], "backend": backend, "diagram": desc, "steps_before": trail, "panic": e.text()}));
                    return applied;
                }
            }
        }
        let Some((rule, a, b, has_checked)) = found else { break };
        let prev = g.clone();
        let use_checked = has_checked && r.chance(0.4);
        let res = guarded(|| {
            if use_checked {
                apply_checked(rule, &mut g, a, b)
            } else {
                apply_unchecked(rule, &mut g, a, b);
                true
            }
        });
        trail.push(format!("{rule}({a},{b}){}", if use_checked { " [checked form]" } else { "" }));
        let detail = |what: &str, extra: serde_json::Value| {
            json!({"what": what, "rule": rule, "args": [a, b], "backend": backend, "diagram": desc, "steps": trail, "graph_before_step": graph_json(&prev), "extra": extra})
        };
        match res {
            Err(e) => {
                cx.violation(&format!("{rule}|panic-after-accept|in-walk"), family, index, detail("rule panicked after matcher accepted", json!(e.text())));
                return applied;
            }
            Ok(false) => {
                cx.violation(&format!("{rule}|checked-form-disagrees|in-walk"), family, index, detail("matcher accepted but the checked form returned false", json!(null)));
                return applied;
            }
            Ok(true) => {}
        }
        applied += 1;
        cx.count(&format!("walk-step:{rule}"), 1);
        match eval_graph(&g) {
            Ok(after) => {
                if after.len() != before.len() || !after.same(before, FLOAT_TOL) {
                    cx.violation(&format!("{rule}|map-changed|in-walk"), family, index, detail("accepted application changed the linear map", json!({"before": before.brief(), "after": after.brief(), "result": graph_json(&g)})));
                    return applied;
                }
            }
            Err(EvalError::IllFormed(m)) => {
                cx.violation(&format!("{rule}|ill-formed-result|in-walk"), family, index, detail("accepted application produced an ill-formed diagram", json!({"why": m, "result": graph_json(&g)})));
                return applied;
            }
            Err(EvalError::TooWide(_)) => {
                cx.skipped();
                return applied;
            }
        }
    }
    cx.maximum("max_walk_length", applied);
    applied
}

pub fn check_walks(family: &'static str, index: u64, r: &mut Rng, d: &DDesc) {
    let cx = ctx();
    let scr = if r.chance(0.4) { Some(r.next_u64()) } else { None };
    let (gv, _) = d.build::<quizx::vec_graph::Graph>(scr);
    let Ok(before) = eval_graph(&gv) else {
        cx.skipped();
        return;
    };
    let desc = d.to_json();
    let mut n = rule_walk(family, index, "vec", r, gv, &before, &desc);
    let (gh, _) = d.build::<quizx::hash_graph::Graph>(scr);
    n += rule_walk(family, index, "hash", r, gh, &before, &desc);
    cx.case(family, if n > 0 { Some(d.hash()) } else { None });
}

pub fn run() {
    let c = ctx();
    let t = c.tier;
    c.set_rule("cases = diagrams; for each, every rule x every argument tuple over its vertices plus two non-existent ids x 2 backends is checked (counter check_calls); non-trivial = at least one matcher accepted; distinct = distinct diagram descriptions");
    c.assume("independent evaluator O2 / ring O1 correct (self-tested, cross-checked)");
    c.assume("'bit-for-bit unchanged' is decided by the backend's derived PartialEq (all fields incl. holes and counters)");
    let max_ns = t.pick(2usize, 3usize);
    let mut space_total = 0u64;
    let mut completed = true;
    for ns in 0..=max_ns {
        let space = tiny_space(ns);
        space_total += space;
        let chunk = 128u64;
        let nchunks = ((space + chunk - 1) / chunk) as usize;
        let fam: &'static str = ["exhaustive-tiny-0", "exhaustive-tiny-1", "exhaustive-tiny-2", "exhaustive-tiny-3"][ns];
        par_cases(fam, nchunks, move |r, ci| {
            for k in 0..chunk {
                if let Some(d) = tiny_diagram(ns, ci * chunk + k) {
                    check_desc(fam, ci, r, &d);
                }
            }
        });
        if c.out_of_time() {
            completed = false;
        }
    }
    let (ms, n_rand) = t.pick((6usize, 3000usize), (9usize, 80_000usize));
    par_cases("arbitrary-exact", n_rand, move |r, i| {
        let d = gen_random(r, &DiagParams { max_spiders: ms, max_bnd: 3, pool: PhasePool::CliffordHeavy, graph_like: false, bare_wires: true, var_prob: 0.0 });
        check_desc("arbitrary-exact", i, r, &d);
    });
    par_cases("graph-like", n_rand, move |r, i| {
        let d = gen_random(r, &DiagParams { max_spiders: ms + 1, max_bnd: 3, pool: PhasePool::CliffordHeavy, graph_like: true, bare_wires: false, var_prob: 0.0 });
        check_desc("graph-like", i, r, &d);
    });
    par_cases("graph-like-float", n_rand / 3, move |r, i| {
        let d = gen_random(r, &DiagParams { max_spiders: ms, max_bnd: 3, pool: PhasePool::Float, graph_like: true, bare_wires: false, var_prob: 0.0 });
        check_desc("graph-like-float", i, r, &d);
    });
    par_cases("gadget-rich", n_rand, move |r, i| {
        let d = gen_gadget_rich(r, 4, PhasePool::CliffordHeavy, 0.0);
        check_desc("gadget-rich", i, r, &d);
    });
    par_cases("gadget-pairs", n_rand, move |r, i| {
        let d = gen_gadget_pairs(r, PhasePool::CliffordHeavy, 0.0);
        check_desc("gadget-pairs", i, r, &d);
    });
    par_cases("pi-gadgets", n_rand / 2, move |r, i| {
        let d = gen_pi_gadgets(r);
        check_desc("pi-gadgets", i, r, &d);
    });
    par_cases("rule-walks", n_rand * 2, move |r, i| {
        let d = match r.below(4) {
            0 => gen_random(r, &DiagParams { max_spiders: ms + 2, max_bnd: 3, pool: PhasePool::CliffordHeavy, graph_like: false, bare_wires: true, var_prob: 0.0 }),
            1 => gen_random(r, &DiagParams { max_spiders: ms + 3, max_bnd: 3, pool: PhasePool::CliffordHeavy, graph_like: true, bare_wires: false, var_prob: 0.0 }),
            2 => gen_gadget_rich(r, 4, PhasePool::CliffordHeavy, 0.0),
            _ => gen_gadget_pairs(r, PhasePool::Exact, 0.0),
        };
        check_walks("rule-walks", i, r, &d);
    });
    par_cases("rule-walks-long-sparse", t.pick(150usize, 5_000usize), move |r, i| {
        let gl = r.chance(0.5);
        let d = gen_long_sparse(r, 40, 90, PhasePool::CliffordHeavy, gl, 0.0);
        check_walks("rule-walks-long-sparse", i, r, &d);
    });
    // 66-200 spiders: ids above 64/128, argument pairs that are far apart
    let n_long = t.pick(48usize, 2500usize);
    par_cases("long-sparse", n_long, move |r, i| {
        let gl = r.chance(0.6);
        let hi = *r.pick(&[90usize, 140, 200]);
        let d = gen_long_sparse(r, 66, hi, PhasePool::CliffordHeavy, gl, 0.0);
        check_desc("long-sparse", i, r, &d);
    });
    par_cases("hub", t.pick(16usize, 800usize), move |r, i| {
        let gl = r.chance(0.5);
        let d = gen_hub(r, 129, 200, PhasePool::CliffordHeavy, gl);
        check_desc("hub", i, r, &d);
    });
    c.extra("exhaustive_tiny", json!({"max_spiders": max_ns, "space": space_total, "completed": completed}));
}

//! C16 -- monitor (to be written)
use crate::fw::ctx;

pub fn run() {
    ctx().harness_error("C16 monitor not implemented yet");
}

//! C16 -- phases: canonical representative modulo 2, group laws, classification,
//! best rational approximation, float round trip.
//!
//! Every verdict compares the real `quizx::phase::Phase` against the BigInt rational
//! oracle `oracle::ratio` (O5). `limit_denominator` is judged three times: against a
//! literal port of CPython's algorithm (older, distance-based text), by brute force over all
//! denominators for bounds <= 64, and -- offline over a recorded event log -- by the real
//! `fractions.Fraction.limit_denominator` (`/verif/py/c16_fraction_check.py`).
//!
//! Readings of the property text (chosen so that correct code cannot be blamed):
//! * "stored as the unique representative in (-1,1]" is judged on the *value* of
//!   `to_rational()`; whether the stored `Ratio` is gcd-reduced is only counted
//!   (`repr:unreduced`), its consequences are caught by the `==`/predicate checks.
//! * operands are generated so that no intermediate of the documented computation can
//!   exceed 62 bits (the quantifier excludes overflow).
//! * "round-trips to within rounding": |to_f64(from_f64(f)) - f| (distance modulo 2) must be
//!   <= 4 ulp of max(1,|f|); to_f64 alone must be within 1 ulp(1) = 2^-52 of the stored value.
//! * the four predicates must (a) take the same value on n/d and n/d + 2k -- that is the
//!   property -- and (b) agree with their own doc comments (separate signature).

use crate::fw::{ctx, guarded, par_cases, Caught, VERIF_DIR};
use crate::gen::prng::{hash_str, Rng};
use crate::oracle::ratio::{self, closest_bruteforce, limit_denominator_cpython, q_of_f64, Q};
use num::bigint::BigInt;
use num::{One, Rational64, Zero};
use quizx::phase::Phase;
use serde_json::{json, Value};
use std::collections::BTreeMap;
use std::sync::Mutex;

/// sub-cases per par_cases case (a replay re-runs one batch)
const BATCH: u64 = 64;

static EVENTS: Mutex<Vec<String>> = Mutex::new(Vec::new());

#[derive(Default)]
struct Tally(BTreeMap<String, u64>);
impl Tally {
    fn add(&mut self, k: &str) {
        *self.0.entry(k.to_string()).or_default() += 1;
    }
    fn flush(self) {
        let c = ctx();
        for (k, n) in self.0 {
            c.count(&k, n);
        }
    }
}

fn qj(q: &Q) -> Value {
    json!(format!("{}/{}", q.n, q.d))
}

fn q_of_phase(p: &Phase) -> Option<(Q, i64, i64)> {
    let r = p.to_rational();
    let (n, d) = (*r.numer(), *r.denom());
    if d == 0 {
        return None;
    }
    Some((Q::from_i64s(n, d), n, d))
}

fn gcd_i64(a: i64, b: i64) -> i64 {
    let (mut a, mut b) = (a.unsigned_abs(), b.unsigned_abs());
    while b != 0 {
        let t = a % b;
        a = b;
        b = t;
    }
    a as i64
}

// ------------------------------------------------------------------------------------
// generators
// ------------------------------------------------------------------------------------

fn gen_den(r: &mut Rng, max_log: u32) -> i64 {
    match r.below(10) {
        0..=3 => r.range(1, 8),
        4 => r.range(1, 64),
        5 => 1i64 << r.below((max_log.min(20) + 1) as usize),
        6 => *r.pick(&[3i64, 5, 7, 12, 16, 256, 1024, 360, 1000, 997]),
        7 | 8 => r.range(1, 1i64 << max_log.min(20)),
        _ => r.range(1, 1i64 << max_log),
    }
}

/// numerator for a given denominator, biased to the ends of (-1,1] and just outside
fn gen_num(r: &mut Rng, d: i64, big_log: u32) -> i64 {
    if d > 1i64 << 40 {
        // huge denominators (limit_denominator only): stay inside / at the ends of the
        // interval so that nothing in the generator itself can overflow
        return match r.below(6) {
            0 => d,
            1 => -d + 1,
            2 => d - r.range(0, 3),
            3 => -d + 1 + r.range(0, 3),
            _ => r.range(-d + 1, d),
        };
    }
    match r.below(12) {
        0 => 0,
        1 => d,
        2 => -d,
        3 => d + r.range(-2, 2),
        4 => -d + r.range(-2, 2),
        5 => r.range(-d + 1, d),            // inside the interval
        6 => r.range(-3, 3) * d,            // integers
        7 => 2 * r.range(-4, 4) * d + r.range(-2, 2), // near even integers
        8 => (2 * r.range(-4, 4) + 1) * d + r.range(-2, 2), // near odd integers
        9 | 10 => r.range(-8 * d, 8 * d),
        _ => r.range(-(1i64 << big_log), 1i64 << big_log),
    }
}

const CTORS: [&str; 6] = ["new(Rational64::new)", "from((n,d))", "new(new_raw reduced)", "new(new_raw reduced, negative denominator)", "Rational64::into", "from(i64)"];

/// Build a phase for n/d (d > 0) through constructor `k`; returns None when the
/// constructor does not apply (from(i64) on a non-integer).
fn build_phase(k: usize, n: i64, d: i64) -> Option<Result<Phase, Caught>> {
    let g = gcd_i64(n, d).max(1);
    Some(match k {
        0 => guarded(|| Phase::new(Rational64::new(n, d))),
        1 => guarded(|| Phase::from((n, d))),
        2 => guarded(|| Phase::new(Rational64::new_raw(n / g, d / g))),
        3 => guarded(|| Phase::new(Rational64::new_raw(-(n / g), -(d / g)))),
        4 => guarded(|| {
            let p: Phase = Rational64::new(n, d).into();
            p
        }),
        _ => {
            if n % d != 0 {
                return None;
            }
            guarded(|| Phase::from(n / d))
        }
    })
}

fn interval_class(x: &Q) -> &'static str {
    if x.in_half_open_unit() {
        if x.n == x.d {
            "input=1"
        } else {
            "input-inside"
        }
    } else if x.n == -&x.d {
        "input=-1"
    } else if x.is_integer() {
        "input-integer"
    } else {
        "input-outside"
    }
}

/// Construct + check the normal form. Returns the phase and its stored value.
fn make_checked(family: &'static str, index: u64, t: &mut Tally, r: &mut Rng, n: i64, d: i64) -> Option<(Phase, Q)> {
    let c = ctx();
    let x = Q::from_i64s(n, d);
    let want = x.norm_mod2();
    loop {
        let k = r.below(CTORS.len());
        let Some(res) = build_phase(k, n, d) else { continue };
        let ctor = CTORS[k];
        t.add(&format!("ctor:{ctor}"));
        let input = json!({"n": n, "d": d, "constructor": ctor});
        let p = match res {
            Ok(p) => p,
            Err(e) => {
                c.violation(&format!("Phase::new|panic|{ctor}|{}", e.site()), family, index, json!({"input": input, "panic": e.text()}));
                return None;
            }
        };
        let Some((st, sn, sd)) = q_of_phase(&p) else {
            c.violation(&format!("Phase::new|zero-denominator|{ctor}"), family, index, json!({"input": input}));
            return None;
        };
        if sd < 0 || gcd_i64(sn, sd) != 1 {
            t.add("repr:unreduced-or-negative-denominator");
        }
        if st != want {
            let class = if !st.in_half_open_unit() { "outside(-1,1]" } else { "wrong-class" };
            c.violation(
                &format!("Phase::new|not-canonical:{class}|{ctor}|{}", interval_class(&x)),
                family,
                index,
                json!({"input": input, "stored": format!("{sn}/{sd}"), "expected": qj(&want)}),
            );
            return None;
        }
        // normalize() is idempotent on stored values
        match guarded(|| p.normalize()) {
            Ok(p2) => {
                if p2 != p || q_of_phase(&p2).map(|v| v.0) != Some(want.clone()) {
                    c.violation("Phase::normalize|not-idempotent", family, index, json!({"input": input, "stored": format!("{sn}/{sd}"), "after": format!("{}", p2)}));
                }
            }
            Err(e) => c.violation(&format!("Phase::normalize|panic|{}", e.site()), family, index, json!({"input": input, "panic": e.text()})),
        }
        t.add(&format!("normal-form:{}", interval_class(&x)));
        return Some((p, st));
    }
}

// ------------------------------------------------------------------------------------
// families
// ------------------------------------------------------------------------------------

fn predicates(p: &Phase) -> [bool; 6] {
    [p.is_pauli(), p.is_clifford(), p.is_proper_clifford(), p.is_t(), p.is_zero(), p.is_one()]
}
const PRED_NAMES: [&str; 6] = ["is_pauli", "is_clifford", "is_proper_clifford", "is_t", "is_zero", "is_one"];

/// the doc-comment meaning of each predicate, as a function of the class (value in (-1,1])
fn predicates_model(x: &Q) -> [bool; 6] {
    let two_x = x.mul_int(2);
    let four_x = x.mul_int(4);
    let half = Q::from_i64s(1, 2);
    let is_zero = x.is_zero();
    let is_one = *x == Q::int(1);
    [is_zero || is_one, two_x.is_integer(), *x == half || *x == half.neg(), four_x.is_integer() && !two_x.is_integer(), is_zero, is_one]
}

fn sub_normal_eq_pred(family: &'static str, index: u64, r: &mut Rng, t: &mut Tally) -> (bool, u64) {
    let c = ctx();
    let d = gen_den(r, 30);
    let n = gen_num(r, d, 40);
    let k = if r.chance(0.1) { r.range(-(1 << 20), 1 << 20) } else { r.range(-5, 5) };
    let n2 = n + 2 * k * d;
    let h = hash_str(&format!("nf:{n}/{d}:{k}"));
    let x = Q::from_i64s(n, d);
    let Some((p1, v1)) = make_checked(family, index, t, r, n, d) else { return (false, h) };
    let Some((p2, _v2)) = make_checked(family, index, t, r, n2, d) else { return (false, h) };
    let detail = |what: &str, extra: Value| json!({"what": what, "a": format!("{n}/{d}"), "b": format!("{n2}/{d}"), "k": k, "stored_a": format!("{p1}"), "stored_b": format!("{p2}"), "extra": extra});
    // == on equal classes
    if !(p1 == p2) || p1 != p2 {
        c.violation(&format!("Phase::eq|equal-classes-compare-unequal|{}", interval_class(&x)), family, index, detail("x and x+2k must compare equal", json!(null)));
    }
    t.add("eq:same-class");
    // predicates: class invariance + doc meaning
    let (a, b) = (predicates(&p1), predicates(&p2));
    let m = predicates_model(&v1);
    for i in 0..6 {
        if a[i] != b[i] {
            c.violation(&format!("Phase::{}|depends-on-representative", PRED_NAMES[i]), family, index, detail(PRED_NAMES[i], json!({"on_a": a[i], "on_b": b[i]})));
        } else if a[i] != m[i] {
            c.violation(&format!("Phase::{}|differs-from-doc-definition", PRED_NAMES[i]), family, index, detail(PRED_NAMES[i], json!({"observed": a[i], "by_definition": m[i]})));
        }
        if a[i] {
            t.add(&format!("pred-true:{}", PRED_NAMES[i]));
        }
    }
    // == against an unrelated small phase
    let d3 = if r.chance(0.5) { d } else { gen_den(r, 6) };
    let n3 = if r.chance(0.3) { n + r.range(-2, 2) * d3 } else { gen_num(r, d3, 10) };
    let y = Q::from_i64s(n3, d3);
    if let Some((p3, _)) = make_checked(family, index, t, r, n3, d3) {
        let want = x.congruent_mod2(&y);
        let got = p1 == p3;
        t.add(if want { "eq:other-same-class" } else { "eq:other-different-class" });
        if got != want {
            c.violation(
                &format!("Phase::eq|{}", if want { "equal-classes-compare-unequal|independent-operands" } else { "different-classes-compare-equal" }),
                family,
                index,
                json!({"a": format!("{n}/{d}"), "b": format!("{n3}/{d3}"), "stored_a": format!("{p1}"), "stored_b": format!("{p3}"), "observed_eq": got, "expected_eq": want}),
            );
        }
    }
    (!x.in_half_open_unit(), h)
}

/// Two fractions with huge denominators that share a large common factor: d1 = m1*g,
/// d2 = m2*g with g in [2^30, 2^52] and m1*m2*g < 2^58, numerators inside (-d, d]. Every
/// exact result of +, -, negation and multiplication by |k| <= 4 has numerator and denominator
/// below 2^62, i.e. the operands are inside the quantifier ("do not overflow 64 bits after the
/// operation") although the *product* of the denominators is far outside i64.
fn gen_common_factor_pair(r: &mut Rng) -> ((i64, i64), (i64, i64), i64) {
    let g: i64 = match r.below(4) {
        0 => 1i64 << r.range(30, 52),
        1 => 3 * (1i64 << r.range(30, 50)),
        2 => r.range(1i64 << 30, 1i64 << 52),
        _ => 5 * (1i64 << r.range(30, 49)) + if r.chance(0.5) { 0 } else { 5 },
    };
    let room = ((1i64 << 58) / g).max(1);
    let (mut m1, mut m2) = (r.range(1, 12), r.range(1, 12));
    while m1 * m2 > room {
        if m1 >= m2 && m1 > 1 {
            m1 -= 1;
        } else if m2 > 1 {
            m2 -= 1;
        } else {
            break;
        }
    }
    if r.chance(0.3) {
        m2 = m1 * 2;
        if m1 * m2 > room {
            m2 = m1;
        }
    }
    let (d1, d2) = (m1 * g, m2 * g);
    let num = |r: &mut Rng, d: i64| match r.below(5) {
        0 => 1,
        1 => d - 1,
        2 => -d + 1,
        _ => r.range(-d + 1, d),
    };
    let k = *r.pick(&[0i64, 1, -1, 2, -2, 3, 4, -4]);
    ((num(r, d1), d1), (num(r, d2), d2), k)
}

fn sub_arith(family: &'static str, index: u64, r: &mut Rng, t: &mut Tally) -> (bool, u64) {
    let c = ctx();
    let (n1, d1, n2, d2, k) = if r.chance(0.12) {
        t.add("operands:huge-denominators-with-common-factor");
        let ((n1, d1), (n2, d2), k) = gen_common_factor_pair(r);
        (n1, d1, n2, d2, k)
    } else {
        let d1 = gen_den(r, 28);
        let n1 = gen_num(r, d1, 40);
        let d2 = if r.chance(0.4) { d1 } else { gen_den(r, 28) };
        let n2 = match r.below(6) {
            0 => -n1 + r.range(-1, 1) * d2,                         // near the negation
            1 => (d2 - n1.rem_euclid(2 * d1).min(d2)) + r.range(-1, 1), // lands near the end 1
            _ => gen_num(r, d2, 40),
        };
        let k: i64 = match r.below(6) {
            0 => 0,
            1 => *r.pick(&[1i64, -1, 2, -2]),
            2 => r.range(-(1i64 << 32), 1i64 << 32),
            3 => d1 * r.range(-3, 3) + r.range(-1, 1),
            _ => r.range(-64, 64),
        };
        (n1, d1, n2, d2, k)
    };
    let h = hash_str(&format!("ar:{n1}/{d1}:{n2}/{d2}:{k}"));
    let (x, y) = (Q::from_i64s(n1, d1), Q::from_i64s(n2, d2));
    let Some((p, _)) = make_checked(family, index, t, r, n1, d1) else { return (false, h) };
    let Some((q, _)) = make_checked(family, index, t, r, n2, d2) else { return (false, h) };
    let mut nontrivial = false;
    let ops: [(&str, Q, Result<Phase, Caught>); 8] = [
        ("add", x.add(&y), guarded(|| p + q)),
        ("sub", x.sub(&y), guarded(|| p - q)),
        ("neg", x.neg(), guarded(|| -p)),
        ("mul_i64", x.mul_int(k), guarded(|| p * k)),
        ("add_assign", x.add(&y), guarded(|| { let mut a = p; a += q; a })),
        ("sub_assign", x.sub(&y), guarded(|| { let mut a = p; a -= q; a })),
        ("mul_assign_i64", x.mul_int(k), guarded(|| { let mut a = p; a *= k; a })),
        ("sub_rev", y.sub(&x), guarded(|| q - p)),
    ];
    for (name, exact, res) in ops {
        let want = exact.norm_mod2();
        let wrap = if exact.in_half_open_unit() { "no-wrap" } else { "wrap" };
        if wrap == "wrap" {
            nontrivial = true;
        }
        t.add(&format!("op:{name}:{wrap}"));
        if want.n == want.d {
            t.add("op-result=1");
        }
        let detail = json!({"op": name, "a": format!("{n1}/{d1}"), "b": format!("{n2}/{d2}"), "k": k, "stored_a": format!("{p}"), "stored_b": format!("{q}"), "expected": qj(&want)});
        match res {
            Err(e) => c.violation(&format!("Phase::{name}|panic|{}", e.site()), family, index, json!({"case": detail, "panic": e.text()})),
            Ok(got) => match q_of_phase(&got) {
                Some((g, sn, sd)) if g == want => {
                    // "the unique representative": the stored fraction itself must be in
                    // lowest terms with a positive denominator (== compares by value and
                    // would not notice 2/4), and the classification of the RESULT must be
                    // the one of its class
                    if sd <= 0 || gcd_i64(sn, sd) != 1 {
                        c.violation(&format!("Phase::{name}|stored-fraction-not-in-lowest-terms|{wrap}"), family, index, json!({"case": detail, "stored": format!("{sn}/{sd}")}));
                    }
                    let (a, m) = (predicates(&got), predicates_model(&want));
                    for i in 0..6 {
                        if a[i] != m[i] {
                            c.violation(
                                &format!("Phase::{}|wrong-on-result-of-{name}", PRED_NAMES[i]),
                                family,
                                index,
                                json!({"case": detail, "stored": format!("{sn}/{sd}"), "observed": a[i], "by_definition": m[i]}),
                            );
                        }
                    }
                }
                _ => {
                    let class = match q_of_phase(&got) {
                        Some((g, _, _)) if g.congruent_mod2(&want) => "right-class-wrong-representative",
                        _ => "wrong-class",
                    };
                    c.violation(&format!("Phase::{name}|{class}|{wrap}"), family, index, json!({"case": detail, "observed": format!("{got}")}));
                }
            },
        }
    }
    (nontrivial, h)
}

fn push_event(keep: bool, n: &BigInt, d: &BigInt, m: i64, rn: i64, rd: i64, raw: bool) {
    if !keep {
        return;
    }
    let s = if raw { format!("{{\"n\":{n},\"d\":{d},\"m\":{m},\"rn\":{rn},\"rd\":{rd},\"raw\":1}}") } else { format!("{{\"n\":{n},\"d\":{d},\"m\":{m},\"rn\":{rn},\"rd\":{rd}}}") };
    EVENTS.lock().unwrap_or_else(|e| e.into_inner()).push(s);
}

/// A fraction in (-1, 1) whose continued fraction is long: partial quotients mostly 1
/// (Fibonacci-like, the worst case for the number of terms: ~90 for a 62-bit denominator),
/// grown until the denominator passes `bits` bits. Also returns the denominators of its
/// convergents (the interesting bounds).
fn gen_long_cf(r: &mut Rng, bits: u32) -> (i64, i64, Vec<i64>) {
    // convergents h/k of [0; a1, a2, ...]
    let (mut h0, mut h1, mut k0, mut k1) = (1i128, 0i128, 0i128, 1i128);
    let mut ks = vec![];
    let limit = 1i128 << bits;
    loop {
        let a: i128 = match r.below(12) {
            0 => 2,
            1 => r.range(2, 6) as i128,
            _ => 1,
        };
        let (h2, k2) = (a * h1 + h0, a * k1 + k0);
        if k2 >= limit {
            break;
        }
        h0 = h1;
        h1 = h2;
        k0 = k1;
        k1 = k2;
        ks.push(k1 as i64);
    }
    let sign = if r.chance(0.5) { 1 } else { -1 };
    (sign * h1 as i64, k1 as i64, ks)
}

fn gen_bound(r: &mut Rng) -> i64 {
    match r.below(10) {
        0..=3 => r.range(2, 64),
        4 => *r.pick(&[2i64, 3, 4, 8, 16, 64, 256, 1000, 10_000, 1_000_000]),
        5..=7 => r.range(2, 10_000),
        8 => r.range(2, 1 << 20),
        _ => r.range(2, 300),
    }
}

/// class of a limit_denominator query for signatures / evidence
fn ld_class(x: &Q, m: i64) -> &'static str {
    let mb = BigInt::from(m);
    if x.d <= mb {
        return "exact-hit";
    }
    // tie between a fraction below and one above?  (decided with the port's own candidates
    // would be circular; use the definition: some fraction with denominator <= m at the
    // same distance on the other side) -- only evaluated for small m
    if m <= 64 {
        let (_d, who) = closest_bruteforce(x, m as u64);
        if who.len() > 1 {
            return "tie";
        }
    }
    "approximation"
}

fn check_ld_result(family: &'static str, index: u64, t: &mut Tally, site: &str, x: &Q, m: i64, got: &Q, normalised: bool, input: &Value) {
    let c = ctx();
    let mb = BigInt::from(m);
    let port_raw = limit_denominator_cpython(x, &mb);
    let port = if normalised { port_raw.norm_mod2() } else { port_raw.clone() };
    let class = ld_class(x, m);
    t.add(&format!("limit_denominator:{class}"));
    if got.d > mb {
        c.violation(&format!("{site}|denominator-exceeds-bound|{class}"), family, index, json!({"input": input, "observed": qj(got)}));
    }
    if *got != port {
        c.violation(&format!("{site}|differs-from-cpython-port|{class}"), family, index, json!({"input": input, "observed": qj(got), "cpython_port": qj(&port)}));
    }
    if m <= 64 {
        let (dist, who) = closest_bruteforce(x, m as u64);
        t.add("limit_denominator:brute-force-checked");
        let ok = who.iter().any(|w| if normalised { w.norm_mod2() == *got } else { w == got });
        if !ok {
            c.violation(
                &format!("{site}|not-the-closest-fraction|{class}"),
                family,
                index,
                json!({"input": input, "observed": qj(got), "closest": who.iter().map(qj).collect::<Vec<_>>(), "min_distance": qj(&dist)}),
            );
        }
        // the port itself must be closest too, otherwise the oracle is broken
        if !who.contains(&port_raw) {
            c.harness_error(&format!("ratio oracle: CPython port not closest for {x} m={m}"));
        }
    }
}

fn sub_limit_phase(family: &'static str, index: u64, r: &mut Rng, t: &mut Tally, keep: bool) -> (bool, u64) {
    let c = ctx();
    // the phase: rational with up to 61-bit denominator, or made from a float
    let mut long_cf_bounds: Vec<i64> = vec![];
    let (p, x) = if r.chance(0.25) {
        let f = gen_float(r);
        match guarded(|| Phase::from_f64(f)) {
            Ok(p) => match q_of_phase(&p) {
                Some((x, _, _)) => (p, x),
                None => return (false, 0),
            },
            Err(_) => return (false, 0), // judged in the float family
        }
    } else if r.chance(0.12) {
        let bits = *r.pick(&[20u32, 40, 48, 56, 61]);
        let (n, d, ks) = gen_long_cf(r, bits);
        long_cf_bounds = ks;
        t.add("limit_denominator:long-continued-fraction");
        match make_checked(family, index, t, r, n, d) {
            Some(v) => v,
            None => return (false, 0),
        }
    } else {
        let max_log = *r.pick(&[8u32, 12, 20, 30, 45, 61]);
        let d = gen_den(r, max_log);
        let n = gen_num(r, d, 20.min(max_log));
        match make_checked(family, index, t, r, n, d) {
            Some(v) => v,
            None => return (false, 0),
        }
    };
    if x.d >= (BigInt::one() << 62usize) {
        // 2*denominator does not fit in 63 bits: outside the quantifier ("do not overflow")
        t.add("limit_denominator:skipped-denominator>=2^62");
        return (false, 0);
    }
    let m = if r.chance(0.15) {
        // bound right around the denominator / half of it
        let (_, xd) = x.to_i64s().unwrap();
        (match r.below(4) {
            0 => xd - 1,
            1 => xd,
            2 => xd / 2,
            _ => xd / 2 + 1,
        })
        .clamp(2, 1 << 40)
    } else if !long_cf_bounds.is_empty() && r.chance(0.8) {
        // the denominator of a late convergent (give or take one), or anything below it
        let i = long_cf_bounds.len() - 1 - r.below(long_cf_bounds.len().min(24));
        let k = long_cf_bounds[i];
        (match r.below(4) {
            0 => k,
            1 => k - 1,
            2 => k + 1,
            _ => r.range(2, k.max(3)),
        })
        .max(2)
    } else {
        gen_bound(r)
    };
    t.add(&format!("limit_denominator:bound-bits:{:02}", (64 - (m as u64).leading_zeros()).div_ceil(8) * 8));
    let h = hash_str(&format!("ld:{x}:{m}"));
    let input = json!({"phase": qj(&x), "max_denom": m});
    match guarded(|| p.limit_denominator(m)) {
        Err(e) => c.violation(&format!("Phase::limit_denominator|panic|{}", e.site()), family, index, json!({"input": input, "panic": e.text()})),
        Ok(res) => match q_of_phase(&res) {
            None => c.violation("Phase::limit_denominator|zero-denominator", family, index, json!({"input": input})),
            Some((g, rn, rd)) => {
                if !g.in_half_open_unit() {
                    c.violation("Phase::limit_denominator|result-not-canonical", family, index, json!({"input": input, "observed": format!("{rn}/{rd}")}));
                }
                check_ld_result(family, index, t, "Phase::limit_denominator", &x, m, &g, true, &input);
                push_event(keep, &x.n, &x.d, m, rn, rd, false);
                t.add("events:phase");
            }
        },
    }
    (x.d > BigInt::from(m), h)
}

fn sub_limit_raw(family: &'static str, index: u64, r: &mut Rng, t: &mut Tally, keep: bool) -> (bool, u64) {
    let c = ctx();
    let max_log = *r.pick(&[8u32, 12, 20, 30, 40]);
    let d = gen_den(r, max_log);
    let n = match r.below(4) {
        0 => gen_num(r, d, 20),
        1 => r.range(-(1 << 20), 1 << 20),
        _ => r.range(-(1i64 << 20), 1i64 << 20).wrapping_mul(d.min(1 << 20)) / r.range(1, 1000),
    };
    let m = gen_bound(r);
    let x = Q::from_i64s(n, d);
    let h = hash_str(&format!("ldraw:{x}:{m}"));
    let input = json!({"fraction": format!("{n}/{d}"), "max_denom": m});
    match guarded(|| quizx::phase::utils::limit_denominator(Rational64::new(n, d), m)) {
        Err(e) => c.violation(&format!("utils::limit_denominator|panic|{}", e.site()), family, index, json!({"input": input, "panic": e.text()})),
        Ok(res) => {
            let (rn, rd) = (*res.numer(), *res.denom());
            if rd == 0 {
                c.violation("utils::limit_denominator|zero-denominator", family, index, json!({"input": input}));
            } else {
                let g = Q::from_i64s(rn, rd);
                check_ld_result(family, index, t, "utils::limit_denominator", &x, m, &g, false, &input);
                push_event(keep, &x.n, &x.d, m, rn, rd, true);
                t.add("events:raw");
            }
        }
    }
    (x.d > BigInt::from(m), h)
}

fn gen_float(r: &mut Rng) -> f64 {
    match r.below(14) {
        0 => r.range(-64, 64) as f64 / (1u64 << r.below(21)) as f64, // dyadic
        1 => r.range(-40, 40) as f64 * 0.1,
        2 => r.f64() * 2.0 - 1.0,
        3 => (r.f64() * 2.0 - 1.0) * 4.0,
        4 => (r.f64() * 2.0 - 1.0) * 1000.0,
        5 => {
            // near +-1 and near odd integers
            let e = 2f64.powi(-(r.range(1, 52) as i32));
            let base = (2 * r.range(-3, 3) + 1) as f64;
            if r.chance(0.5) {
                base - e
            } else {
                base + e
            }
        }
        6 => r.range(-8, 8) as f64 * 0.25,
        7 => r.range(-20, 20) as f64,
        8 => (r.f64() * 2.0 - 1.0) * 10f64.powi(-(r.range(1, 12) as i32)),
        9 => r.range(-1000, 1000) as f64 / r.range(1, 1000) as f64,
        10 => std::f64::consts::PI * r.range(-3, 3) as f64 / r.range(1, 7) as f64,
        11 => {
            let g = 0.6180339887498949;
            g * r.range(-2, 2) as f64 + r.range(-2, 2) as f64
        }
        12 => f64::from_bits(1.0f64.to_bits().wrapping_add(r.range(-3, 3) as u64)),
        _ => (r.f64() * 2.0 - 1.0) * (1u64 << 20) as f64,
    }
}

/// number of continued-fraction terms [a0; a1, ...] of x >= 0 needed before a convergent is
/// within `tol` of x (exact arithmetic). num-rational's float conversion stops after 30.
fn cf_terms_needed(x: &Q, tol: &Q) -> usize {
    let (mut n, mut d) = (x.n.clone(), x.d.clone());
    let (mut p0, mut q0, mut p1, mut q1) = (BigInt::zero(), BigInt::one(), BigInt::one(), BigInt::zero());
    let mut k = 0usize;
    loop {
        let a = num::Integer::div_floor(&n, &d);
        let p2 = &a * &p1 + &p0;
        let q2 = &a * &q1 + &q0;
        p0 = p1;
        q0 = q1;
        p1 = p2;
        q1 = q2;
        k += 1;
        let r = &n - &a * &d;
        if Q::new(p1.clone(), q1.clone()).sub(x).abs().le(tol) || r.is_zero() || k > 200 {
            return k;
        }
        n = d;
        d = r;
    }
}

fn float_class(f: f64) -> &'static str {
    if f == f.trunc() {
        "integer"
    } else if (f * 1048576.0) == (f * 1048576.0).trunc() && f.abs() < 1e6 {
        "dyadic<=2^-20"
    } else if f.abs() <= 1.0 {
        "inside"
    } else if f.abs() <= 4.0 {
        "|f|<=4"
    } else {
        "|f|>4"
    }
}

fn sub_float(family: &'static str, index: u64, r: &mut Rng, t: &mut Tally) -> (bool, u64) {
    let c = ctx();
    let ulp = Q::new(BigInt::one(), BigInt::one() << 52usize);
    if r.chance(0.6) {
        // f -> Phase -> f'
        let f = gen_float(r);
        let h = hash_str(&format!("f:{:016x}", f.to_bits()));
        let fq = q_of_f64(f).unwrap();
        let class = float_class(f);
        t.add(&format!("from_f64:{class}"));
        let input = json!({"f": f, "bits": format!("{:016x}", f.to_bits())});
        let p = match guarded(|| Phase::from_f64(f)) {
            Ok(p) => p,
            Err(e) => {
                c.violation(&format!("Phase::from_f64|panic|{class}|{}", e.site()), family, index, json!({"input": input, "panic": e.text()}));
                return (false, h);
            }
        };
        let Some((st, sn, sd)) = q_of_phase(&p) else {
            c.violation("Phase::from_f64|zero-denominator", family, index, json!({"input": input}));
            return (false, h);
        };
        if !st.in_half_open_unit() {
            c.violation(&format!("Phase::from_f64|not-canonical|{class}"), family, index, json!({"input": input, "stored": format!("{sn}/{sd}")}));
        }
        let scale = if fq.abs().lt(&Q::int(1)) { Q::int(1) } else { fq.abs() };
        let tol = ulp.mul_int(4).mul(&scale);
        // the stored rational itself must be close to f (mod 2)
        let d_st = st.circle_dist(&fq);
        if tol.lt(&d_st) {
            let terms = cf_terms_needed(&fq.abs(), &tol);
            t.add("from_f64:far-from-float");
            let class = if terms > 30 { "needs-more-than-30-continued-fraction-terms" } else { class };
            c.violation(
                &format!("Phase::from_f64|stored-value-far-from-float|{class}"),
                family,
                index,
                json!({"input": input, "stored": format!("{sn}/{sd}"), "distance_mod2": d_st.to_f64_nearest(), "tolerance": tol.to_f64_nearest(), "continued_fraction_terms_needed_for_tolerance": terms}),
            );
            return (true, h);
        }
        match guarded(|| p.to_f64()) {
            Err(e) => c.violation(&format!("Phase::to_f64|panic|{}", e.site()), family, index, json!({"input": input, "panic": e.text()})),
            Ok(g) => {
                let Some(gq) = q_of_f64(g) else {
                    c.violation("Phase::to_f64|non-finite", family, index, json!({"input": input, "stored": format!("{sn}/{sd}")}));
                    return (true, h);
                };
                // to_f64 within one ulp(1) of the stored value
                if ulp.lt(&gq.sub(&st).abs()) {
                    c.violation("Phase::to_f64|inaccurate", family, index, json!({"stored": format!("{sn}/{sd}"), "observed": g, "nearest": st.to_f64_nearest()}));
                }
                let dist = gq.circle_dist(&fq);
                if tol.lt(&dist) {
                    c.violation(
                        &format!("Phase::from_f64->to_f64|round-trip-error|{class}"),
                        family,
                        index,
                        json!({"input": input, "stored": format!("{sn}/{sd}"), "back": g, "distance_mod2": dist.to_f64_nearest(), "tolerance": tol.to_f64_nearest()}),
                    );
                }
                if g == f {
                    t.add("from_f64:round-trip-bit-exact");
                }
            }
        }
        (f != f.trunc(), h)
    } else {
        // Phase -> f -> Phase'
        let d = gen_den(r, 20);
        let n = gen_num(r, d, 24);
        let h = hash_str(&format!("pf:{n}/{d}"));
        let Some((p, st)) = make_checked(family, index, t, r, n, d) else { return (false, h) };
        t.add("to_f64->from_f64");
        let input = json!({"phase": qj(&st)});
        let g = match guarded(|| p.to_f64()) {
            Ok(g) => g,
            Err(e) => {
                c.violation(&format!("Phase::to_f64|panic|{}", e.site()), family, index, json!({"input": input, "panic": e.text()}));
                return (false, h);
            }
        };
        let Some(gq) = q_of_f64(g) else {
            c.violation("Phase::to_f64|non-finite", family, index, json!({"input": input}));
            return (false, h);
        };
        if ulp.lt(&gq.sub(&st).abs()) {
            c.violation("Phase::to_f64|inaccurate", family, index, json!({"input": input, "observed": g, "nearest": st.to_f64_nearest()}));
        }
        if g == st.to_f64_nearest() {
            t.add("to_f64:correctly-rounded");
        }
        match guarded(|| Phase::from_f64(g)) {
            Err(e) => c.violation(&format!("Phase::from_f64|panic|after-to_f64|{}", e.site()), family, index, json!({"input": input, "float": g, "panic": e.text()})),
            Ok(p2) => match q_of_phase(&p2) {
                None => c.violation("Phase::from_f64|zero-denominator", family, index, json!({"input": input})),
                Some((st2, _, _)) => {
                    let dist = st2.circle_dist(&st);
                    if ulp.mul_int(4).lt(&dist) {
                        c.violation(
                            "Phase::to_f64->from_f64|round-trip-error",
                            family,
                            index,
                            json!({"input": input, "float": g, "back": qj(&st2), "distance_mod2": dist.to_f64_nearest()}),
                        );
                    }
                    if st2 == st {
                        t.add("to_f64->from_f64:same-rational");
                    }
                }
            },
        }
        (!st.is_integer(), h)
    }
}

// ------------------------------------------------------------------------------------
// offline python cross-check
// ------------------------------------------------------------------------------------

fn run_python_check() {
    let c = ctx();
    let events = std::mem::take(&mut *EVENTS.lock().unwrap_or_else(|e| e.into_inner()));
    let n_events = events.len();
    let dir = format!("{VERIF_DIR}/harness/target/tmp");
    if let Err(e) = std::fs::create_dir_all(&dir) {
        c.inconclusive("python-checker-failed", json!({"why": format!("cannot create {dir}: {e}")}));
        return;
    }
    let suffix = if c.replay.is_some() { "_replay" } else { "" };
    let path = format!("{dir}/c16_events_{}_{}{}.jsonl", c.tier.name(), c.seed, suffix);
    let mut body = events.join("\n");
    body.push('\n');
    if let Err(e) = std::fs::write(&path, body) {
        c.inconclusive("python-checker-failed", json!({"why": format!("cannot write {path}: {e}")}));
        return;
    }
    let script = format!("{VERIF_DIR}/py/c16_fraction_check.py");
    let out = std::process::Command::new("python3").arg(&script).arg(&path).output();
    let mut summary = json!({"log": path, "events_logged": n_events, "script": script});
    match out {
        Err(e) => {
            c.inconclusive("python-checker-failed", json!({"why": format!("cannot run python3: {e}")}));
            summary["status"] = json!("not-run");
        }
        Ok(o) => {
            let stdout = String::from_utf8_lossy(&o.stdout).to_string();
            let last = stdout.lines().last().unwrap_or("").to_string();
            let parsed: Option<Value> = serde_json::from_str(&last).ok();
            let code = o.status.code();
            match (code, parsed) {
                (Some(0), Some(v)) if v["mismatches"].as_u64() == Some(0) && v["checked"].as_u64() == Some(n_events as u64) => {
                    c.count("python:events-checked", n_events as u64);
                    summary["status"] = json!("agree");
                    summary["python"] = v["python"].clone();
                }
                (Some(1), Some(v)) if v["mismatches"].as_u64().unwrap_or(0) > 0 => {
                    c.count("python:events-checked", v["checked"].as_u64().unwrap_or(0));
                    summary["status"] = json!("mismatch");
                    c.violation(
                        "limit_denominator|differs-from-python-Fraction|offline-log",
                        "python-offline-check",
                        0,
                        json!({"log": path, "result": v, "note": "re-run: python3 /verif/py/c16_fraction_check.py <log>"}),
                    );
                }
                (code, parsed) => {
                    summary["status"] = json!("checker-failed");
                    c.inconclusive(
                        "python-checker-failed",
                        json!({"exit_code": code, "stdout": last, "parsed": parsed, "stderr": String::from_utf8_lossy(&o.stderr).chars().take(400).collect::<String>()}),
                    );
                }
            }
        }
    }
    c.extra("python_offline_check", summary);
}

// ------------------------------------------------------------------------------------

fn run_family(family: &'static str, batches: usize, keep_batches: u64, sub: fn(&'static str, u64, &mut Rng, &mut Tally, bool) -> (bool, u64)) {
    par_cases(family, batches, move |r, i| {
        let c = ctx();
        let mut t = Tally::default();
        let keep = i < keep_batches || c.replay.is_some();
        for k in 0..BATCH {
            let (nontrivial, h) = sub(family, i, r, &mut t, keep);
            c.case(family, if nontrivial { Some(h) } else { None });
            if i == 0 && k < 2 {
                c.sample_n(10, || json!({"family": family, "batch": i, "sub_case": k, "non_trivial": nontrivial, "case_hash": format!("{h:016x}")}));
            }
        }
        t.flush();
    });
}

pub fn run() {
    let c = ctx();
    if let Err(e) = ratio::self_test() {
        c.harness_error(&format!("ratio oracle self-test failed: {e}"));
        return;
    }
    c.set_rule(
        "one case = one generated query (a pair of constructions n/d and n/d+2k with ==/predicates; a pair of phases with 8 arithmetic operations; one limit_denominator call; one float round trip); cases run in batches of 64 per replayable index; non-trivial = the exact un-normalised result lies outside (-1,1] (normal form / arithmetic), the denominator exceeds the bound (limit_denominator), the float is not an integer (float); distinct = distinct 64-bit hashes of the query",
    );
    c.assume("BigInt rational oracle (harness/src/oracle/ratio.rs) is correct: self-tested at start incl. CPython doc examples and port-vs-brute-force on a grid; the port is re-validated against the real fractions.Fraction by the offline python check on the same event log");
    c.assume("operands bounded so that no intermediate of Ratio<i64> arithmetic exceeds 62 bits (|n| <= 2^40, d <= 2^30 for arithmetic; d < 2^62 for limit_denominator; |k| <= 2^32 for integer scaling)");
    c.assume("float round trip tolerance: 4 ulp of max(1,|f|) (ulp = 2^-52), distance taken modulo 2");
    let t = c.tier;
    // batches of 64 sub-cases
    let (b_nf, b_ar, b_lp, b_lr, b_fl) = t.pick((2_000usize, 1_500usize, 2_500usize, 1_000usize, 1_500usize), (300_000usize, 200_000usize, 350_000usize, 150_000usize, 200_000usize));
    // python log: quick <= 20000 events, thorough <= 1e6
    let (keep_p, keep_r) = t.pick((230u64, 80u64), (11_000u64, 4_500u64));
    run_family("normal-form-eq-predicates", b_nf, 0, |f, i, r, t, _| sub_normal_eq_pred(f, i, r, t));
    run_family("arithmetic", b_ar, 0, |f, i, r, t, _| sub_arith(f, i, r, t));
    run_family("limit-denominator-phase", b_lp, keep_p, sub_limit_phase);
    run_family("limit-denominator-raw", b_lr, keep_r, sub_limit_raw);
    run_family("float-round-trip", b_fl, 0, |f, i, r, t, _| sub_float(f, i, r, t));
    run_python_check();
    c.extra("exhaustive", json!(false));
}

//! C05 -- stabiliser decomposition computes the exact scalar for every driver and mode.
//!
//! Events and oracles (E = independent evaluator O2, exact in Z[omega][1/2]):
//!  (i)   for every closed Clifford+T diagram d and configuration (driver x simp x split x
//!        mode): `Decomposer::scalar()` == E(d); a panic is a violation;
//!  (ii)  parallel result (inside a rayon pool of k in {1,2,3,4,8,16} threads, repeated)
//!        == sequential result;
//!  (iii) every decomposition step logged by hook H3 (sequential runs, worker-pool runs,
//!        saved-term runs) satisfies sum_t E(term_t) == E(pre); the same identity for
//!        `verif_apply_decomp` driven directly with every `Decomp` kind on valid vertex
//!        lists embedded in generated host graphs;
//!  (iv)  saved terms of the BSS-type drivers on graph-like diagrams with outputs: every
//!        `done[i]` is Clifford and sum_i E(done[i]) == E(d) as tensors.
//!
//! Families: open-cat-grid (deterministic: one cat of every size / hub phase attached to
//! outputs), closed-{random, cat-rich, gadget-rich, tpair-rich, t-only, multi-component},
//! circuit-plugged (simp levels only), direct-steps, saved-terms.
//!
//! Step events are sorted by producing thread, so every run knows the verdicts of its own
//! steps: a wrong end result whose run contains a violated step is counted as explained by
//! that step's signature instead of being reported a second time (one root cause, one
//! signature).
//!
//! Thorough tier only: Miri / ThreadSanitizer workloads via `harness/sanitize_c05.sh`.

use crate::fw::{ctx, par_cases, Caught};
use crate::gen::circuit::{circ_hash, circ_json, gen_circuit, to_quizx, CircParams, PhPool};
use crate::gen::diagram::{DDesc, DScalar, DV};
use crate::gen::prng::Rng;
use crate::gen::tdiag::{self, add_outputs, gen_closed, TFam};
use crate::oracle::eval::{self, Diag, EvalError, EK, VK};
use crate::oracle::ring::{r_of_scalar, scalar_is_approx, Num, R};
use crate::oracle::sim::{Circ, G};
use crate::snap::{eval_snap, graph_json, snap, snap_json, vk, Snap, Tens, FLOAT_TOL};
use quizx::decompose::{
    verif_apply_decomp, BssTOnlyDriver, BssWithCatsDriver, Decomp, Decomposer, Driver, DynamicTDriver, SherlockDriver, SimpFunc,
    SpiderCuttingDriver,
};
use quizx::graph::{BasisElem, EType, GraphLike, V};
use quizx::scalar::Scalar4;
use quizx::verif::{GraphSnap, StepEvent};
use serde_json::{json, Value};
use std::collections::hash_map::DefaultHasher;
use std::collections::{BTreeMap, HashMap, HashSet};
use std::hash::{Hash, Hasher};
use std::panic::{catch_unwind, AssertUnwindSafe};
use std::sync::{Arc, Mutex, Once};
use std::thread::ThreadId;

// ------------------------------------------------------------------------------------
// panic capture that also works for panics raised on rayon worker threads
// ------------------------------------------------------------------------------------

static PANICS: Mutex<Vec<(String, String)>> = Mutex::new(Vec::new());
static HOOK: Once = Once::new();

/// Wrap the framework's panic hook: additionally remember (message, location) globally,
/// because a panic inside `pool.install` happens on a pool thread and the framework's
/// thread-local record is not visible to the thread that catches the re-raised payload.
fn install_hook() {
    HOOK.call_once(|| {
        let prev = std::panic::take_hook();
        std::panic::set_hook(Box::new(move |info| {
            let loc = info.location().map(|l| format!("{}:{}", l.file(), l.line())).unwrap_or_default();
            let msg = payload_msg(info.payload());
            {
                let mut p = PANICS.lock().unwrap_or_else(|e| e.into_inner());
                if p.len() >= 512 {
                    p.drain(..256);
                }
                p.push((msg, loc));
            }
            prev(info);
        }));
    });
}

fn payload_msg(p: &(dyn std::any::Any + Send)) -> String {
    if let Some(s) = p.downcast_ref::<&str>() {
        s.to_string()
    } else if let Some(s) = p.downcast_ref::<String>() {
        s.clone()
    } else {
        "<non-string panic>".to_string()
    }
}

/// Run code under test; a panic (on this thread or re-raised from a pool thread) is data.
fn guard<T>(f: impl FnOnce() -> T) -> Result<T, Caught> {
    match catch_unwind(AssertUnwindSafe(f)) {
        Ok(v) => Ok(v),
        Err(p) => {
            let msg = payload_msg(&*p);
            let loc = PANICS
                .lock()
                .unwrap_or_else(|e| e.into_inner())
                .iter()
                .rev()
                .find(|e| e.0 == msg)
                .map(|e| e.1.clone())
                .unwrap_or_default();
            if loc.contains("harness/src/oracle") || loc.contains("harness/src/gen") || msg.contains("oracle overflow") {
                Err(Caught::Oracle(format!("{msg} @ {loc}")))
            } else {
                Err(Caught::Panic { msg, loc })
            }
        }
    }
}

// ------------------------------------------------------------------------------------
// rayon pools (one set per harness worker, leased)
// ------------------------------------------------------------------------------------

pub const KS: [usize; 6] = [1, 2, 3, 4, 8, 16];

static POOL_THREADS: Mutex<Option<HashSet<ThreadId>>> = Mutex::new(None);

pub struct PoolSet {
    pools: Vec<(usize, rayon::ThreadPool)>,
    /// ids of the threads of these pools (filled by the pools' start handlers, i.e. before a
    /// thread can run any job)
    tids: Arc<Mutex<HashSet<ThreadId>>>,
}

impl PoolSet {
    fn new() -> PoolSet {
        let tids: Arc<Mutex<HashSet<ThreadId>>> = Arc::new(Mutex::new(HashSet::new()));
        let pools = KS
            .iter()
            .map(|&k| {
                let mine = tids.clone();
                let p = rayon::ThreadPoolBuilder::new()
                    .num_threads(k)
                    .stack_size(32 << 20)
                    .thread_name(move |i| format!("c05-pool{k}-{i}"))
                    .start_handler(move |_| {
                        let id = std::thread::current().id();
                        mine.lock().unwrap_or_else(|e| e.into_inner()).insert(id);
                        let mut g = POOL_THREADS.lock().unwrap_or_else(|e| e.into_inner());
                        g.get_or_insert_with(HashSet::new).insert(id);
                    })
                    .build()
                    .expect("rayon pool");
                (k, p)
            })
            .collect();
        PoolSet { pools, tids }
    }
    /// this worker's own thread plus the threads of its leased pools
    fn my_threads(&self) -> HashSet<ThreadId> {
        let mut s = self.tids.lock().unwrap_or_else(|e| e.into_inner()).clone();
        s.insert(std::thread::current().id());
        s
    }
    fn get(&self, k: usize) -> &rayon::ThreadPool {
        &self.pools.iter().find(|p| p.0 == k).expect("pool size").1
    }
}

static POOLSETS: Mutex<Vec<PoolSet>> = Mutex::new(Vec::new());

struct Lease(Option<PoolSet>);

impl Lease {
    fn take() -> Lease {
        let got = POOLSETS.lock().unwrap_or_else(|e| e.into_inner()).pop();
        Lease(Some(got.unwrap_or_else(PoolSet::new)))
    }
    fn set(&self) -> &PoolSet {
        self.0.as_ref().unwrap()
    }
}

impl Drop for Lease {
    fn drop(&mut self) {
        if let Some(p) = self.0.take() {
            POOLSETS.lock().unwrap_or_else(|e| e.into_inner()).push(p);
        }
    }
}

// ------------------------------------------------------------------------------------
// configurations
// ------------------------------------------------------------------------------------

#[derive(Clone, Debug, PartialEq)]
pub enum Drv {
    BssT { random: bool },
    Cats { random: bool },
    DynT,
    Sherlock(Vec<usize>),
    Cut,
}

impl Drv {
    pub fn kind(&self) -> &'static str {
        match self {
            Drv::BssT { random: false } => "BssTOnly(first)",
            Drv::BssT { random: true } => "BssTOnly(random)",
            Drv::Cats { random: false } => "BssWithCats(first)",
            Drv::Cats { random: true } => "BssWithCats(random)",
            Drv::DynT => "DynamicT",
            Drv::Sherlock(_) => "Sherlock",
            Drv::Cut => "SpiderCutting",
        }
    }
    pub fn label(&self) -> String {
        match self {
            Drv::Sherlock(t) => format!("Sherlock{t:?}"),
            d => d.kind().to_string(),
        }
    }
}

/// `tries` = [single-cut candidates, magic-5 candidates, cat candidates]; the driver
/// indexes all three entries, and proposes nothing when all are 0, so every variant used
/// here has three entries and at least one single-cut candidate.
pub const SHERLOCK_TRIES: [[usize; 3]; 6] = [[1, 1, 1], [2, 2, 2], [10, 10, 10], [3, 0, 0], [1, 0, 2], [2, 3, 0]];

pub fn simp_name(s: SimpFunc) -> &'static str {
    match s {
        SimpFunc::NoSimp => "NoSimp",
        SimpFunc::CliffordSimp => "CliffordSimp",
        SimpFunc::FullSimp => "FullSimp",
    }
}

#[derive(Clone, Debug)]
pub struct Cfg {
    pub drv: Drv,
    pub simp: SimpFunc,
    pub split: bool,
}

impl Cfg {
    fn label(&self) -> String {
        format!("{}/{}/split={}", self.drv.kind(), simp_name(self.simp), self.split)
    }
    fn json(&self) -> Value {
        json!({"driver": self.drv.label(), "simp": simp_name(self.simp), "split_components": self.split})
    }
}

#[derive(Clone, Copy, Debug, PartialEq)]
pub enum Mode {
    Seq,
    Par(usize),
}

fn go<G: GraphLike, D: Driver>(d: &mut Decomposer<G>, drv: &D, par: bool) {
    if par {
        d.decompose_parallel(drv);
    } else {
        d.decompose(drv);
    }
}

fn decompose_with<G: GraphLike>(d: &mut Decomposer<G>, drv: &Drv, par: bool) {
    match drv {
        Drv::BssT { random } => go(d, &BssTOnlyDriver { random_t: *random }, par),
        Drv::Cats { random } => go(d, &BssWithCatsDriver { random_t: *random }, par),
        Drv::DynT => go(d, &DynamicTDriver, par),
        Drv::Sherlock(t) => go(d, &SherlockDriver { tries: t.clone() }, par),
        Drv::Cut => go(d, &SpiderCuttingDriver, par),
    }
}

fn run_once<G: GraphLike>(g: &G, cfg: &Cfg, mode: Mode, pools: &PoolSet) -> Result<Scalar4, Caught> {
    guard(|| {
        let mut d = Decomposer::new(g);
        d.with_simp(cfg.simp).with_split_graphs_components(cfg.split);
        match mode {
            Mode::Seq => decompose_with(&mut d, &cfg.drv, false),
            Mode::Par(k) => pools.get(k).install(|| decompose_with(&mut d, &cfg.drv, true)),
        }
        d.scalar()
    })
}

// ------------------------------------------------------------------------------------
// values
// ------------------------------------------------------------------------------------

fn scalar_matches(s: &Scalar4, expected: &Tens) -> bool {
    match expected {
        Tens::Exact(v) if !scalar_is_approx(s) => v.len() == 1 && r_of_scalar(s) == v[0],
        _ => eval::close(&[r_of_scalar(s).to_cf()], &expected.to_float(), FLOAT_TOL),
    }
}

fn scalars_equal(a: &Scalar4, b: &Scalar4) -> bool {
    if !scalar_is_approx(a) && !scalar_is_approx(b) {
        r_of_scalar(a) == r_of_scalar(b)
    } else {
        eval::close(&[r_of_scalar(a).to_cf()], &[r_of_scalar(b).to_cf()], FLOAT_TOL)
    }
}

fn scalar_json(s: &Scalar4) -> Value {
    let r = r_of_scalar(s);
    let c = r.to_cf();
    json!({"exact": format!("{r}"), "approx_flag": scalar_is_approx(s), "float": format!("{:.12}{:+.12}i", c.re, c.im)})
}

fn tens_json(t: &Tens) -> Value {
    let mut v = t.brief();
    if let Tens::Exact(x) = t {
        if x.len() <= 16 {
            v["entries_exact"] = json!(x.iter().map(|r| format!("{r}")).collect::<Vec<_>>());
        }
    }
    v
}

fn tens_sum(ts: &[Tens]) -> Option<Tens> {
    let n = ts.first()?.len();
    if ts.iter().any(|t| t.len() != n) {
        return None;
    }
    if ts.iter().all(|t| t.is_exact()) {
        let mut acc = vec![R::zero(); n];
        for t in ts {
            if let Tens::Exact(v) = t {
                for (a, x) in acc.iter_mut().zip(v.iter()) {
                    *a = a.add(x);
                }
            }
        }
        Some(Tens::Exact(acc))
    } else {
        let mut acc = vec![crate::oracle::ring::Cf::new(0.0, 0.0); n];
        for t in ts {
            for (a, x) in acc.iter_mut().zip(t.to_float().iter()) {
                *a += x;
            }
        }
        Some(Tens::Float(acc))
    }
}

// ------------------------------------------------------------------------------------
// step log (hook H3)
// ------------------------------------------------------------------------------------

#[derive(Default)]
struct KindStat {
    logged: u64,
    distinct_checked: u64,
    embedded: u64,
    open_pre: u64,
    on_pool_threads: u64,
    threads: HashSet<ThreadId>,
    max_pre_spiders: usize,
}

#[derive(Default)]
struct StepStats {
    kinds: BTreeMap<String, KindStat>,
    /// verdict per distinct event (hash of decomp + replaced diagram + terms)
    seen: HashMap<u64, Seen>,
    all_threads: HashSet<ThreadId>,
}

enum Seen {
    Pending,
    /// None = identity holds; Some(signature) = violation reported under that signature
    Done(Option<String>),
}

static STEPS: Mutex<Option<StepStats>> = Mutex::new(None);

fn with_steps<T>(f: impl FnOnce(&mut StepStats) -> T) -> T {
    let mut g = STEPS.lock().unwrap_or_else(|e| e.into_inner());
    f(g.get_or_insert_with(StepStats::default))
}

/// GraphSnap (hook type) -> neutral snapshot for the independent evaluator
pub fn snap_of_graphsnap(gs: &GraphSnap) -> Result<Snap, String> {
    let mut verts = vec![];
    for &(v, t, p) in &gs.vertices {
        let k = vk(t).ok_or_else(|| format!("vertex {v} has unsupported kind {t:?}"))?;
        let r = p.to_rational();
        verts.push((v, k, *r.numer(), *r.denom()));
    }
    verts.sort();
    let mut edges = vec![];
    for &(s, t, et) in &gs.edges {
        let k = match et {
            EType::N => EK::N,
            EType::H => EK::H,
            other => return Err(format!("edge ({s},{t}) has unsupported kind {other:?}")),
        };
        edges.push((s.min(t), s.max(t), k));
    }
    edges.sort();
    Ok(Snap {
        diag: Diag { verts, edges, inputs: gs.inputs.clone(), outputs: gs.outputs.clone() },
        scalar: r_of_scalar(&gs.scalar),
        scalar_approx: scalar_is_approx(&gs.scalar),
    })
}

/// "CatDecomp [3, 0, 1, 2]" -> ("CatDecomp", [3,0,1,2])
pub fn parse_decomp(s: &str) -> (String, Vec<usize>) {
    let (kind, rest) = s.split_once(' ').unwrap_or((s, "[]"));
    let inner = rest.trim().trim_start_matches('[').trim_end_matches(']');
    let vs = inner.split(',').filter_map(|x| x.trim().parse::<usize>().ok()).collect();
    (kind.to_string(), vs)
}

/// evidence key: kind / number of listed vertices (for cats also the hub phase, because the
/// pi-normalisation is a separate code path)
fn step_key(kind: &str, vs: &[usize], pre: &Diag) -> String {
    if kind == "CatDecomp" {
        let hub = vs.first().and_then(|h| pre.verts.iter().find(|v| v.0 == *h));
        let hp = match hub {
            Some(v) if v.2 == 0 => "0",
            Some(v) if v.2 == 1 && v.3 == 1 => "pi",
            _ => "other",
        };
        format!("{kind}/{}(hub={hp})", vs.len())
    } else {
        format!("{kind}/{}", vs.len())
    }
}

fn touched<'a>(kind: &str, vs: &'a [usize]) -> &'a [usize] {
    match kind {
        "Magic5FromCat" => &vs[..vs.len().min(5)],
        "TDecomp" if vs.len() >= 2 && vs.len() < 6 => &vs[..2],
        _ => vs,
    }
}

pub enum StepVerdict {
    Ok,
    Differs { pre: Tens, sum: Tens },
    Shape(String),
    IllFormedPre(String),
    IllFormedTerm(usize, String),
    TooWide,
    NoTerms,
}

pub fn judge_step(pre: &Snap, terms: &[Snap]) -> StepVerdict {
    let e_pre = match eval_snap(pre) {
        Ok(t) => t,
        Err(EvalError::IllFormed(m)) => return StepVerdict::IllFormedPre(m),
        Err(EvalError::TooWide(_)) => return StepVerdict::TooWide,
    };
    if terms.is_empty() {
        return StepVerdict::NoTerms;
    }
    let mut ets = vec![];
    for (i, t) in terms.iter().enumerate() {
        match eval_snap(t) {
            Ok(x) => {
                if x.len() != e_pre.len() {
                    return StepVerdict::Shape(format!("term {i} has {} entries, original {}", x.len(), e_pre.len()));
                }
                ets.push(x)
            }
            Err(EvalError::IllFormed(m)) => return StepVerdict::IllFormedTerm(i, m),
            Err(EvalError::TooWide(_)) => return StepVerdict::TooWide,
        }
    }
    let sum = tens_sum(&ets).expect("equal shapes");
    if sum.same(&e_pre, FLOAT_TOL) {
        StepVerdict::Ok
    } else {
        StepVerdict::Differs { pre: e_pre, sum }
    }
}

/// Signature key of a step: the evidence key, except that a failure pinned down by a
/// structural condition of the replaced diagram carries that condition instead of the size
/// (one root cause = one signature, whatever the cat size or the way the step was reached).
fn sig_key(kind: &str, vs: &[usize], pre: &Diag) -> String {
    if kind == "CatDecomp" && vs.len() >= 2 {
        let hub_pi = pre.verts.iter().any(|v| v.0 == vs[0] && v.2 == 1 && v.3 == 1);
        let is_b = |x: usize| pre.verts.iter().any(|v| v.0 == x && v.1 == VK::B);
        let first_next_to_boundary = pre.edges.iter().any(|e| (e.0 == vs[1] && is_b(e.1)) || (e.1 == vs[1] && is_b(e.0)));
        if hub_pi && first_next_to_boundary {
            return "CatDecomp(hub=pi,first-listed-T-neighbour-adjacent-to-boundary)".to_string();
        }
    }
    step_key(kind, vs, pre)
}

/// Report a step verdict; `origin` = "log" (hook H3) or "direct" (verif_apply_decomp).
/// Returns the signature when a violation was reported.
fn report_step(origin: &str, decomp: &str, key: &str, pre: &Snap, terms: &[Snap], v: StepVerdict, family: &str, index: u64) -> Option<String> {
    let c = ctx();
    let detail = |what: &str, extra: Value| {
        json!({"what": what, "origin": origin, "decomp": decomp, "pre": snap_json(pre),
               "terms": terms.iter().map(snap_json).collect::<Vec<_>>(), "extra": extra})
    };
    let (sig, det) = match v {
        StepVerdict::Ok => return None,
        StepVerdict::TooWide => {
            c.skipped();
            return None;
        }
        StepVerdict::Differs { pre: e, sum } => (
            format!("step|sum-of-terms-differs|{key}"),
            detail("sum of the terms' values differs from the value of the replaced diagram", json!({"expected_E_pre": tens_json(&e), "observed_sum": tens_json(&sum)})),
        ),
        StepVerdict::Shape(m) => (format!("step|term-arity-changed|{key}"), detail("a term has different open wires", json!(m))),
        StepVerdict::IllFormedPre(m) => (format!("step|ill-formed-diagram-reached|{key}"), detail("diagram handed to the step is ill-formed", json!(m))),
        StepVerdict::IllFormedTerm(i, m) => (format!("step|ill-formed-term|{key}"), detail("a term is ill-formed", json!({"term": i, "why": m}))),
        StepVerdict::NoTerms => (format!("step|no-terms|{key}"), detail("step produced no terms", json!(null))),
    };
    c.violation(&sig, family, index, det);
    Some(sig)
}

fn hash_step(decomp: &str, pre: &Snap, terms: &[Snap]) -> u64 {
    let mut h = DefaultHasher::new();
    decomp.hash(&mut h);
    let mut one = |s: &Snap| {
        s.diag.hash(&mut h);
        s.scalar.hash(&mut h);
        s.scalar_approx.hash(&mut h);
    };
    one(pre);
    for t in terms {
        one(t);
    }
    h.finish()
}

/// Events drained from the global log, sorted by the thread that produced them. A worker
/// collects the events of its own thread and of its leased pools after each run; because
/// draining and sorting happen under this one lock, the events of a finished run are all
/// in the worker's boxes whoever drained them.
static MAIL: Mutex<Option<HashMap<ThreadId, Vec<StepEvent>>>> = Mutex::new(None);

fn collect_events(mine: Option<&HashSet<ThreadId>>) -> Vec<StepEvent> {
    let mut g = MAIL.lock().unwrap_or_else(|e| e.into_inner());
    let m = g.get_or_insert_with(HashMap::new);
    for ev in quizx::verif::drain_step_log() {
        m.entry(ev.thread).or_default().push(ev);
    }
    let mut out = vec![];
    match mine {
        Some(ids) => {
            for id in ids {
                if let Some(v) = m.remove(id) {
                    out.extend(v);
                }
            }
        }
        None => {
            for (_, v) in m.drain() {
                out.extend(v);
            }
        }
    }
    out
}

/// Check the step identity on every event (identical events are evaluated once). Returns
/// the signatures of the step violations among them.
fn process_events(evs: Vec<StepEvent>, family: &str, index: u64) -> Vec<String> {
    let mut viols = vec![];
    if evs.is_empty() {
        return viols;
    }
    let c = ctx();
    let pool_threads: HashSet<ThreadId> = POOL_THREADS.lock().unwrap_or_else(|e| e.into_inner()).clone().unwrap_or_default();
    for ev in evs {
        let (kind, vs) = parse_decomp(&ev.decomp);
        let pre = match snap_of_graphsnap(&ev.pre) {
            Ok(s) => s,
            Err(m) => {
                let sig = format!("step|unrepresentable-diagram-reached|{kind}");
                c.violation(&sig, family, index, json!({"decomp": ev.decomp, "why": m, "pre": format!("{:?}", ev.pre)}));
                viols.push(sig);
                continue;
            }
        };
        let mut terms = vec![];
        let mut bad = None;
        for (i, t) in ev.terms.iter().enumerate() {
            match snap_of_graphsnap(t) {
                Ok(s) => terms.push(s),
                Err(m) => {
                    bad = Some((i, m));
                    break;
                }
            }
        }
        let key = step_key(&kind, &vs, &pre.diag);
        if let Some((i, m)) = bad {
            let sig = format!("step|unrepresentable-term|{key}");
            c.violation(&sig, family, index, json!({"decomp": ev.decomp, "term": i, "why": m, "pre": snap_json(&pre)}));
            viols.push(sig);
            continue;
        }
        let tv = touched(&kind, &vs);
        let embedded = pre.diag.edges.iter().any(|e| tv.contains(&e.0) != tv.contains(&e.1));
        let open = !pre.diag.inputs.is_empty() || !pre.diag.outputs.is_empty();
        let h = hash_step(&ev.decomp, &pre, &terms);
        let known = with_steps(|s| {
            let k = s.kinds.entry(key.clone()).or_default();
            k.logged += 1;
            if embedded {
                k.embedded += 1;
            }
            if open {
                k.open_pre += 1;
            }
            if pool_threads.contains(&ev.thread) {
                k.on_pool_threads += 1;
            }
            k.threads.insert(ev.thread);
            k.max_pre_spiders = k.max_pre_spiders.max(pre.diag.num_spiders());
            s.all_threads.insert(ev.thread);
            match s.seen.get(&h) {
                Some(Seen::Done(v)) => Some(v.clone()),
                Some(Seen::Pending) => None, // somebody else is evaluating it right now: evaluate too
                None => {
                    s.seen.insert(h, Seen::Pending);
                    s.kinds.get_mut(&key).unwrap().distinct_checked += 1;
                    None
                }
            }
        });
        let verdict: Option<String> = match known {
            Some(v) => v,
            None => {
                let v = judge_step(&pre, &terms);
                let sig = report_step("log", &ev.decomp, &sig_key(&kind, &vs, &pre.diag), &pre, &terms, v, family, index);
                with_steps(|s| {
                    s.seen.insert(h, Seen::Done(sig.clone()));
                });
                sig
            }
        };
        if let Some(sig) = verdict {
            if !viols.contains(&sig) {
                viols.push(sig);
            }
        }
    }
    viols
}

// ------------------------------------------------------------------------------------
// (i) + (ii): end-to-end on closed diagrams
// ------------------------------------------------------------------------------------

fn all_drivers(r: &mut Rng, tcount: usize) -> Vec<Drv> {
    // Sherlock evaluates every candidate with a full simplification at every step; on
    // large T-counts only the small candidate budgets are affordable
    let tries = if tcount > 9 { r.pick(&[[1, 1, 1], [2, 2, 2], [3, 0, 0]]).to_vec() } else { r.pick(&SHERLOCK_TRIES).to_vec() };
    vec![
        Drv::BssT { random: false },
        Drv::BssT { random: true },
        Drv::Cats { random: false },
        Drv::Cats { random: true },
        Drv::DynT,
        Drv::Sherlock(tries),
        Drv::Cut,
    ]
}

fn violation_detail(what: &str, cfg: &Cfg, mode: Mode, desc: &Value, extra: Value) -> Value {
    json!({"what": what, "config": cfg.json(), "mode": format!("{mode:?}"), "diagram": desc, "extra": extra})
}

/// Judge one run against E(d). Returns the scalar when the run completed.
fn judge_run(
    family: &'static str,
    index: u64,
    cfg: &Cfg,
    mode: Mode,
    res: Result<Scalar4, Caught>,
    expected: &Tens,
    desc: &Value,
    step_viols: &[String],
) -> Option<Scalar4> {
    let c = ctx();
    let call = if mode == Mode::Seq { "decompose" } else { "decompose_parallel" };
    match res {
        Err(Caught::Oracle(m)) => {
            c.inconclusive("oracle-error", json!({"msg": m}));
            None
        }
        Err(e @ Caught::Budget(_)) => {
            c.inconclusive("unexpected-budget", json!({"msg": e.text()}));
            None
        }
        Err(e @ Caught::Panic { .. }) => {
            c.violation(
                &format!("{call}|panic|{}|{}", cfg.drv.kind(), e.site()),
                family,
                index,
                violation_detail("panic", cfg, mode, desc, json!({"panic": e.text(), "expected": tens_json(expected)})),
            );
            None
        }
        Ok(s) => {
            if scalar_is_approx(&s) {
                c.count("result_flagged_approximate", 1);
            }
            if !scalar_matches(&s, expected) {
                if step_viols.is_empty() {
                    c.violation(
                        &format!("{call}|wrong-scalar|{}", cfg.label()),
                        family,
                        index,
                        violation_detail("scalar() differs from the value of the diagram", cfg, mode, desc, json!({"expected": tens_json(expected), "observed": scalar_json(&s)})),
                    );
                } else {
                    // one of this run's own steps already violated the step identity and was
                    // reported under its own signature: same root cause, not reported twice
                    c.count("wrong_results_explained_by_a_step_violation_of_the_same_run", 1);
                }
            }
            Some(s)
        }
    }
}

#[derive(Clone, Copy)]
struct Plan {
    /// probability that a configuration gets the full thread sweep (all k, `reps` each)
    full_sweep: f64,
    reps: usize,
}

/// Run all configurations on one closed diagram. Returns the number of runs executed.
fn check_closed<G: GraphLike>(family: &'static str, index: u64, r: &mut Rng, g: &G, desc: &Value, simps: &[SimpFunc], plan: Plan, tcount: usize) -> u64 {
    let c = ctx();
    let expected = match crate::snap::eval_graph(g) {
        Ok(t) => t,
        Err(EvalError::TooWide(_)) => {
            c.skipped();
            return 0;
        }
        Err(EvalError::IllFormed(m)) => {
            c.harness_error(&format!("generator produced ill-formed diagram in {family}#{index}: {m}"));
            return 0;
        }
    };
    if expected.len() != 1 {
        c.harness_error(&format!("generator produced a non-closed diagram in {family}#{index}"));
        return 0;
    }
    let lease = Lease::take();
    let pools = lease.set();
    let mut runs = 0u64;
    for drv in all_drivers(r, tcount) {
        for &simp in simps {
            for split in [false, true] {
                if c.out_of_time() {
                    return runs;
                }
                let cfg = Cfg { drv: drv.clone(), simp, split };
                // exponential drivers on large T-counts get a lighter sweep
                let heavy = tcount > 9 && matches!(cfg.drv, Drv::Cut | Drv::Sherlock(_) | Drv::DynT);
                if heavy && tcount > 10 && simp == SimpFunc::NoSimp && r.chance(0.5) {
                    // 2^T terms without simplification: thinned out to keep a case well inside the watchdog
                    c.count("heavy_configs_thinned_out", 1);
                    continue;
                }
                let res = run_once(g, &cfg, Mode::Seq, pools);
                let sv_seq = process_events(collect_events(Some(&pools.my_threads())), family, index);
                let seq = judge_run(family, index, &cfg, Mode::Seq, res, &expected, desc, &sv_seq);
                runs += 1;
                c.count(&format!("config:{}/seq", cfg.label()), 1);
                let mut par_modes: Vec<usize> = vec![];
                if !heavy && r.chance(plan.full_sweep) {
                    for &k in &KS {
                        for _ in 0..plan.reps {
                            par_modes.push(k);
                        }
                    }
                } else {
                    par_modes.push(*r.pick(&KS));
                }
                for k in par_modes {
                    let mode = Mode::Par(k);
                    let res = run_once(g, &cfg, mode, pools);
                    let sv_par = process_events(collect_events(Some(&pools.my_threads())), family, index);
                    let res = judge_run(family, index, &cfg, mode, res, &expected, desc, &sv_par);
                    runs += 1;
                    c.count(&format!("config:{}/par", cfg.label()), 1);
                    c.count(&format!("par_runs:k={k:02}"), 1);
                    if let (Some(p), Some(s)) = (res, seq) {
                        if !scalars_equal(&p, &s) && sv_seq.is_empty() && sv_par.is_empty() {
                            c.violation(
                                &format!("decompose_parallel|differs-from-sequential|{}", cfg.label()),
                                family,
                                index,
                                violation_detail(
                                    "parallel result differs from sequential result",
                                    &cfg,
                                    mode,
                                    desc,
                                    json!({"sequential": scalar_json(&s), "parallel": scalar_json(&p), "expected": tens_json(&expected)}),
                                ),
                            );
                        }
                    }
                }
            }
        }
    }
    runs
}

fn closed_case(family: &'static str, fam: TFam, index: u64, r: &mut Rng, max_t: usize, max_sp: usize, plan: Plan) {
    let c = ctx();
    let d = gen_closed(r, fam, max_t, max_sp);
    let desc = d.to_json();
    let tc = tdiag::tcount(&d);
    let all = [SimpFunc::NoSimp, SimpFunc::CliffordSimp, SimpFunc::FullSimp];
    // every fourth diagram in the hash backend
    let runs = if index % 4 == 3 {
        let (g, _) = d.build::<quizx::hash_graph::Graph>(None);
        c.count("backend:hash", 1);
        check_closed(family, index, r, &g, &desc, &all, plan, tc)
    } else {
        let scr = if r.chance(0.3) { Some(r.next_u64()) } else { None };
        let (g, _) = d.build::<quizx::vec_graph::Graph>(scr);
        c.count("backend:vec", 1);
        check_closed(family, index, r, &g, &desc, &all, plan, tc)
    };
    if runs == 0 {
        return;
    }
    let nontrivial = tc >= 1 && d.num_spiders() >= 2;
    c.case(family, if nontrivial { Some(d.hash()) } else { None });
    c.evals(runs.saturating_sub(1));
    c.count(&format!("tcount[{}]:{tc:02}", if family == "circuit-plugged" { "circuit-plugged" } else { "closed-generated" }), 1);
    c.maximum("max_tcount", tc as u64);
    c.sample_n(5, || json!({"family": family, "index": index, "diagram": desc, "tcount": tc, "runs": runs}));
}

/// Sherlock without simplification on T-dense diagrams (T-count 7-9): the driver is
/// randomised and chains decompositions of different kinds on the same branch (a Magic5 term
/// turns T spiders into Pauli spiders joined by plain edges, which the next matcher then
/// sees), so each diagram is decomposed several times, sequentially, with the step log on:
/// every step is checked against the sum of its terms, every result against E(d).
fn sherlock_case(family: &'static str, index: u64, r: &mut Rng, reps: usize) {
    let c = ctx();
    let mut d = None;
    for _ in 0..40 {
        let fam = *r.pick(&[TFam::TOnly, TFam::TOnly, TFam::Random, TFam::Cats]);
        let cand = gen_closed(r, fam, 9, 11);
        if tdiag::tcount(&cand) >= 7 {
            d = Some(cand);
            break;
        }
    }
    let Some(d) = d else {
        c.skipped();
        return;
    };
    let desc = d.to_json();
    let tc = tdiag::tcount(&d);
    let (g, _) = d.build::<quizx::vec_graph::Graph>(None);
    let expected = match crate::snap::eval_graph(&g) {
        Ok(t) if t.len() == 1 => t,
        _ => {
            c.skipped();
            return;
        }
    };
    let lease = Lease::take();
    let pools = lease.set();
    let mut runs = 0u64;
    for _ in 0..reps {
        if c.out_of_time() {
            break;
        }
        let tries = r.pick(&[[1usize, 1, 1], [2, 2, 2], [3, 0, 0], [1, 0, 2], [2, 3, 0]]).to_vec();
        let cfg = Cfg { drv: Drv::Sherlock(tries), simp: SimpFunc::NoSimp, split: r.chance(0.3) };
        let res = run_once(&g, &cfg, Mode::Seq, pools);
        let sv = process_events(collect_events(Some(&pools.my_threads())), family, index);
        let _ = judge_run(family, index, &cfg, Mode::Seq, res, &expected, &desc, &sv);
        runs += 1;
        if !sv.is_empty() {
            break;
        }
    }
    c.case(family, Some(d.hash()));
    c.evals(runs.saturating_sub(1));
    c.count(&format!("tcount[sherlock-nosimp]:{tc:02}"), 1);
}

/// Schedule stress: one diagram with a T-count above the usual range, one configuration, one
/// sequential run judged against E(d), then `reps` parallel runs spread over the pool sizes,
/// each judged against E(d) and against the sequential result. The step log is off in this
/// family (the caller switches it), so the runs are as fast — and the windows between
/// sibling tasks as narrow — as in production.
fn stress_case(family: &'static str, index: u64, r: &mut Rng, min_t: usize, max_t: usize, max_sp: usize, reps: usize) {
    let c = ctx();
    let mut d = None;
    for _ in 0..40 {
        let fam = *r.pick(&[TFam::Random, TFam::Cats, TFam::Gadgets, TFam::TPair, TFam::TOnly, TFam::Multi]);
        let cand = gen_closed(r, fam, max_t, max_sp);
        if tdiag::tcount(&cand) >= min_t {
            d = Some(cand);
            break;
        }
    }
    let Some(d) = d else {
        c.skipped();
        return;
    };
    let desc = d.to_json();
    let tc = tdiag::tcount(&d);
    let (g, _) = d.build::<quizx::vec_graph::Graph>(None);
    let expected = match crate::snap::eval_graph(&g) {
        Ok(t) if t.len() == 1 => t,
        _ => {
            c.skipped();
            return;
        }
    };
    // polynomial-ish drivers mostly; the exponential ones only with a simplifier and a modest T-count
    let drv = match r.below(10) {
        0..=2 => Drv::BssT { random: false },
        3 => Drv::BssT { random: true },
        4..=5 => Drv::Cats { random: false },
        6 => Drv::Cats { random: true },
        7 => Drv::DynT,
        8 if tc <= 12 => Drv::Cut,
        _ => Drv::BssT { random: false },
    };
    let simp = if matches!(drv, Drv::Cut | Drv::DynT) { *r.pick(&[SimpFunc::CliffordSimp, SimpFunc::FullSimp]) } else { *r.pick(&[SimpFunc::NoSimp, SimpFunc::CliffordSimp, SimpFunc::FullSimp]) };
    let cfg = Cfg { drv, simp, split: r.chance(0.5) };
    let lease = Lease::take();
    let pools = lease.set();
    let res = run_once(&g, &cfg, Mode::Seq, pools);
    let Some(seq) = judge_run(family, index, &cfg, Mode::Seq, res, &expected, &desc, &[]) else {
        return;
    };
    let mut runs = 1u64;
    const STRESS_KS: [usize; 5] = [2, 3, 4, 8, 16];
    for rep in 0..reps {
        if c.out_of_time() {
            break;
        }
        let k = STRESS_KS[rep % STRESS_KS.len()];
        let mode = Mode::Par(k);
        let res = run_once(&g, &cfg, mode, pools);
        runs += 1;
        c.count(&format!("stress_par_runs:k={k:02}"), 1);
        if let Some(p) = judge_run(family, index, &cfg, mode, res, &expected, &desc, &[]) {
            if !scalars_equal(&p, &seq) {
                c.violation(
                    &format!("decompose_parallel|differs-from-sequential|{}", cfg.label()),
                    family,
                    index,
                    violation_detail(
                        "parallel result differs from sequential result (schedule stress)",
                        &cfg,
                        mode,
                        &desc,
                        json!({"sequential": scalar_json(&seq), "parallel": scalar_json(&p), "expected": tens_json(&expected), "repetition": rep}),
                    ),
                );
                break;
            }
        }
    }
    c.case(family, Some(d.hash()));
    c.evals(runs.saturating_sub(1));
    c.count(&format!("tcount[parallel-stress]:{tc:02}"), 1);
    c.count(&format!("stress_config:{}", cfg.label()), 1);
    c.maximum("max_tcount_stress", tc as u64);
}

/// Bring the number of T-like gates of a circuit to `target`: surplus T-like gates become
/// their Clifford neighbours, missing ones are inserted at random places.
fn shape_tcount(r: &mut Rng, circ: &mut Circ, target: usize) {
    let weight = |g: &G| -> usize {
        match g {
            G::T(_) | G::Tdg(_) => 1,
            G::Rz(_, p) | G::Rx(_, p) | G::Pp(_, p) if p.1 == 4 => 1,
            G::Ccz(..) | G::Ccx(..) => 7,
            _ => 0,
        }
    };
    loop {
        let total: usize = circ.gates.iter().map(weight).sum();
        if total <= target {
            break;
        }
        let idx: Vec<usize> = (0..circ.gates.len()).filter(|&i| weight(&circ.gates[i]) > 0).collect();
        let i = *r.pick(&idx);
        circ.gates[i] = match circ.gates[i].clone() {
            G::T(q) | G::Tdg(q) => G::S(q),
            G::Rz(q, _) => G::Rz(q, (1, 2)),
            G::Rx(q, _) => G::Rx(q, (-1, 2)),
            G::Pp(qs, _) => G::Pp(qs, (1, 2)),
            G::Ccz(a, b, _) | G::Ccx(a, b, _) => G::Cz(a, b),
            other => other,
        };
    }
    let mut total: usize = circ.gates.iter().map(weight).sum();
    while total < target && circ.n > 0 {
        let pos = r.below(circ.gates.len() + 1);
        let q = r.below(circ.n);
        let g = match r.below(5) {
            0 => G::T(q),
            1 => G::Tdg(q),
            2 => G::Rz(q, *r.pick(&[(3, 4), (-3, 4)])),
            3 => G::Rx(q, *r.pick(&tdiag::T_PHASES)),
            _ => G::T(q),
        };
        circ.gates.insert(pos, g);
        total += 1;
    }
}

/// plugged Clifford+T circuits: only with a simplification level enabled
fn circuit_case(family: &'static str, index: u64, r: &mut Rng, max_t: usize, max_q: usize, max_d: usize, plan: Plan) {
    let c = ctx();
    let mut depth = max_d;
    for _attempt in 0..6 {
        let p = CircParams {
            min_qubits: 1,
            max_qubits: max_q,
            max_depth: depth,
            pool: PhPool::Exact,
            clifford_t: true,
            rotations: true,
            swap: true,
            xcx: true,
            ccz: max_t >= 7 && r.chance(0.2),
            pp: true,
            ancilla: false,
            measure: false,
        };
        let mut circ = gen_circuit(r, &p);
        let target = 1 + r.below(max_t.max(1));
        shape_tcount(r, &mut circ, target);
        let qc = to_quizx(&circ);
        let states = [BasisElem::Z0, BasisElem::Z1, BasisElem::X0, BasisElem::X1];
        let ins: Vec<BasisElem> = (0..circ.n).map(|_| *r.pick(&states)).collect();
        let outs: Vec<BasisElem> = (0..circ.n).map(|_| *r.pick(&states)).collect();
        // quizx's own translation/plugging is only an input generator here: the oracle
        // evaluates the resulting closed diagram itself
        let built = guard(|| {
            let mut g: quizx::vec_graph::Graph = qc.to_graph();
            g.plug_inputs(&ins);
            g.plug_outputs(&outs);
            g
        });
        let g = match built {
            Ok(g) => g,
            Err(_) => {
                c.skipped();
                return;
            }
        };
        let s = match snap(&g) {
            Ok(s) => s,
            Err(_) => {
                c.skipped();
                return;
            }
        };
        let tc = s.diag.verts.iter().filter(|v| v.1 != VK::B && v.3 == 4).count();
        if tc > max_t || !s.diag.all_phases_pi4() {
            depth = (depth / 2).max(2);
            continue;
        }
        let desc = json!({"circuit": circ_json(&circ), "plug_inputs": format!("{ins:?}"), "plug_outputs": format!("{outs:?}"), "graph": graph_json(&g)});
        let simps = [SimpFunc::CliffordSimp, SimpFunc::FullSimp];
        let runs = check_closed(family, index, r, &g, &desc, &simps, plan, tc);
        if runs == 0 {
            return;
        }
        let h = circ_hash(&circ) ^ crate::gen::prng::hash_str(&format!("{ins:?}{outs:?}"));
        c.case(family, if tc >= 1 { Some(h) } else { None });
        c.evals(runs.saturating_sub(1));
        c.count(&format!("tcount[{}]:{tc:02}", if family == "circuit-plugged" { "circuit-plugged" } else { "closed-generated" }), 1);
        c.sample_n(6, || json!({"family": family, "index": index, "case": desc, "tcount": tc, "runs": runs}));
        return;
    }
    c.skipped();
}

// ------------------------------------------------------------------------------------
// (iii-b): direct drive of verif_apply_decomp
// ------------------------------------------------------------------------------------

fn pick_distinct(r: &mut Rng, xs: &[V], k: usize) -> Vec<V> {
    let mut v = xs.to_vec();
    r.shuffle(&mut v);
    v.truncate(k);
    v
}

/// Candidate (Decomp, tag) pairs valid on g. `closed` hosts get every kind; hosts with
/// outputs only the kinds the BSS-type drivers use.
fn direct_candidates<G: GraphLike>(r: &mut Rng, g: &G, closed: bool) -> Vec<(Decomp, &'static str)> {
    use quizx::graph::VType;
    let spiders: Vec<V> = g.vertices().filter(|&v| g.vertex_type(v) == VType::Z).collect();
    let ts: Vec<V> = spiders.iter().copied().filter(|&v| *g.phase(v).to_rational().denom() == 4).collect();
    let mut out: Vec<(Decomp, &'static str)> = vec![];
    if !ts.is_empty() {
        out.push((Decomp::SingleDecomp(pick_distinct(r, &ts, 1)), "t"));
        let n = 1 + r.below(ts.len().min(6));
        out.push((Decomp::TDecomp(pick_distinct(r, &ts, n)), "t"));
        if closed {
            out.push((Decomp::SpiderCuttingDecomp(pick_distinct(r, &ts, 1)), "t"));
        }
    }
    if ts.len() >= 2 {
        out.push((Decomp::SymDecomp(pick_distinct(r, &ts, 2)), "t"));
    }
    if ts.len() >= 5 {
        out.push((Decomp::Magic5FromCat(pick_distinct(r, &ts, 5)), "t"));
    }
    if ts.len() >= 6 {
        out.push((Decomp::BssDecomp(pick_distinct(r, &ts, 6)), "t"));
        out.push((Decomp::TDecomp(pick_distinct(r, &ts, 6)), "t"));
    }
    // cats: Pauli hub joined by H edges to 3..=6 T spiders and to nothing else
    for &h in &spiders {
        let ph = g.phase(h).to_rational();
        if *ph.denom() != 1 {
            continue;
        }
        let mut nb = g.neighbor_vec(h);
        if nb.len() < 3 || nb.len() > 6 {
            continue;
        }
        if nb.iter().all(|&n| g.vertex_type(n) == VType::Z && *g.phase(n).to_rational().denom() == 4 && g.edge_type(h, n) == EType::H) {
            r.shuffle(&mut nb);
            let mut l = vec![h];
            l.extend(nb);
            out.push((Decomp::CatDecomp(l), "cat"));
        }
    }
    if closed {
        // T-pair: vs0 (non-empty) completely joined by H edges to the pair {v, w}
        let mut found_shaped = false;
        let mut found_general = false;
        let mut order = spiders.clone();
        r.shuffle(&mut order);
        'outer: for &v in &order {
            for &w in &order {
                if v == w {
                    continue;
                }
                let common: Vec<V> = g
                    .neighbor_vec(v)
                    .into_iter()
                    .filter(|&m| m != w && g.vertex_type(m) == VType::Z && g.connected(m, w) && g.edge_type(m, v) == EType::H && g.edge_type(m, w) == EType::H)
                    .collect();
                if common.is_empty() {
                    continue;
                }
                let is_t = |x: V| *g.phase(x).to_rational().denom() == 4;
                let shaped: Vec<V> = common.iter().copied().filter(|&m| is_t(m) && g.degree(m) == 2).collect();
                if !found_shaped && is_t(v) && !is_t(w) && !shaped.is_empty() {
                    // the list DynamicTDriver would build: all such common vertices, then v, w
                    let mut l = shaped.clone();
                    l.push(v);
                    l.push(w);
                    out.push((Decomp::TPairDecomp(l), "driver-shaped"));
                    found_shaped = true;
                }
                if !found_general {
                    let k = 1 + r.below(common.len());
                    let mut l = pick_distinct(r, &common, k);
                    l.push(v);
                    l.push(w);
                    out.push((Decomp::TPairDecomp(l), "general"));
                    found_general = true;
                }
                if found_shaped && found_general {
                    break 'outer;
                }
            }
        }
        // single cut / spider cutting on a spider of any k*pi/4 phase (the code accepts
        // denominators 1, 2, 4 explicitly)
        if !spiders.is_empty() {
            out.push((Decomp::SingleDecomp(pick_distinct(r, &spiders, 1)), "any-phase"));
            out.push((Decomp::SpiderCuttingDecomp(pick_distinct(r, &spiders, 1)), "any-phase"));
        }
    }
    out
}

fn direct_case(family: &'static str, index: u64, r: &mut Rng, max_t: usize, max_sp: usize) {
    let fam = *r.pick(&tdiag::ALL_FAMS);
    let mut d = gen_closed(r, fam, max_t, max_sp);
    let closed = !(r.chance(0.35) && add_outputs(&mut d, r, 3));
    let scr = if r.chance(0.3) { Some(r.next_u64()) } else { None };
    let (g, _) = d.build::<quizx::vec_graph::Graph>(scr);
    let cands = direct_candidates(r, &g, closed);
    direct_check(family, index, &d, &g, cands);
}

/// Apply each candidate step to `g` through `verif_apply_decomp` and check the identity.
fn direct_check<G: GraphLike>(family: &'static str, index: u64, d: &DDesc, g: &G, cands: Vec<(Decomp, &'static str)>) {
    let c = ctx();
    let desc = d.to_json();
    let pre = match snap(g) {
        Ok(s) => s,
        Err(m) => {
            c.harness_error(&format!("unsnappable generated host: {m}"));
            return;
        }
    };
    let mut n = 0u64;
    for (dec, tag) in cands {
        let (kind, vs) = parse_decomp(&dec.to_string());
        let key = format!("{}[{tag}]", step_key(&kind, &vs, &pre.diag));
        let res = guard(|| verif_apply_decomp(g, &dec));
        n += 1;
        c.count(&format!("direct:{key}"), 1);
        match res {
            Err(Caught::Panic { msg, loc }) => {
                let e = Caught::Panic { msg, loc };
                c.violation(
                    &format!("verif_apply_decomp|panic|{key}|{}", e.site()),
                    family,
                    index,
                    json!({"what": "panic in a decomposition step on a valid vertex list", "decomp": dec.to_string(), "host": desc, "pre": snap_json(&pre), "panic": e.text()}),
                );
            }
            Err(e) => c.inconclusive("oracle-error", json!({"msg": e.text()})),
            Ok(terms) => {
                let mut ts = vec![];
                let mut ok = true;
                for (i, t) in terms.iter().enumerate() {
                    match snap(t) {
                        Ok(s) => ts.push(s),
                        Err(m) => {
                            ok = false;
                            c.violation(
                                &format!("step|unrepresentable-term|{key}"),
                                family,
                                index,
                                json!({"decomp": dec.to_string(), "term": i, "why": m, "host": desc}),
                            );
                            break;
                        }
                    }
                }
                if ok {
                    let v = judge_step(&pre, &ts);
                    report_step("direct", &dec.to_string(), &sig_key(&kind, &vs, &pre.diag), &pre, &ts, v, family, index);
                }
            }
        }
    }
    if n > 0 {
        let tc = tdiag::tcount(d);
        c.case(family, if tc >= 1 { Some(d.hash() ^ 0xD1) } else { None });
        c.evals(n - 1);
    }
}

// ------------------------------------------------------------------------------------
// (iv): saved terms
// ------------------------------------------------------------------------------------

fn saved_case(family: &'static str, index: u64, r: &mut Rng, max_t: usize, max_sp: usize) {
    let c = ctx();
    let fam = *r.pick(&tdiag::ALL_FAMS);
    let mut d = gen_closed(r, fam, max_t, max_sp);
    if !add_outputs(&mut d, r, 3) {
        c.skipped();
        return;
    }
    let scr = if r.chance(0.3) { Some(r.next_u64()) } else { None };
    let (g, _) = d.build::<quizx::vec_graph::Graph>(scr);
    saved_check(family, index, &d, &g);
}

/// Saved-terms clause on one graph-like diagram with outputs: BSS-type drivers x simp
/// levels, `with_save(true)`, sequential.
fn saved_check<G: GraphLike>(family: &'static str, index: u64, d: &DDesc, g: &G) {
    let c = ctx();
    let desc = d.to_json();
    let expected = match crate::snap::eval_graph(g) {
        Ok(t) => t,
        Err(EvalError::TooWide(_)) => {
            c.skipped();
            return;
        }
        Err(EvalError::IllFormed(m)) => {
            c.harness_error(&format!("generator produced ill-formed diagram in {family}#{index}: {m}"));
            return;
        }
    };
    let h_edges = d.edges.iter().any(|e| e.2 == EK::H && (d.verts[e.0].kind == VK::B || d.verts[e.1].kind == VK::B));
    let drivers = [Drv::BssT { random: false }, Drv::BssT { random: true }, Drv::Cats { random: false }, Drv::Cats { random: true }];
    let mut runs = 0u64;
    for drv in drivers.iter() {
        for simp in [SimpFunc::NoSimp, SimpFunc::CliffordSimp, SimpFunc::FullSimp] {
            let cfg = Cfg { drv: drv.clone(), simp, split: false };
            let res = guard(|| {
                let mut dc = Decomposer::new(g);
                dc.with_simp(simp).with_save(true);
                decompose_with(&mut dc, drv, false);
                (dc.done.clone(), dc.nterms)
            });
            let me: HashSet<ThreadId> = [std::thread::current().id()].into_iter().collect();
            let step_viols = process_events(collect_events(Some(&me)), family, index);
            runs += 1;
            c.count(&format!("saved:{}/{}", drv.kind(), simp_name(simp)), 1);
            let det = |what: &str, extra: Value| json!({"what": what, "config": cfg.json(), "with_save": true, "diagram": desc, "extra": extra});
            match res {
                Err(Caught::Panic { msg, loc }) => {
                    let e = Caught::Panic { msg, loc };
                    c.violation(&format!("saved-terms|panic|{}|{}", drv.kind(), e.site()), family, index, det("panic", json!(e.text())));
                }
                Err(e) => c.inconclusive("oracle-error", json!({"msg": e.text()})),
                Ok((done, _nterms)) => {
                    c.count("saved:terms_total", done.len() as u64);
                    c.maximum("saved:max_terms_in_one_run", done.len() as u64);
                    let mut ets = vec![];
                    let mut ok = true;
                    for (i, t) in done.iter().enumerate() {
                        let s = match snap(t) {
                            Ok(s) => s,
                            Err(m) => {
                                c.violation(&format!("saved-terms|unrepresentable-term|{}", drv.kind()), family, index, det("saved term not representable", json!({"term": i, "why": m})));
                                ok = false;
                                break;
                            }
                        };
                        let nt = s.diag.verts.iter().filter(|v| v.1 != VK::B && !(v.3 == 1 || v.3 == 2)).count();
                        if nt != 0 {
                            c.violation(
                                &format!("saved-terms|term-not-clifford|{}/{}", drv.kind(), simp_name(simp)),
                                family,
                                index,
                                det("saved term has non-Clifford phases", json!({"term": i, "non_clifford_spiders": nt, "term_graph": snap_json(&s)})),
                            );
                            ok = false;
                            break;
                        }
                        match eval_snap(&s) {
                            Ok(t) => {
                                if t.len() != expected.len() {
                                    c.violation(
                                        &format!("saved-terms|term-arity-changed|{}/{}", drv.kind(), simp_name(simp)),
                                        family,
                                        index,
                                        det("saved term has different open wires", json!({"term": i, "term_graph": snap_json(&s)})),
                                    );
                                    ok = false;
                                    break;
                                }
                                ets.push(t)
                            }
                            Err(EvalError::IllFormed(m)) => {
                                c.violation(
                                    &format!("saved-terms|ill-formed-term|{}/{}", drv.kind(), simp_name(simp)),
                                    family,
                                    index,
                                    det("saved term is ill-formed", json!({"term": i, "why": m, "term_graph": snap_json(&s)})),
                                );
                                ok = false;
                                break;
                            }
                            Err(EvalError::TooWide(_)) => {
                                c.skipped();
                                ok = false;
                                break;
                            }
                        }
                    }
                    if ok {
                        let sum = if ets.is_empty() {
                            // no terms: the sum is the zero map
                            match &expected {
                                Tens::Exact(v) => Tens::Exact(vec![R::zero(); v.len()]),
                                Tens::Float(v) | Tens::FloatN(v, _) => Tens::Float(vec![crate::oracle::ring::Cf::new(0.0, 0.0); v.len()]),
                            }
                        } else {
                            tens_sum(&ets).expect("equal shapes")
                        };
                        if !sum.same(&expected, FLOAT_TOL) && !step_viols.is_empty() {
                            // same root cause as the step violation already reported for this run
                            c.count("saved:wrong_sums_explained_by_a_step_violation_of_the_same_run", 1);
                        } else if !sum.same(&expected, FLOAT_TOL) {
                            c.violation(
                                &format!("saved-terms|sum-differs|{}/{}", drv.kind(), simp_name(simp)),
                                family,
                                index,
                                det(
                                    "sum of the saved Clifford terms differs from the original map",
                                    json!({"expected": tens_json(&expected), "observed_sum": tens_json(&sum), "num_terms": done.len(), "boundary_h_edges": h_edges}),
                                ),
                            );
                        }
                    }
                }
            }
        }
    }
    let tc = tdiag::tcount(d);
    c.case(family, if tc >= 1 { Some(d.hash() ^ 0x5A) } else { None });
    c.evals(runs.saturating_sub(1));
    c.count("saved:cases", 1);
    if h_edges {
        c.count("saved:cases_with_hadamard_boundary_edge", 1);
    }
    c.count(&format!("saved:outputs={}", d.outputs.len()), 1);
}

// ------------------------------------------------------------------------------------
// deterministic grid: one cat attached to outputs (steps + saved terms)
// ------------------------------------------------------------------------------------

/// hub phase {0, pi} x cat size {3,4,5,6} x output on T neighbour {first, second, last} x
/// boundary edge {plain, Hadamard} x T-phase pattern {all pi/4, mixed} x extra edges among the
/// T spiders {no, yes} x a second output {no, yes}
pub const CAT_GRID: usize = 2 * 4 * 3 * 2 * 2 * 2 * 2;

/// Staged completion: `decompose_until_depth(k)` leaves a tree of partial results
/// (Sum / Prod nodes over undecomposed graphs), `decompose` / `decompose_parallel` then
/// finishes it; `decompose_standard` is the library's default way "to completion". Both
/// must give exactly E(d), like the one-shot runs.
fn staged_case(family: &'static str, fam: TFam, index: u64, r: &mut Rng, max_t: usize, max_sp: usize) {
    let c = ctx();
    let d = gen_closed(r, fam, max_t, max_sp);
    let desc = d.to_json();
    let tc = tdiag::tcount(&d);
    let (g, _) = d.build::<quizx::vec_graph::Graph>(None);
    let expected = match crate::snap::eval_graph(&g) {
        Ok(t) => t,
        Err(_) => {
            c.skipped();
            return;
        }
    };
    let lease = Lease::take();
    let mut runs = 0u64;
    let drivers = [Drv::BssT { random: false }, Drv::Cats { random: false }, Drv::DynT, Drv::Cut, Drv::Sherlock(SHERLOCK_TRIES[r.below(3)].to_vec())];
    for drv in drivers.iter() {
        for &simp in &[SimpFunc::NoSimp, SimpFunc::CliffordSimp, SimpFunc::FullSimp] {
            for &split in &[false, true] {
                let depth = 1 + r.below(3) as i64;
                let par = r.chance(0.4);
                let k = *r.pick(&KS);
                let cfg = Cfg { drv: drv.clone(), simp, split };
                let res = guard(|| {
                    let mut dec = Decomposer::new(&g);
                    dec.with_simp(simp).with_split_graphs_components(split);
                    match drv {
                        Drv::BssT { random } => {
                            dec.decompose_until_depth(depth, &BssTOnlyDriver { random_t: *random });
                        }
                        Drv::Cats { random } => {
                            dec.decompose_until_depth(depth, &BssWithCatsDriver { random_t: *random });
                        }
                        Drv::DynT => {
                            dec.decompose_until_depth(depth, &DynamicTDriver);
                        }
                        Drv::Sherlock(t) => {
                            dec.decompose_until_depth(depth, &SherlockDriver { tries: t.clone() });
                        }
                        Drv::Cut => {
                            dec.decompose_until_depth(depth, &SpiderCuttingDriver);
                        }
                    }
                    if par {
                        lease.set().get(k).install(|| decompose_with(&mut dec, drv, true));
                    } else {
                        decompose_with(&mut dec, drv, false);
                    }
                    dec.scalar()
                });
                runs += 1;
                c.count(&format!("staged:{}:depth={depth}:{}", drv.kind(), if par { "then-parallel" } else { "then-sequential" }), 1);
                let det = |what: &str, extra: Value| json!({"what": what, "config": cfg.json(), "staged_depth": depth, "completion": if par { format!("parallel({k})") } else { "sequential".into() }, "diagram": desc, "expected": tens_json(&expected), "extra": extra});
                match res {
                    Err(Caught::Oracle(m)) => c.inconclusive("oracle-error", json!({"msg": m})),
                    Err(e) => c.violation(&format!("decompose_until_depth+decompose|panic|{}|{}", e.site(), cfg.label()), family, index, det("panic", json!(e.text()))),
                    Ok(s) => {
                        if !scalar_matches(&s, &expected) {
                            c.violation(&format!("decompose_until_depth+decompose|wrong-scalar|{}", cfg.label()), family, index, det("staged decomposition returns a wrong scalar", scalar_json(&s)));
                        }
                    }
                }
            }
        }
    }
    // decompose_standard
    for &simp in &[SimpFunc::NoSimp, SimpFunc::CliffordSimp, SimpFunc::FullSimp] {
        for &split in &[false, true] {
            let res = guard(|| {
                // the other construction path: empty() + set_target, and the alias setters
                let mut dec = Decomposer::empty();
                dec.set_target(g.clone());
                match simp {
                    SimpFunc::FullSimp => {
                        dec.with_full_simp();
                    }
                    SimpFunc::CliffordSimp => {
                        dec.with_clifford_simp();
                    }
                    SimpFunc::NoSimp => {
                        dec.with_simp(SimpFunc::NoSimp);
                    }
                }
                dec.with_split_graphs_components(split);
                dec.decompose_standard();
                dec.scalar()
            });
            runs += 1;
            c.count("staged:decompose_standard", 1);
            let det = |what: &str, extra: Value| json!({"what": what, "simp": simp_name(simp), "split_components": split, "diagram": desc, "expected": tens_json(&expected), "extra": extra});
            match res {
                Err(Caught::Oracle(m)) => c.inconclusive("oracle-error", json!({"msg": m})),
                Err(e) => c.violation(&format!("decompose_standard|panic|{}|{}/split={split}", e.site(), simp_name(simp)), family, index, det("panic", json!(e.text()))),
                Ok(s) => {
                    if !scalar_matches(&s, &expected) {
                        c.violation(&format!("decompose_standard|wrong-scalar|{}/split={split}", simp_name(simp)), family, index, det("decompose_standard returns a wrong scalar", scalar_json(&s)));
                    }
                }
            }
        }
    }
    drop(lease);
    process_events(collect_events(None), family, index);
    c.case(family, if tc >= 1 && d.num_spiders() >= 2 { Some(d.hash() ^ 0x57a6ed) } else { None });
    c.evals(runs.saturating_sub(1));
}

fn cat_grid_case(family: &'static str, index: u64) {
    let mut i = index as usize;
    let mut take = |n: usize| {
        let x = i % n;
        i /= n;
        x
    };
    let hub_pi = take(2) == 1;
    let k = 3 + take(4);
    let pos = take(3);
    let bh = take(2) == 1;
    let mixed = take(2) == 1;
    let extra = take(2) == 1;
    let second = take(2) == 1;
    let mut verts = vec![];
    let mut edges = vec![];
    for j in 0..k {
        let ph = if mixed { tdiag::T_PHASES[j % 4] } else { (1, 4) };
        verts.push(DV { kind: VK::Z, ph, vars: vec![] });
    }
    let hub = verts.len();
    verts.push(DV { kind: VK::Z, ph: if hub_pi { (1, 1) } else { (0, 1) }, vars: vec![] });
    for j in 0..k {
        edges.push((j, hub, EK::H));
    }
    if extra {
        edges.push((0, 1, EK::H));
        edges.push((1, 2, EK::H));
    }
    let mut outputs = vec![];
    let at = [0, 1, k - 1][pos];
    let b = verts.len();
    verts.push(DV { kind: VK::B, ph: (0, 1), vars: vec![] });
    edges.push((at, b, if bh { EK::H } else { EK::N }));
    outputs.push(b);
    if second {
        let at2 = (at + 1) % k;
        let b2 = verts.len();
        verts.push(DV { kind: VK::B, ph: (0, 1), vars: vec![] });
        edges.push((at2, b2, EK::N));
        outputs.push(b2);
    }
    let d = DDesc { verts, edges, inputs: vec![], outputs, scalar: DScalar { coeffs: [1, 0, 0, 0], pow: 0 } };
    let (g, ids) = d.build::<quizx::vec_graph::Graph>(None);
    // the list in neighbour order, and rotated so that every T spider is "first" once
    let mut cands: Vec<(Decomp, &'static str)> = vec![];
    for rot in 0..k {
        let mut l = vec![ids[hub]];
        for j in 0..k {
            l.push(ids[(j + rot) % k]);
        }
        cands.push((Decomp::CatDecomp(l), "grid"));
    }
    direct_check(family, index, &d, &g, cands);
    saved_check(family, index, &d, &g);
}

// ------------------------------------------------------------------------------------
// self-test of the step checker (no quizx decomposition code involved)
// ------------------------------------------------------------------------------------

fn self_test() -> Result<(), String> {
    // Z(pi/4) isolated = 1 + omega. Split by hand: Z(0)-N-X(0) * 1/sqrt2  +  omega * Z(0)-N-X(pi) * 1/sqrt2
    let pre = Snap { diag: Diag { verts: vec![(0, VK::Z, 1, 4)], edges: vec![], inputs: vec![], outputs: vec![] }, scalar: R::one(), scalar_approx: false };
    let t0 = Snap {
        diag: Diag { verts: vec![(0, VK::Z, 0, 1), (1, VK::X, 0, 1)], edges: vec![(0, 1, EK::N)], inputs: vec![], outputs: vec![] },
        scalar: R::sqrt2_pow(-1),
        scalar_approx: false,
    };
    let t1 = Snap {
        diag: Diag { verts: vec![(0, VK::Z, 0, 1), (1, VK::X, 1, 1)], edges: vec![(0, 1, EK::N)], inputs: vec![], outputs: vec![] },
        scalar: R::sqrt2_pow(-1).mul(&R::omega_pow(1)),
        scalar_approx: false,
    };
    if !matches!(judge_step(&pre, &[t0.clone(), t1.clone()]), StepVerdict::Ok) {
        return Err("hand-made single cut rejected".into());
    }
    let mut bad = t1.clone();
    bad.scalar = R::sqrt2_pow(-1);
    if !matches!(judge_step(&pre, &[t0, bad]), StepVerdict::Differs { .. }) {
        return Err("wrong term scalar not detected".into());
    }
    let (k, v) = parse_decomp("CatDecomp [3, 0, 12]");
    if k != "CatDecomp" || v != vec![3, 0, 12] {
        return Err("parse_decomp".into());
    }
    let (k, v) = parse_decomp("SingleDecomp []");
    if k != "SingleDecomp" || !v.is_empty() {
        return Err("parse_decomp empty".into());
    }
    Ok(())
}

// ------------------------------------------------------------------------------------
// sanitizers (thorough tier)
// ------------------------------------------------------------------------------------

fn run_sanitizers() -> Value {
    let out = "/verif/harness/target/sanitize_c05.json";
    let _ = std::fs::create_dir_all("/verif/harness/target");
    let _ = std::fs::remove_file(out);
    let st = std::process::Command::new("bash").arg("/verif/harness/sanitize_c05.sh").arg(out).stdout(std::process::Stdio::null()).stderr(std::process::Stdio::null()).status();
    match st {
        Err(e) => json!({"status": "inconclusive", "reason": format!("cannot run sanitize_c05.sh: {e}")}),
        Ok(_) => match std::fs::read_to_string(out).ok().and_then(|t| serde_json::from_str::<Value>(&t).ok()) {
            Some(v) => v,
            None => json!({"status": "inconclusive", "reason": "sanitize_c05.sh wrote no readable summary"}),
        },
    }
}

fn judge_sanitizers(v: &Value) {
    let c = ctx();
    for tool in ["miri", "tsan"] {
        let Some(t) = v.get(tool) else {
            c.inconclusive(&format!("sanitizer-{tool}"), json!({"reason": "no result", "summary": v}));
            continue;
        };
        match t.get("status").and_then(|s| s.as_str()).unwrap_or("inconclusive") {
            "clean" => c.count(&format!("sanitizer:{tool}:clean"), 1),
            "violation" => c.violation(
                &format!("sanitizer|{tool}|{}", t.get("class").and_then(|s| s.as_str()).unwrap_or("report-in-quizx-frame")),
                "sanitizers",
                0,
                json!({"what": "sanitizer report attributable to quizx (or result mismatch under the sanitizer)", "summary": t}),
            ),
            _ => c.inconclusive(&format!("sanitizer-{tool}"), t.clone()),
        }
    }
}

// ------------------------------------------------------------------------------------
// run
// ------------------------------------------------------------------------------------

/// remember when a family started (seconds since the start of the run)
fn timed(log: &mut Vec<(&'static str, f64)>, family: &'static str) {
    log.push((family, ctx().start.elapsed().as_secs_f64()));
}

pub fn run() {
    let c = ctx();
    if let Err(e) = self_test() {
        c.harness_error(&format!("C05 step-checker self-test failed: {e}"));
        return;
    }
    install_hook();
    quizx::verif::drain_step_log();
    quizx::verif::set_step_log(true);
    let t = c.tier;
    c.set_rule(
        "cases = generated diagrams; closed families run 7 drivers x simp levels x split on/off, each sequentially and in parallel inside rayon pools (evaluations counts single decomposer runs / direct step applications); a closed or open diagram is non-trivial when it has T-count >= 1 (and >= 2 spiders for the generated graph-like families); distinct = distinct diagram descriptions (64-bit hash)",
    );
    c.assume("independent evaluator O2 (harness/src/oracle/eval.rs) and exact ring O1 are correct (self-tested at start)");
    c.assume("Sherlock `tries` always has three entries with tries[0] >= 1 (the driver indexes tries[0..3] and proposes no step when every entry is 0)");
    c.assume("schedules are sampled: thread counts {1,2,3,4,8,16} x repetitions natively; Miri/TSan only in the thorough tier");
    c.assume("identical step events (same diagram, same Decomp, same terms) are evaluated once; all are counted");

    // sanitizers run beside the main workload in the thorough tier
    let san = if t == crate::fw::Tier::Thorough && c.replay.is_none() && std::env::var("VERIF_SKIP_SANITIZERS").is_err() {
        Some(std::thread::spawn(run_sanitizers))
    } else {
        None
    };

    let mut fam_wall: Vec<(&'static str, f64)> = vec![];
    let (max_t, max_sp) = t.pick((7usize, 9usize), (12usize, 13usize));
    let plan = t.pick(Plan { full_sweep: 0.15, reps: 2 }, Plan { full_sweep: 0.25, reps: 3 });
    let n = t.pick(110usize, 1200usize);

    // deterministic grid first, so that its small diagrams are the recorded witnesses
    timed(&mut fam_wall, "open-cat-grid");
    par_cases("open-cat-grid", CAT_GRID, move |_r, i| cat_grid_case("open-cat-grid", i));

    timed(&mut fam_wall, "closed-random");
    par_cases("closed-random", n, move |r, i| closed_case("closed-random", TFam::Random, i, r, max_t, max_sp, plan));
    timed(&mut fam_wall, "closed-cat-rich");
    par_cases("closed-cat-rich", n, move |r, i| closed_case("closed-cat-rich", TFam::Cats, i, r, max_t, max_sp, plan));
    timed(&mut fam_wall, "closed-gadget-rich");
    par_cases("closed-gadget-rich", n, move |r, i| closed_case("closed-gadget-rich", TFam::Gadgets, i, r, max_t, max_sp, plan));
    timed(&mut fam_wall, "closed-tpair-rich");
    par_cases("closed-tpair-rich", n, move |r, i| closed_case("closed-tpair-rich", TFam::TPair, i, r, max_t, max_sp, plan));
    timed(&mut fam_wall, "closed-t-only");
    par_cases("closed-t-only", n, move |r, i| closed_case("closed-t-only", TFam::TOnly, i, r, max_t, max_sp, plan));
    timed(&mut fam_wall, "closed-multi-component");
    par_cases("closed-multi-component", n, move |r, i| closed_case("closed-multi-component", TFam::Multi, i, r, max_t, max_sp, plan));
    let (cq, cd) = t.pick((5usize, 40usize), (6usize, 60usize));
    timed(&mut fam_wall, "circuit-plugged");
    par_cases("circuit-plugged", 2 * n, move |r, i| circuit_case("circuit-plugged", i, r, max_t, cq, cd, plan));
    process_events(collect_events(None), "closed-families(leftover)", 0);

    let nst = t.pick(150usize, 4000usize);
    timed(&mut fam_wall, "staged-completion");
    par_cases("staged-completion", nst, move |r, i| {
        let fam = *r.pick(&[TFam::Random, TFam::Cats, TFam::Gadgets, TFam::TPair, TFam::TOnly, TFam::Multi]);
        staged_case("staged-completion", fam, i, r, max_t.min(8), max_sp)
    });

    let (nsh, shreps) = t.pick((500usize, 6usize), (6_000usize, 8usize));
    timed(&mut fam_wall, "sherlock-nosimp");
    par_cases("sherlock-nosimp", nsh, move |r, i| sherlock_case("sherlock-nosimp", i, r, shreps));
    process_events(collect_events(None), "sherlock-nosimp(leftover)", 0);

    let nd = t.pick(4000usize, 100_000usize);
    timed(&mut fam_wall, "direct-steps");
    par_cases("direct-steps", nd, move |r, i| direct_case("direct-steps", i, r, max_t.max(8), max_sp));

    let ns = t.pick(500usize, 10_000usize);
    timed(&mut fam_wall, "saved-terms");
    par_cases("saved-terms", ns, move |r, i| saved_case("saved-terms", i, r, max_t.min(9), max_sp));
    process_events(collect_events(None), "saved-terms(leftover)", 0);
    quizx::verif::set_step_log(false);

    // schedule stress on T-counts above the end-to-end families' range (step log off)
    quizx::verif::drain_step_log();
    let (nps, smin, smax, sreps) = t.pick((2000usize, 9usize, 13usize, 60usize), (40_000usize, 9usize, 18usize, 120usize));
    timed(&mut fam_wall, "parallel-stress");
    par_cases("parallel-stress", nps, move |r, i| stress_case("parallel-stress", i, r, smin, smax, max_sp.max(14), sreps));

    timed(&mut fam_wall, "end");
    let walls: serde_json::Map<String, Value> = fam_wall.windows(2).map(|w| (w[0].0.to_string(), json!(((w[1].1 - w[0].1) * 10.0).round() / 10.0))).collect();
    c.extra("family_wall_s", Value::Object(walls));

    // evidence: steps per kind
    let steps = with_steps(|s| {
        let mut m = serde_json::Map::new();
        for (k, st) in s.kinds.iter() {
            m.insert(
                k.clone(),
                json!({"logged": st.logged, "distinct_evaluated": st.distinct_checked, "embedded_in_host": st.embedded, "with_open_wires": st.open_pre,
                       "on_pool_threads": st.on_pool_threads, "distinct_threads": st.threads.len(), "max_spiders_in_replaced_diagram": st.max_pre_spiders}),
            );
        }
        (Value::Object(m), s.all_threads.len(), s.kinds.values().map(|k| k.logged).sum::<u64>(), s.seen.len())
    });
    c.extra("steps_logged_by_kind", steps.0);
    c.extra("steps_distinct_threads", json!(steps.1));
    c.extra("steps_logged_total", json!(steps.2));
    c.extra("steps_distinct_evaluated", json!(steps.3));
    c.extra("thread_counts_swept", json!(KS));
    c.extra("exhaustive", json!(false));
    if let Some(h) = san {
        let v = h.join().unwrap_or_else(|_| json!({"status": "inconclusive", "reason": "sanitizer thread panicked"}));
        judge_sanitizers(&v);
        c.extra("sanitizers", v);
    } else {
        c.extra("sanitizers", json!("not run (only in the thorough tier, not in replays, not with VERIF_SKIP_SANITIZERS set)"));
    }
}

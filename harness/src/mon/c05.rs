//! C05 -- monitor (to be written)
use crate::fw::ctx;

pub fn run() {
    ctx().harness_error("C05 monitor not implemented yet");
}

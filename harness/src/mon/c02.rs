//! C02 -- monitor (to be written)
use crate::fw::ctx;

pub fn run() {
    ctx().harness_error("C02 monitor not implemented yet");
}

//! C02 -- circuit -> diagram translation denotes exactly the circuit's linear map.
//!
//! Events: for each generated circuit (full supported gate set, ancilla initialisation as
//! a qubit's first operation, post-selection as its last), each translation mode
//! (plain, simplify-while-building, post-selected CCZ gadgets) and each backend:
//! g = to_graph_with_options(mode). Oracle: no panic; E(g) (independent ZX evaluator O2)
//! == U(c) (independent gate-matrix simulator O3) as tensors [inputs.., outputs..] with the
//! surviving qubits in ascending order on both sides; exact for pi/4 phases.

use crate::fw::{ctx, guarded, par_cases};
use crate::gen::circuit::*;
use crate::gen::prng::Rng;
use crate::oracle::eval::EvalError;
use crate::oracle::sim::{tensor_exact, tensor_float, Circ, G};
use crate::snap::{eval_graph, graph_json, Tens, FLOAT_TOL};
use quizx::graph::GraphLike;
use serde_json::json;

pub const MODES: [(bool, bool, &str); 3] = [(false, false, "plain"), (true, false, "simplify"), (false, true, "postselect-ccz")];

/// Move each trailing PostSel(q) to just after the last earlier gate touching q, and each
/// leading InitAnc(q) to just before the first gate touching q (equivalent circuits that
/// interleave ancilla handling with other gates).
pub fn interleave(r: &mut Rng, c: &Circ) -> Circ {
    let mut gates = c.gates.clone();
    // post-selections
    let mut i = gates.len();
    while i > 0 {
        i -= 1;
        if let G::PostSel(q) = gates[i].clone() {
            if r.chance(0.7) {
                let g = gates.remove(i);
                let mut pos = 0;
                for (j, h) in gates.iter().enumerate().take(i) {
                    if h.qubits().contains(&q) {
                        pos = j + 1;
                    }
                }
                gates.insert(pos, g);
            }
        }
    }
    let mut i = 0;
    while i < gates.len() {
        if let G::InitAnc(q) = gates[i].clone() {
            if r.chance(0.7) {
                let g = gates.remove(i);
                let mut pos = gates.len();
                for (j, h) in gates.iter().enumerate().skip(i) {
                    if h.qubits().contains(&q) {
                        pos = j;
                        break;
                    }
                }
                gates.insert(pos, g);
                // do not advance: the element now at i is a different gate
                if pos == i {
                    i += 1;
                }
                continue;
            }
        }
        i += 1;
    }
    Circ { n: c.n, gates }
}

pub fn reference(c: &Circ) -> Tens {
    if c.is_pi4() {
        Tens::Exact(tensor_exact(c).0)
    } else {
        Tens::Float(tensor_float(c).0)
    }
}

fn check_backend<Gr: GraphLike>(family: &'static str, index: u64, backend: &str, c: &Circ, expect: &Tens) {
    let cx = ctx();
    let qc = crate::gen::circuit::to_quizx_layout(c);
    for (simp, post, mname) in MODES {
        cx.count(&format!("mode:{mname}:{backend}"), 1);
        let r = guarded(|| qc.to_graph_with_options::<Gr>(simp, post));
        let detail = |what: &str, extra: serde_json::Value| {
            json!({"what": what, "mode": mname, "backend": backend, "circuit": circ_json(c), "qasm": print_qasm(c), "extra": extra})
        };
        // signature discriminator: the set of "special" gate kinds present
        let mut kinds: Vec<&str> = c
            .gates
            .iter()
            .map(|g| g.name())
            .filter(|n| matches!(*n, "swap" | "xcx" | "ccz" | "ccx" | "pp" | "init_anc" | "post_sel"))
            .collect();
        kinds.sort();
        kinds.dedup();
        let disc = kinds.join("+");
        let g = match r {
            Ok(g) => g,
            Err(e) => {
                cx.violation(&format!("to_graph[{mname}]|panic|{}", e.site()), family, index, detail("panic", json!(e.text())));
                continue;
            }
        };
        match eval_graph(&g) {
            Ok(t) => {
                if t.len() != expect.len() {
                    cx.violation(
                        &format!("to_graph[{mname}]|arity|{disc}"),
                        family,
                        index,
                        detail("wrong number of open wires", json!({"got": t.len(), "expected": expect.len(), "graph": graph_json(&g)})),
                    );
                } else if !t.same(expect, FLOAT_TOL) {
                    let prop = t.proportional(expect, FLOAT_TOL);
                    cx.violation(
                        &format!("to_graph[{mname}]|{}|{disc}", if prop { "scalar-wrong" } else { "map-wrong" }),
                        family,
                        index,
                        detail("diagram does not denote the circuit's map", json!({"got": t.brief(), "expected": expect.brief(), "graph": graph_json(&g)})),
                    );
                }
            }
            Err(EvalError::IllFormed(m)) => {
                cx.violation(&format!("to_graph[{mname}]|ill-formed|{disc}"), family, index, detail("ill-formed diagram", json!({"why": m, "graph": graph_json(&g)})));
            }
            Err(EvalError::TooWide(_)) => cx.skipped(),
        }
    }
}

pub fn check_circuit(family: &'static str, index: u64, c: &Circ) {
    let cx = ctx();
    let expect = reference(c);
    check_backend::<quizx::vec_graph::Graph>(family, index, "vec", c, &expect);
    check_backend::<quizx::hash_graph::Graph>(family, index, "hash", c, &expect);
    for g in &c.gates {
        cx.count(&format!("gate:{}", g.name()), 1);
    }
    cx.case(family, if c.gates.is_empty() { None } else { Some(circ_hash(c)) });
    cx.evals(5);
    cx.sample_n(5, || json!({"family": family, "index": index, "circuit": circ_json(c)}));
}

/// all single-gate circuits on n qubits (exhaustive placements)
fn single_gate_circuits(n: usize) -> Vec<Circ> {
    let mut out = vec![];
    let ph = [(1i64, 4i64), (1, 2), (1, 1), (-3, 4), (0, 1)];
    for q in 0..n {
        for g in [G::X(q), G::Z(q), G::S(q), G::T(q), G::Sdg(q), G::Tdg(q), G::H(q), G::InitAnc(q), G::PostSel(q)] {
            out.push(Circ { n, gates: vec![g] });
        }
        for p in ph {
            out.push(Circ { n, gates: vec![G::Rz(q, p)] });
            out.push(Circ { n, gates: vec![G::Rx(q, p)] });
            out.push(Circ { n, gates: vec![G::Pp(vec![q], p)] });
        }
    }
    for a in 0..n {
        for b in 0..n {
            if a == b {
                continue;
            }
            for g in [G::Cx(a, b), G::Cz(a, b), G::Xcx(a, b), G::Swap(a, b)] {
                out.push(Circ { n, gates: vec![g] });
            }
            out.push(Circ { n, gates: vec![G::Pp(vec![a, b], (1, 4))] });
            // asymmetric follow-up to expose orientation errors
            out.push(Circ { n, gates: vec![G::Swap(a, b), G::T(a), G::H(b)] });
            out.push(Circ { n, gates: vec![G::H(a), G::Cx(a, b), G::T(b)] });
            for c in 0..n {
                if c == a || c == b {
                    continue;
                }
                out.push(Circ { n, gates: vec![G::Ccz(a, b, c)] });
                out.push(Circ { n, gates: vec![G::Ccx(a, b, c)] });
                out.push(Circ { n, gates: vec![G::Pp(vec![a, b, c], (-1, 4))] });
                out.push(Circ { n, gates: vec![G::H(c), G::Ccx(a, b, c), G::T(c)] });
            }
        }
    }
    out
}

pub fn run() {
    let c = ctx();
    let t = c.tier;
    c.set_rule("cases = generated circuits; each is translated in 3 modes x 2 backends (evaluations counts these); non-trivial = at least one gate; distinct = distinct gate sequences (64-bit hash)");
    c.assume("oracles O2 (ZX evaluator) and O3 (gate-matrix simulator) are correct; they are self-tested and cross-checked against each other at every start");
    c.assume("ancilla initialisation is generated only as a qubit's first operation and post-selection only as its last, as the translation documents");

    // exhaustive single-gate placements
    let max_n = t.pick(3usize, 4usize);
    let mut singles = vec![];
    for n in 1..=max_n {
        singles.extend(single_gate_circuits(n));
    }
    let ns = singles.len();
    c.extra("single_gate_placements", json!(ns));
    let singles = std::sync::Arc::new(singles);
    {
        let singles = singles.clone();
        par_cases("single-gate-placements", ns, move |_r, i| {
            check_circuit("single-gate-placements", i, &singles[i as usize]);
        });
    }
    let (nq, depth, n) = t.pick((4usize, 24usize, 6000usize), (6usize, 50usize, 100_000usize));
    par_cases("unitary-exact", n, move |r, i| {
        let p = CircParams::unitary(nq, depth, PhPool::Exact);
        let circ = gen_circuit(r, &p);
        check_circuit("unitary-exact", i, &circ);
    });
    par_cases("unitary-float", n / 3, move |r, i| {
        let p = CircParams::unitary(nq, depth, PhPool::Float);
        let circ = gen_circuit(r, &p);
        check_circuit("unitary-float", i, &circ);
    });
    par_cases("ancilla-postselect", n, move |r, i| {
        let mut p = CircParams::unitary(nq, depth, PhPool::Exact);
        p.ancilla = true;
        let circ = gen_circuit(r, &p);
        let circ = interleave(r, &circ);
        check_circuit("ancilla-postselect", i, &circ);
    });
    par_cases("ancilla-postselect-float", n / 2, move |r, i| {
        let mut p = CircParams::unitary(nq, depth, PhPool::Float);
        p.ancilla = true;
        let circ = gen_circuit(r, &p);
        let circ = interleave(r, &circ);
        check_circuit("ancilla-postselect-float", i, &circ);
    });
    // many tiny circuits with heavy ancilla/post-selection use: local simplification during
    // translation (simplify mode) meets leaves, duplicated neighbourhoods and Clifford phases
    par_cases("tiny-ancilla-dense", n * 4, move |r, i| {
        let nqb = 1 + r.below(3);
        let mut gates = vec![];
        let mut anc = vec![];
        for q in 0..nqb {
            if r.chance(0.5) {
                gates.push(G::InitAnc(q));
                anc.push(q);
            }
        }
        let d = r.below(9);
        for _ in 0..d {
            let q = r.below(nqb);
            let g = match r.below(12) {
                0 | 1 => G::T(q),
                2 => G::Tdg(q),
                3 | 4 => G::S(q),
                5 => G::Sdg(q),
                6 | 7 => G::H(q),
                8 => G::Z(q),
                9 => G::X(q),
                _ => {
                    if nqb >= 2 {
                        let mut b = r.below(nqb);
                        if b == q {
                            b = (q + 1) % nqb;
                        }
                        if r.chance(0.5) {
                            G::Cx(q, b)
                        } else {
                            G::Cz(q, b)
                        }
                    } else {
                        G::H(q)
                    }
                }
            };
            gates.push(g);
        }
        for q in 0..nqb {
            if r.chance(0.6) {
                gates.push(G::PostSel(q));
            }
        }
        let circ = Circ { n: nqb, gates };
        let circ = interleave(r, &circ);
        check_circuit("tiny-ancilla-dense", i, &circ);
    });
    // the same with compound gates (pp, rx/rz at any multiple of pi/4, xcx, swap) next to the
    // ancilla handling: they leave plain-edge leaves and unsimplified gadgets behind
    par_cases("tiny-ancilla-compound", n * 4, move |r, i| {
        let nqb = 1 + r.below(3);
        let mut gates = vec![];
        for q in 0..nqb {
            if r.chance(0.5) {
                gates.push(G::InitAnc(q));
            }
        }
        let d = r.below(8);
        for _ in 0..d {
            let q = r.below(nqb);
            let other = |r: &mut Rng| {
                let b = r.below(nqb);
                if b == q {
                    (q + 1) % nqb
                } else {
                    b
                }
            };
            // mostly the pi/4 grid; now and then thirds, fifths, sixths, eighths, twelfths
            let ph = if r.chance(0.25) {
                let d = *r.pick(&[3i64, 3, 6, 5, 8, 12]);
                let q = quizx::phase::Phase::new(num::rational::Rational64::new(r.range(-d + 1, d), d)).to_rational();
                (*q.numer(), *q.denom())
            } else {
                (r.range(-3, 4), 4)
            };
            let g = match r.below(14) {
                0 => G::T(q),
                1 => G::S(q),
                2 | 3 => G::H(q),
                4 => G::Z(q),
                5 => G::X(q),
                6 | 7 => {
                    let mut qs = vec![q];
                    if nqb >= 2 && r.chance(0.4) {
                        qs.push(other(r));
                    }
                    G::Pp(qs, ph)
                }
                8 => G::Rz(q, ph),
                9 => G::Rx(q, ph),
                10 if nqb >= 2 => G::Xcx(q, other(r)),
                11 if nqb >= 2 => G::Swap(q, other(r)),
                12 if nqb >= 2 => G::Cx(q, other(r)),
                13 if nqb >= 2 => G::Cz(q, other(r)),
                _ => G::Tdg(q),
            };
            gates.push(g);
        }
        for q in 0..nqb {
            if r.chance(0.6) {
                gates.push(G::PostSel(q));
            }
        }
        let circ = Circ { n: nqb, gates };
        let circ = interleave(r, &circ);
        check_circuit("tiny-ancilla-compound", i, &circ);
    });
    par_cases("swap-heavy", n / 2, move |r, i| {
        let mut p = CircParams::unitary(nq.min(4), depth / 2, PhPool::Exact);
        p.ccz = false;
        p.pp = false;
        p.ancilla = r.chance(0.5);
        let mut circ = gen_circuit(r, &p);
        // sprinkle extra swaps
        let k = 1 + r.below(4);
        for _ in 0..k {
            if circ.n >= 2 {
                let a = r.below(circ.n);
                let mut b = r.below(circ.n);
                if a == b {
                    b = (a + 1) % circ.n;
                }
                // insert before the trailing post-selections so the discipline holds
                let end = circ.gates.iter().position(|g| matches!(g, G::PostSel(_))).unwrap_or(circ.gates.len());
                let start = circ.gates.iter().rposition(|g| matches!(g, G::InitAnc(_))).map(|x| x + 1).unwrap_or(0);
                let pos = start + r.below(end.saturating_sub(start) + 1);
                circ.gates.insert(pos.min(end), G::Swap(a, b));
            }
        }
        check_circuit("swap-heavy", i, &circ);
    });
    // wide and shallow: 7-8 qubits (qubit indices and output slots beyond what the other
    // families reach; 2^16-entry tensors, so only a few of them)
    par_cases("wide-shallow", t.pick(40usize, 1_500usize), move |r, i| {
        let mut p = CircParams::unitary(8, 14, PhPool::Exact);
        p.min_qubits = 7;
        p.ccz = false;
        p.pp = r.chance(0.3);
        p.ancilla = r.chance(0.4);
        let circ = gen_circuit(r, &p);
        let circ = interleave(r, &circ);
        check_circuit("wide-shallow", i, &circ);
    });
    // 100-400 gates on 2-4 qubits (vertex ids far above 64 while the translation is running)
    par_cases("long-narrow", t.pick(120usize, 6_000usize), move |r, i| {
        let d = *r.pick(&[100usize, 180, 400]);
        let mut p = CircParams::unitary(4, d, PhPool::Exact);
        p.min_qubits = 2;
        p.ccz = r.chance(0.3);
        p.ancilla = r.chance(0.4);
        let circ = gen_circuit(r, &p);
        let circ = if p.ancilla { interleave(r, &circ) } else { circ };
        check_circuit("long-narrow", i, &circ);
    });
    par_cases("ccz-toffoli", n / 4, move |r, i| {
        let mut p = CircParams::unitary(nq.max(3), 8, PhPool::Exact);
        p.min_qubits = 3;
        p.ancilla = r.chance(0.3);
        let mut circ = gen_circuit(r, &p);
        // make sure a CCZ/CCX is present
        let mut qs: Vec<usize> = (0..circ.n).collect();
        r.shuffle(&mut qs);
        let pos = circ.gates.iter().position(|g| matches!(g, G::PostSel(_))).unwrap_or(circ.gates.len());
        let g = if r.chance(0.5) { G::Ccz(qs[0], qs[1], qs[2]) } else { G::Ccx(qs[0], qs[1], qs[2]) };
        circ.gates.insert(pos, g);
        check_circuit("ccz-toffoli", i, &circ);
    });
}

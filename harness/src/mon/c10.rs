//! C10 -- rewriting diagrams with boolean parameters is sound under every assignment.
//!
//! inst_a(g) is computed by the harness from the public interface: add pi to every spider
//! whose parity is odd under the assignment a, multiply in every scalar factor whose
//! expression (a conjunction of parities with constant) is true under a. For every
//! accepted rule application and every simplifier: E(inst_a(after)) == E(inst_a(before))
//! for ALL assignments a. For circuits with measurements: E(inst_a(to_graph(c))) == U_a(c)
//! with the independent simulator projecting <a_i| (and re-preparing |0>).

use super::c01::{apply_proc, budget_for, PROCS};
use super::c04::{apply_unchecked, check_rule, Arity, RULES};
use crate::fw::{ctx, guarded, par_cases, Caught};
use crate::gen::circuit::*;
use crate::gen::diagram::*;
use crate::gen::prng::Rng;
use crate::oracle::eval::EvalError;
use crate::oracle::ring::{r_of_scalar, scalar_is_approx, Num};
use crate::oracle::sim::{tensor_exact_assign, tensor_float_assign, Circ, G};
use crate::snap::{eval_snap, graph_json, snap, Snap, Tens, FLOAT_TOL};
use quizx::graph::{GraphLike, V};
use quizx::params::{Expr, Parity};
use serde_json::json;
use std::collections::BTreeMap;

pub type Assign = BTreeMap<u32, bool>;

/// value of a parity (XOR of variables and its constant) under an assignment
pub fn parity_value(p: &Parity, a: &Assign) -> bool {
    let vars: Vec<u32> = p.iter().collect();
    // the constant bit has no accessor: compare with the same variable list and constant 1
    let constant = *p == Parity::new(vars.clone(), true);
    let mut v = constant;
    for x in vars {
        v ^= a.get(&x).copied().unwrap_or(false);
    }
    v
}

pub fn expr_value(e: &Expr, a: &Assign) -> bool {
    e.iter().all(|p| parity_value(p, a))
}

pub fn graph_vars(g: &impl GraphLike) -> Vec<u32> {
    let mut vs: Vec<u32> = vec![];
    for v in g.vertices() {
        vs.extend(g.vars(v).iter());
    }
    for (e, _) in g.scalar_factors() {
        for p in e.iter() {
            vs.extend(p.iter());
        }
    }
    vs.sort();
    vs.dedup();
    vs
}

/// Instantiate a graph under an assignment into a snapshot.
pub fn inst(g: &impl GraphLike, a: &Assign) -> Result<Snap, String> {
    let mut s = snap(g)?;
    for v in s.diag.verts.iter_mut() {
        let p = g.vars(v.0);
        if parity_value(&p, a) {
            // add pi
            let (n, d) = (v.2, v.3);
            let nn = n + d;
            // normalise into (-1,1]
            let mut m = nn.rem_euclid(2 * d);
            if m > d {
                m -= 2 * d;
            }
            v.2 = m;
        }
    }
    for (e, f) in g.scalar_factors() {
        if expr_value(e, a) {
            s.scalar = s.scalar.mul(&r_of_scalar(f));
            if scalar_is_approx(f) {
                s.scalar_approx = true;
            }
        }
    }
    Ok(s)
}

pub fn all_assignments(vars: &[u32]) -> Vec<Assign> {
    let n = vars.len().min(6);
    (0..(1usize << n)).map(|m| vars.iter().take(n).enumerate().map(|(i, &v)| (v, (m >> i) & 1 == 1)).collect()).collect()
}

/// All assignments when there are at most 6 variables; otherwise a deterministic sample:
/// all-false, all-true, every single variable true, every single variable false, and 24
/// pseudo-random ones (seeded by the variable list).
pub fn pick_assignments(vars: &[u32]) -> Vec<Assign> {
    if vars.len() <= 6 {
        return all_assignments(vars);
    }
    let mut out: Vec<Assign> = vec![];
    out.push(vars.iter().map(|&v| (v, false)).collect());
    out.push(vars.iter().map(|&v| (v, true)).collect());
    for &x in vars {
        out.push(vars.iter().map(|&v| (v, v == x)).collect());
    }
    for &x in vars.iter().step_by(3) {
        out.push(vars.iter().map(|&v| (v, v != x)).collect());
    }
    let mut seed = 0x9e37_79b9_7f4a_7c15u64;
    for &v in vars {
        seed = seed.rotate_left(7) ^ (v as u64).wrapping_mul(0xff51_afd7_ed55_8ccd);
    }
    let mut r = Rng::new(seed);
    for _ in 0..24 {
        out.push(vars.iter().map(|&v| (v, r.chance(0.5))).collect());
    }
    out
}

fn eval_all(g: &impl GraphLike, assigns: &[Assign]) -> Result<Vec<Tens>, EvalError> {
    let mut out = vec![];
    for a in assigns {
        let s = inst(g, a).map_err(EvalError::IllFormed)?;
        out.push(eval_snap(&s)?);
    }
    Ok(out)
}

fn compare_all(before: &[Tens], g: &impl GraphLike, assigns: &[Assign]) -> Result<Option<(usize, Tens)>, EvalError> {
    for (i, a) in assigns.iter().enumerate() {
        let s = inst(g, a).map_err(EvalError::IllFormed)?;
        let t = eval_snap(&s)?;
        if t.len() != before[i].len() || !t.same(&before[i], FLOAT_TOL) {
            return Ok(Some((i, t)));
        }
    }
    Ok(None)
}

fn assign_json(a: &Assign) -> serde_json::Value {
    json!(a.iter().map(|(k, v)| format!("b{k}={}", *v as u8)).collect::<Vec<_>>())
}

fn rules_on<G: GraphLike>(family: &'static str, index: u64, backend: &str, g: &G, desc: &serde_json::Value) -> u64 {
    let cx = ctx();
    // assignments over the variables present plus (always) variable 0
    let mut vars = graph_vars(g);
    if !vars.contains(&0) {
        vars.insert(0, 0);
    }
    let assigns = pick_assignments(&vars);
    let before = match eval_all(g, &assigns) {
        Ok(b) => b,
        Err(_) => {
            cx.skipped();
            return 0;
        }
    };
    let mut args: Vec<V> = g.vertices().collect();
    args.sort();
    let mut accepted = 0;
    for (rule, ar, _) in RULES {
        for &a in &args {
            let bs: &[V] = if ar == Arity::One { &args[..1] } else { &args[..] };
            for &b in bs {
                let b = if ar == Arity::One { a } else { b };
                let ok = guarded(|| check_rule(rule, g, a, b)).unwrap_or(false);
                if !ok {
                    continue;
                }
                let involves_vars = !g.vars(a).is_empty() || !g.vars(b).is_empty();
                accepted += 1;
                cx.count(&format!("accepted:{rule}"), 1);
                if involves_vars {
                    cx.count(&format!("accepted-with-vars-on-args:{rule}"), 1);
                }
                let mut h = g.clone();
                let detail = |what: &str, extra: serde_json::Value| {
                    json!({"what": what, "rule": rule, "args": [a, b], "backend": backend, "diagram": desc, "graph": graph_json(g), "extra": extra})
                };
                if let Err(e) = guarded(|| apply_unchecked(rule, &mut h, a, b)) {
                    if let Caught::Oracle(_) = e {
                        continue;
                    }
                    cx.violation(&format!("{rule}|panic-after-accept|vars"), family, index, detail("panic", json!(e.text())));
                    continue;
                }
                match compare_all(&before, &h, &assigns) {
                    Ok(None) => {}
                    Ok(Some((i, t))) => {
                        let factors: Vec<String> = h.scalar_factors().map(|(e, s)| format!("{e:?} -> {s}")).collect();
                        let vv: Vec<String> = h.vertices().filter(|&v| !h.vars(v).is_empty()).map(|v| format!("{v}:{:?}", h.vars(v))).collect();
                        cx.violation(
                            &format!("{rule}|map-changed-under-assignment|{}", if involves_vars { "vars-on-args" } else { "vars-elsewhere" }),
                            family,
                            index,
                            detail(
                                "instantiated map differs",
                                json!({"assignment": assign_json(&assigns[i]), "before": before[i].brief(), "after": t.brief(), "result": graph_json(&h), "result_vars": vv, "result_factors": factors}),
                            ),
                        );
                    }
                    Err(EvalError::IllFormed(m)) => cx.violation(&format!("{rule}|ill-formed-result|vars"), family, index, detail("ill-formed", json!(m))),
                    Err(EvalError::TooWide(_)) => cx.skipped(),
                }
            }
        }
    }
    accepted
}

/// Walk of accepted rule applications on the same object (see C04 `rule_walk`), judged under
/// every (sampled) assignment after each step: parities and conditional scalar factors
/// accumulate along the walk, which single applications to fresh diagrams never show.
fn rule_walk_vars<G: GraphLike>(family: &'static str, index: u64, backend: &str, r: &mut Rng, mut g: G, desc: &serde_json::Value) -> u64 {
    let cx = ctx();
    let mut vars = graph_vars(&g);
    if !vars.contains(&0) {
        vars.insert(0, 0);
    }
    let assigns = pick_assignments(&vars);
    let Ok(before) = eval_all(&g, &assigns) else {
        cx.skipped();
        return 0;
    };
    let mut trail: Vec<String> = vec![];
    let mut applied = 0u64;
    for _ in 0..12 {
        let mut args: Vec<V> = g.vertices().collect();
        args.sort();
        if args.is_empty() {
            break;
        }
        let mut found = None;
        for _ in 0..80 {
            let (rule, ar, _) = *r.pick(&RULES);
            let a = *r.pick(&args);
            let b = if ar == Arity::One {
                a
            } else {
                let nb: Vec<V> = g.neighbors(a).collect();
                if nb.is_empty() || r.chance(0.3) {
                    *r.pick(&args)
                } else {
                    *r.pick(&nb)
                }
            };
            if guarded(|| check_rule(rule, &g, a, b)).unwrap_or(false) {
                found = Some((rule, a, b));
                break;
            }
        }
        let Some((rule, a, b)) = found else { break };
        let involves_vars = !g.vars(a).is_empty() || !g.vars(b).is_empty();
        let prev = graph_json(&g);
        trail.push(format!("{rule}({a},{b})"));
        let detail = |what: &str, extra: serde_json::Value| json!({"what": what, "rule": rule, "args": [a, b], "backend": backend, "diagram": desc, "steps": trail, "graph_before_step": prev, "extra": extra});
        if let Err(e) = guarded(|| apply_unchecked(rule, &mut g, a, b)) {
            if !matches!(e, Caught::Oracle(_)) {
                cx.violation(&format!("{rule}|panic-after-accept|vars|in-walk"), family, index, detail("panic", json!(e.text())));
            }
            return applied;
        }
        applied += 1;
        cx.count(&format!("walk-step:{rule}"), 1);
        if involves_vars {
            cx.count("walk-steps-with-vars-on-args", 1);
        }
        match compare_all(&before, &g, &assigns) {
            Ok(None) => {}
            Ok(Some((i, t))) => {
                let factors: Vec<String> = g.scalar_factors().map(|(e, s)| format!("{e:?} -> {s}")).collect();
                cx.violation(
                    &format!("{rule}|map-changed-under-assignment|in-walk"),
                    family,
                    index,
                    detail("instantiated map differs", json!({"assignment": assign_json(&assigns[i]), "before": before[i].brief(), "after": t.brief(), "result": graph_json(&g), "result_factors": factors})),
                );
                return applied;
            }
            Err(EvalError::IllFormed(m)) => {
                cx.violation(&format!("{rule}|ill-formed-result|vars|in-walk"), family, index, detail("ill-formed", json!(m)));
                return applied;
            }
            Err(EvalError::TooWide(_)) => {
                cx.skipped();
                return applied;
            }
        }
    }
    applied
}

fn check_walks(family: &'static str, index: u64, r: &mut Rng, d: &DDesc) {
    let cx = ctx();
    let desc = d.to_json();
    let scr = if r.chance(0.3) { Some(r.next_u64()) } else { None };
    let mut n = rule_walk_vars(family, index, "vec", r, d.build::<quizx::vec_graph::Graph>(scr).0, &desc);
    n += rule_walk_vars(family, index, "hash", r, d.build::<quizx::hash_graph::Graph>(scr).0, &desc);
    cx.case(family, if n > 0 && d.has_vars() { Some(d.hash()) } else { None });
}

fn simps_on<G: GraphLike>(family: &'static str, index: u64, backend: &str, build: &dyn Fn() -> G, desc: &serde_json::Value) -> u64 {
    let cx = ctx();
    let g0 = build();
    let mut vars = graph_vars(&g0);
    if !vars.contains(&0) {
        vars.insert(0, 0);
    }
    let assigns = pick_assignments(&vars);
    cx.maximum("max_variables", vars.len() as u64);
    cx.maximum("max_assignments_per_case", assigns.len() as u64);
    let before = match eval_all(&g0, &assigns) {
        Ok(b) => b,
        Err(_) => {
            cx.skipped();
            return 0;
        }
    };
    let mut fired = 0;
    for proc_ in PROCS {
        let mut g = build();
        let vs: Vec<V> = g.vertices().collect();
        quizx::verif::take_ticks();
        quizx::verif::set_budget(budget_for(g.num_vertices(), g.num_edges()));
        let r = guarded(|| apply_proc(proc_, &mut g, &vs));
        quizx::verif::set_budget(u64::MAX);
        let ticks = quizx::verif::take_ticks();
        let total: u64 = ticks.iter().map(|t| t.1).sum();
        fired += total;
        for (rule, n) in &ticks {
            cx.count(&format!("ticks:{rule}"), *n);
        }
        let detail = |what: &str, extra: serde_json::Value| json!({"what": what, "procedure": proc_, "backend": backend, "diagram": desc, "extra": extra});
        match r {
            Err(Caught::Oracle(_)) => continue,
            Err(e) => {
                cx.violation(&format!("{proc_}|panic-or-budget|vars|{}", e.site()), family, index, detail("panic", json!(e.text())));
                continue;
            }
            Ok(()) => {}
        }
        cx.maximum("max_scalar_factor_table", g.scalar_factors().count() as u64);
        match compare_all(&before, &g, &assigns) {
            Ok(None) => {}
            Ok(Some((i, t))) => {
                let factors: Vec<String> = g.scalar_factors().map(|(e, s)| format!("{e:?} -> {s}")).collect();
                cx.violation(
                    &format!("{proc_}|map-changed-under-assignment"),
                    family,
                    index,
                    detail("instantiated map differs", json!({"assignment": assign_json(&assigns[i]), "before": before[i].brief(), "after": t.brief(), "result": graph_json(&g), "result_factors": factors, "ticks": format!("{ticks:?}")})),
                );
            }
            Err(EvalError::IllFormed(m)) => cx.violation(&format!("{proc_}|ill-formed-result|vars"), family, index, detail("ill-formed", json!(m))),
            Err(EvalError::TooWide(_)) => cx.skipped(),
        }
    }
    fired
}

fn check_desc(family: &'static str, index: u64, r: &mut Rng, d: &DDesc) {
    let cx = ctx();
    let desc = d.to_json();
    let scr = if r.chance(0.3) { Some(r.next_u64()) } else { None };
    let (gv, _) = d.build::<quizx::vec_graph::Graph>(scr);
    let mut n = rules_on(family, index, "vec", &gv, &desc);
    let (gh, _) = d.build::<quizx::hash_graph::Graph>(scr);
    n += rules_on(family, index, "hash", &gh, &desc);
    n += simps_on(family, index, "vec", &|| d.build::<quizx::vec_graph::Graph>(scr).0, &desc);
    n += simps_on(family, index, "hash", &|| d.build::<quizx::hash_graph::Graph>(scr).0, &desc);
    cx.case(family, if n > 0 && d.has_vars() { Some(d.hash()) } else { None });
    cx.sample_n(4, || json!({"family": family, "index": index, "diagram": desc, "rule_applications_and_rewrites": n}));
}

/// simplifiers only (no per-rule sweep): used for diagrams too big for all argument tuples
fn simps_only(family: &'static str, index: u64, r: &mut Rng, d: &DDesc) {
    let cx = ctx();
    let desc = d.to_json();
    let scr = if r.chance(0.3) { Some(r.next_u64()) } else { None };
    let mut n = simps_on(family, index, "vec", &|| d.build::<quizx::vec_graph::Graph>(scr).0, &desc);
    n += simps_on(family, index, "hash", &|| d.build::<quizx::hash_graph::Graph>(scr).0, &desc);
    cx.case(family, if n > 0 && d.has_vars() { Some(d.hash()) } else { None });
}

// ---------------------------------------------------------------------------------
// measurement circuits
// ---------------------------------------------------------------------------------

fn check_meas_circuit(family: &'static str, index: u64, c: &Circ) {
    let cx = ctx();
    let qc = to_quizx(c);
    let base = fresh_base(c);
    // count measurement variables
    let mut explicit: Vec<u32> = vec![];
    let mut n_fresh = 0u32;
    for g in &c.gates {
        if let G::MeasureD(_, v) | G::MeasureR(_, v) = g {
            if v.is_empty() {
                n_fresh += 1;
            } else {
                explicit.extend(v.iter().copied());
            }
        }
    }
    explicit.sort();
    explicit.dedup();
    let mut vars = explicit.clone();
    for k in 0..n_fresh {
        vars.push(base + k);
    }
    if vars.len() > 6 {
        cx.skipped();
        return;
    }
    let assigns = all_assignments(&vars);
    for (simp, post, mname) in super::c02::MODES {
        for backend in ["vec", "hash"] {
            let detail = |what: &str, extra: serde_json::Value| json!({"what": what, "mode": mname, "backend": backend, "circuit": circ_json(c), "extra": extra});
            macro_rules! run_backend {
                ($G:ty) => {{
                    match guarded(|| qc.to_graph_with_options::<$G>(simp, post)) {
                        Err(e) => {
                            cx.violation(&format!("to_graph[{mname}]|panic|measure|{}", e.site()), family, index, detail("panic", json!(e.text())));
                        }
                        Ok(g) => {
                            for a in &assigns {
                                let assign_fn = |vs: &[u32], fresh_idx: usize| -> usize {
                                    if vs.is_empty() {
                                        a.get(&(base + fresh_idx as u32)).copied().unwrap_or(false) as usize
                                    } else {
                                        vs.iter().fold(false, |acc, v| acc ^ a.get(v).copied().unwrap_or(false)) as usize
                                    }
                                };
                                let expect = if c.is_pi4() { Tens::Exact(tensor_exact_assign(c, &assign_fn).0) } else { Tens::Float(tensor_float_assign(c, &assign_fn).0) };
                                let got = inst(&g, a).map_err(EvalError::IllFormed).and_then(|s| eval_snap(&s));
                                match got {
                                    Ok(t) => {
                                        if t.len() != expect.len() || !t.same(&expect, FLOAT_TOL) {
                                            cx.violation(
                                                &format!("to_graph[{mname}]|measured-map-wrong"),
                                                family,
                                                index,
                                                detail("projected map differs", json!({"assignment": assign_json(a), "got": t.brief(), "expected": expect.brief(), "graph": graph_json(&g)})),
                                            );
                                            break;
                                        }
                                    }
                                    Err(EvalError::IllFormed(m)) => {
                                        cx.violation(&format!("to_graph[{mname}]|ill-formed|measure"), family, index, detail("ill-formed", json!({"why": m, "graph": graph_json(&g)})));
                                        break;
                                    }
                                    Err(EvalError::TooWide(_)) => {
                                        cx.skipped();
                                        break;
                                    }
                                }
                            }
                        }
                    }
                }};
            }
            if backend == "vec" {
                run_backend!(quizx::vec_graph::Graph)
            } else {
                run_backend!(quizx::hash_graph::Graph)
            }
        }
    }
    let nm = c.gates.iter().filter(|g| matches!(g, G::MeasureD(..) | G::MeasureR(..))).count();
    cx.count("measure_gates", nm as u64);
    cx.case(family, if nm > 0 { Some(circ_hash(c)) } else { None });
    cx.sample_n(6, || json!({"family": family, "index": index, "circuit": circ_json(c), "assignments": assigns.len()}));
}

pub fn run() {
    let c = ctx();
    let t = c.tier;
    c.set_rule("cases = diagrams whose spiders carry variable parities (over {b0,b1,b2,b5}: rule applications and simplifiers checked under ALL assignments; over 9-40 variables in the vars-wide families: under a deterministic sample of 2n+26 assignments; both backends) and circuits with measure / measure-reset gates (translation checked for every outcome assignment, 3 modes x 2 backends); non-trivial = variables present and at least one rule accepted / rewrite fired, resp. at least one measurement; distinct = distinct descriptions");
    c.assume("oracles O1/O2/O3 correct (self-tested, cross-checked); instantiation is done by the harness from the public interface (vars(), scalar_factors(), Parity/Expr iterators)");
    let (ms, n_rand) = t.pick((5usize, 2000usize), (8usize, 40_000usize));
    par_cases("vars-graph-like", n_rand, move |r, i| {
        let d = gen_random(r, &DiagParams { max_spiders: ms + 1, max_bnd: 3, pool: PhasePool::CliffordHeavy, graph_like: true, bare_wires: false, var_prob: 0.5 });
        check_desc("vars-graph-like", i, r, &d);
    });
    par_cases("vars-arbitrary", n_rand, move |r, i| {
        let d = gen_random(r, &DiagParams { max_spiders: ms, max_bnd: 3, pool: PhasePool::CliffordHeavy, graph_like: false, bare_wires: true, var_prob: 0.4 });
        check_desc("vars-arbitrary", i, r, &d);
    });
    par_cases("vars-gadget-rich", n_rand, move |r, i| {
        let d = gen_gadget_rich(r, 4, PhasePool::CliffordHeavy, 0.5);
        check_desc("vars-gadget-rich", i, r, &d);
    });
    par_cases("vars-pauli-pairs", n_rand, move |r, i| {
        // small scalar-ish diagrams: isolated spiders and pairs (remove_single / remove_pair paths)
        let mut d = gen_random(r, &DiagParams { max_spiders: 3, max_bnd: 1, pool: PhasePool::Exact, graph_like: false, bare_wires: false, var_prob: 0.8 });
        if i % 2 == 1 {
            // a few variables with numbers around the word-size marks
            let offset = *r.pick(&[59u32, 60, 61, 62, 63, 125, 126, (1 << 16) - 2]);
            rewire_vars_from(&mut d, r, 5, 0.8, offset);
        }
        check_desc("vars-pauli-pairs", i, r, &d);
    });
    let nls = t.pick(40usize, 1_500usize);
    par_cases("vars-long-sparse", nls, move |r, i| {
        // few variables spread over many spiders (assignments stay <= 2^4)
        let gl = r.chance(0.5);
        let d = gen_long_sparse(r, 30, 80, PhasePool::CliffordHeavy, gl, 0.08);
        simps_only("vars-long-sparse", i, r, &d);
    });
    par_cases("vars-rule-walks", n_rand, move |r, i| {
        let d = match r.below(3) {
            0 => gen_random(r, &DiagParams { max_spiders: ms + 2, max_bnd: 3, pool: PhasePool::CliffordHeavy, graph_like: true, bare_wires: false, var_prob: 0.5 }),
            1 => gen_gadget_rich(r, 4, PhasePool::CliffordHeavy, 0.5),
            _ => gen_random(r, &DiagParams { max_spiders: ms + 1, max_bnd: 3, pool: PhasePool::CliffordHeavy, graph_like: false, bare_wires: true, var_prob: 0.4 }),
        };
        check_walks("vars-rule-walks", i, r, &d);
    });
    // many variables: parities with 8+ variables next to 1-2 variable ones, assignments sampled
    let nw = t.pick(600usize, 20_000usize);
    par_cases("vars-wide", nw, move |r, i| {
        let gl = r.chance(0.6);
        let mut d = match r.below(3) {
            0 => gen_random(r, &DiagParams { max_spiders: ms, max_bnd: 3, pool: PhasePool::CliffordHeavy, graph_like: gl, bare_wires: false, var_prob: 0.0 }),
            1 => gen_gadget_rich(r, 4, PhasePool::CliffordHeavy, 0.0),
            _ => gen_gadget_pairs(r, PhasePool::CliffordHeavy, 0.0),
        };
        let nv = *r.pick(&[9u32, 12, 16]);
        let offset = *r.pick(&[0u32, 0, 55, 58, 120, 1 << 20]);
        rewire_vars_from(&mut d, r, nv, 0.7, offset);
        check_desc("vars-wide", i, r, &d);
    });
    // many variables on many spiders: large scalar-factor tables
    let nwl = t.pick(24usize, 1_200usize);
    par_cases("vars-wide-long-sparse", nwl, move |r, i| {
        let gl = r.chance(0.5);
        let mut d = gen_long_sparse(r, 80, 200, PhasePool::CliffordHeavy, gl, 0.0);
        let nv = *r.pick(&[16u32, 24, 40]);
        rewire_vars(&mut d, r, nv, 0.6);
        simps_only("vars-wide-long-sparse", i, r, &d);
    });
    let nsf = t.pick(160usize, 1_500usize);
    par_cases("vars-scalar-forest", nsf, move |r, i| {
        let nv = *r.pick(&[5u32, 7, 10, 16]);
        let hi = *r.pick(&[40usize, 90, 160]);
        let d = gen_scalar_forest(r, 20, hi, PhasePool::Exact, nv);
        simps_only("vars-scalar-forest", i, r, &d);
    });
    let (nq, depth, nc) = t.pick((3usize, 12usize, 2000usize), (5usize, 30usize, 40_000usize));
    par_cases("measure-circuits", nc, move |r, i| {
        let mut p = CircParams::unitary(nq, depth, if r.chance(0.8) { PhPool::Exact } else { PhPool::Float });
        p.measure = true;
        p.ancilla = r.chance(0.3);
        p.ccz = r.chance(0.2);
        let circ = gen_circuit(r, &p);
        check_meas_circuit("measure-circuits", i, &circ);
    });
}

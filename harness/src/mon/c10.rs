//! C10 -- monitor (to be written)
use crate::fw::ctx;

pub fn run() {
    ctx().harness_error("C10 monitor not implemented yet");
}

//! C08 -- tensor evaluation of diagrams and circuits agrees with the reference semantics;
//! the comparison helpers decide exactly what they claim.
//!
//! Events and oracles
//! * diagrams (families: arbitrary, graph-like, gadget-rich, the shapes the quantifier
//!   lists, float-valued stored scalars, exhaustive tiny), both backends, plain and
//!   scrambled vertex ids: `to_tensor4()` is read entry by entry through the raw-parts hook
//!   and compared EXACTLY with the independent evaluator O2 (`snap::eval_graph`); entries
//!   flagged approximate (and diagrams with phases outside pi/4) are compared in floating
//!   point. `to_tensorf()` is compared with O2 in floating point, tolerance
//!   1e-8 * max(1, largest entry). Shape must be [2; n_in + n_out]; entries are read by
//!   explicit multi-index (inputs first, then outputs, in list order), so the check does
//!   not depend on the memory layout of the returned array.
//! * circuits over the gates `Circuit::to_tensor` supports (everything except
//!   pp / init_anc / post_sel / measure_*): against the gate-matrix simulator O3.
//!   Index convention verified by reading quizx/src/tensor.rs:401-471: the circuit tensor
//!   starts as ident(q) (axes 0..q = inputs, q..2q = outputs), gates are applied to the
//!   INPUT axes in reverse circuit order (all supported gate matrices are symmetric), hence
//!   t[i_0..i_{q-1}, o_0..o_{q-1}] = <o|U|i>: inputs first, then outputs, qubit 0 first --
//!   the same flat order as `oracle::sim::tensor_exact`.
//! * helpers: `ident`, `delta`, `cphase`, `hadamard`, `hadamard_at`, `delta_at`,
//!   `cphase_at`, `plug_n_qubits` against the model contractions of `oracle::tmodel`, on
//!   arrays in standard and non-standard memory layouts (swap_axes, column-major, strided
//!   slice, inverted axis); `==`, `scalar_eq`, `compare`, `scalar_compare` against the
//!   model relations "equal" / "equal up to a non-zero scalar factor" on generated pairs,
//!   exactly in `Tensor4`, and in `TensorF` only the float-robust clauses: identical
//!   (bitwise, or the same object evaluated twice) => true; different shape => false;
//!   entries differing by more than 1e-3 relative => `==`/`compare` false; both operands
//!   clearly non-zero and not proportional within 1e-3 => `scalar_eq`/`scalar_compare`
//!   false. ("exactly zero versus non-zero" is NOT float-robust for evaluated diagrams:
//!   1 + e^{i pi} leaves 1e-16 in floating point, and any two non-zero numbers are
//!   proportional.)
//!
//! A failing circuit / diagram is minimised before it is reported; for circuits the set of
//! gate kinds of the minimised witness is the discriminating part of the signature.

use crate::fw::{ctx, guarded, par_cases, Caught};
use crate::gen::circuit::{circ_hash, circ_json, gen_circuit, to_quizx, CircParams, PhPool};
use crate::gen::diagram::*;
use crate::gen::prng::{hash_bytes, Rng};
use crate::gen::shapes::{flags_of, gen_shapes, minimise};
use crate::oracle::eval::{self, EvalError, EK, VK};
use crate::oracle::ring::{cf_of_scalar, r_of_scalar, scalar_is_approx, scalar_of_r, Cf, Num, R};
use crate::oracle::sim::{self, Circ, G};
use crate::oracle::tmodel::{self, flat_of, index_of, InvSqrt2, MT};
use crate::snap::{eval_graph, graph_json, Tens, FLOAT_TOL};
use ndarray::{Array, Axis, Dimension, IxDyn, Slice};
use num::complex::Complex;
use num::Rational64;
use quizx::graph::GraphLike;
use quizx::scalar::Scalar4;
use quizx::tensor::{CompareTensors, QubitOps, Tensor, Tensor4, TensorElem, TensorF, ToTensor};
use serde_json::{json, Value};

// =========================================================================================
// element types: the two number types of the property, tied to their model types
// =========================================================================================

pub trait Elem: TensorElem + 'static {
    type M: InvSqrt2 + PartialEq + 'static;
    const NAME: &'static str;
    /// values can be read and compared exactly
    const EXACT: bool;
    fn to_m(&self) -> Self::M;
    fn of_m(m: &Self::M) -> Self;
    /// entry carries quizx's "approximate" flag
    fn flagged(&self) -> bool;
    fn m_cf(m: &Self::M) -> Cf;
    fn gen_m(r: &mut Rng) -> Self::M;
    fn gen_ph(r: &mut Rng) -> (i64, i64);
}

impl Elem for Scalar4 {
    type M = R;
    const NAME: &'static str = "Scalar4";
    const EXACT: bool = true;
    fn to_m(&self) -> R {
        r_of_scalar(self)
    }
    fn of_m(m: &R) -> Self {
        scalar_of_r(m).expect("model value does not fit a Scalar4")
    }
    fn flagged(&self) -> bool {
        scalar_is_approx(self)
    }
    fn m_cf(m: &R) -> Cf {
        m.to_cf()
    }
    fn gen_m(r: &mut Rng) -> R {
        let mut c = [0i64; 4];
        match r.below(4) {
            0 => c[0] = r.range(-4, 4),
            1 => c[r.below(4)] = if r.chance(0.5) { 1 } else { -1 },
            _ => {
                for x in c.iter_mut() {
                    if r.chance(0.6) {
                        *x = r.range(-3, 3);
                    }
                }
            }
        }
        if c == [0; 4] {
            c[r.below(4)] = 1;
        }
        R::from_i64s(c, r.range(-2, 2))
    }
    fn gen_ph(r: &mut Rng) -> (i64, i64) {
        gen_phase(r, PhasePool::Exact)
    }
}

impl Elem for Complex<f64> {
    type M = Cf;
    const NAME: &'static str = "Complex64";
    const EXACT: bool = false;
    fn to_m(&self) -> Cf {
        *self
    }
    fn of_m(m: &Cf) -> Self {
        *m
    }
    fn flagged(&self) -> bool {
        true
    }
    fn m_cf(m: &Cf) -> Cf {
        *m
    }
    fn gen_m(r: &mut Rng) -> Cf {
        if r.chance(0.3) {
            Cf::new(r.range(-3, 3) as f64, r.range(-3, 3) as f64) + Cf::new(0.5, 0.0)
        } else {
            Cf::new(r.f64() * 4.0 - 2.0, r.f64() * 4.0 - 2.0)
        }
    }
    fn gen_ph(r: &mut Rng) -> (i64, i64) {
        gen_phase(r, PhasePool::Float)
    }
}

/// tolerance of the helper checks in the float type (a handful of operations on entries
/// of size O(1))
const HELPER_TOL: f64 = 1e-9;

// =========================================================================================
// evidence counters: sharded, flushed into the run context once at the end of `run()`
// (the framework's counters take one global lock per call; at ~25 counter updates per
// tiny diagram that lock was the bottleneck of the whole monitor)
// =========================================================================================

const SHARDS: usize = 64;
static NEXT_SHARD: std::sync::atomic::AtomicUsize = std::sync::atomic::AtomicUsize::new(0);
thread_local! {
    static MY_SHARD: usize = NEXT_SHARD.fetch_add(1, std::sync::atomic::Ordering::Relaxed) % SHARDS;
}
type Shard = std::sync::Mutex<(std::collections::BTreeMap<String, u64>, std::collections::BTreeMap<String, u64>)>;
static ACC: std::sync::OnceLock<Vec<Shard>> = std::sync::OnceLock::new();

fn shard() -> &'static Shard {
    let v = ACC.get_or_init(|| (0..SHARDS).map(|_| std::sync::Mutex::new(Default::default())).collect());
    &v[MY_SHARD.with(|s| *s)]
}

fn cnt(key: &str, n: u64) {
    let mut g = shard().lock().unwrap_or_else(|e| e.into_inner());
    match g.0.get_mut(key) {
        Some(x) => *x += n,
        None => {
            g.0.insert(key.to_string(), n);
        }
    }
}

fn mx(key: &str, v: u64) {
    let mut g = shard().lock().unwrap_or_else(|e| e.into_inner());
    match g.1.get_mut(key) {
        Some(x) => *x = (*x).max(v),
        None => {
            g.1.insert(key.to_string(), v);
        }
    }
}

fn flush_counters() {
    let c = ctx();
    if let Some(v) = ACC.get() {
        for s in v {
            let mut g = s.lock().unwrap_or_else(|e| e.into_inner());
            for (k, n) in std::mem::take(&mut g.0) {
                c.count(&k, n);
            }
            for (k, n) in std::mem::take(&mut g.1) {
                c.maximum(&k, n);
            }
        }
    }
}

// =========================================================================================
// reading quizx tensors; entry-wise comparison
// =========================================================================================

/// Entries in logical order (first index most significant), read by explicit multi-index.
pub fn flatten<A: Clone>(t: &Tensor<A>) -> Result<Vec<A>, String> {
    if t.shape().iter().any(|&d| d != 2) {
        return Err(format!("shape {:?} is not [2; n]", t.shape()));
    }
    let nd = t.ndim();
    let mut out = Vec::with_capacity(1usize << nd);
    for e in 0..(1usize << nd) {
        let ix = index_of(e, nd);
        out.push(t[&ix[..]].clone());
    }
    Ok(out)
}

#[derive(Debug, Clone, Default)]
pub struct Diff {
    pub bad: Vec<usize>,
    pub exact_judged: usize,
    pub float_judged: usize,
    pub first: Option<(String, String)>,
}

impl Diff {
    pub fn ok(&self) -> bool {
        self.bad.is_empty()
    }
    pub fn json(&self, nd: usize) -> Value {
        json!({
            "mismatching_entries": self.bad.len(),
            "first_mismatch_index": self.bad.first().map(|&e| index_of(e, nd)),
            "first_mismatch_observed_expected": self.first,
            "entries_compared_exactly": self.exact_judged,
            "entries_compared_in_float": self.float_judged,
        })
    }
}

fn cfs(c: Cf) -> String {
    format!("{:.12e}{:+.12e}i", c.re, c.im)
}

/// Tensor4 entries against an oracle tensor: exact where both sides are exact, float
/// (tolerance `tol` * max(1, largest entry)) for entries flagged approximate or when the
/// oracle itself is floating point.
pub fn diff4(obs: &[Scalar4], exp: &Tens, tol: f64) -> Diff {
    let mut d = Diff::default();
    if obs.len() != exp.len() {
        d.bad.push(0);
        d.first = Some((format!("{} entries", obs.len()), format!("{} entries", exp.len())));
        return d;
    }
    let expf = exp.to_float();
    let obsf: Vec<Cf> = obs.iter().map(cf_of_scalar).collect();
    let scale = expf.iter().chain(obsf.iter()).map(|x| x.norm()).fold(1.0f64, f64::max);
    for e in 0..obs.len() {
        let ok = match exp {
            Tens::Exact(v) if !scalar_is_approx(&obs[e]) => {
                d.exact_judged += 1;
                r_of_scalar(&obs[e]) == v[e]
            }
            _ => {
                d.float_judged += 1;
                (obsf[e] - expf[e]).norm() <= tol * scale
            }
        };
        if !ok {
            if d.bad.is_empty() {
                let o = format!("{} = {}", r_of_scalar(&obs[e]), cfs(obsf[e]));
                let x = match exp {
                    Tens::Exact(v) => format!("{} = {}", v[e], cfs(expf[e])),
                    _ => cfs(expf[e]),
                };
                d.first = Some((o, x));
            }
            d.bad.push(e);
        }
    }
    d
}

pub fn difff(obs: &[Cf], exp: &[Cf], tol: f64) -> Diff {
    let mut d = Diff::default();
    if obs.len() != exp.len() {
        d.bad.push(0);
        d.first = Some((format!("{} entries", obs.len()), format!("{} entries", exp.len())));
        return d;
    }
    let scale = exp.iter().chain(obs.iter()).map(|x| x.norm()).fold(1.0f64, f64::max);
    for e in 0..obs.len() {
        d.float_judged += 1;
        let ok = (obs[e] - exp[e]).norm() <= tol * scale; // NaN compares false => mismatch
        if !ok {
            if d.bad.is_empty() {
                d.first = Some((cfs(obs[e]), cfs(exp[e])));
            }
            d.bad.push(e);
        }
    }
    d
}

/// generic version for the helper checks
pub fn diff_model<A: Elem>(obs: &[A], exp: &MT<A::M>) -> Diff {
    let mut d = Diff::default();
    if obs.len() != exp.data.len() {
        d.bad.push(0);
        d.first = Some((format!("{} entries", obs.len()), format!("{} entries", exp.data.len())));
        return d;
    }
    let obsf: Vec<Cf> = obs.iter().map(|x| A::m_cf(&x.to_m())).collect();
    let expf: Vec<Cf> = exp.data.iter().map(|x| A::m_cf(x)).collect();
    let scale = expf.iter().chain(obsf.iter()).map(|x| x.norm()).fold(1.0f64, f64::max);
    for e in 0..obs.len() {
        let ok = if A::EXACT && !obs[e].flagged() {
            d.exact_judged += 1;
            obs[e].to_m() == exp.data[e]
        } else {
            d.float_judged += 1;
            (obsf[e] - expf[e]).norm() <= HELPER_TOL * scale
        };
        if !ok {
            if d.bad.is_empty() {
                d.first = Some((format!("{:?}", obs[e]), format!("{:?}", exp.data[e])));
            }
            d.bad.push(e);
        }
    }
    d
}

fn brief4(obs: &[Scalar4]) -> Value {
    json!(obs.iter().take(32).map(|s| format!("{}", r_of_scalar(s))).collect::<Vec<_>>())
}
fn brieff(obs: &[Cf]) -> Value {
    json!(obs.iter().take(32).map(|c| cfs(*c)).collect::<Vec<_>>())
}

// =========================================================================================
// findings (returned, not recorded, so that the judges can be reused by the minimisers
// and by the Miri workload, which has no run context)
// =========================================================================================

#[derive(Debug, Clone)]
pub struct Finding {
    pub sig: String,
    pub detail: Value,
}

#[derive(Debug, Clone, Default)]
pub struct JudgeStats {
    pub entries_exact: usize,
    pub entries4_float: usize,
    pub entries_float: usize,
    pub approx_entries_in_exact_case: usize,
    pub oracle_exact: bool,
    pub nonzero: bool,
    pub n_bnd: usize,
}

fn panic_finding(site: &str, e: &Caught) -> Finding {
    Finding { sig: format!("{site}|panic|{}", e.site()), detail: json!({"panic": e.text()}) }
}

/// value-mismatch class: only a global factor is wrong, or the entries themselves
fn mismatch_class(obs: &[Cf], exp: &[Cf]) -> &'static str {
    let zo = obs.iter().all(|x| x.norm() < 1e-12);
    let ze = exp.iter().all(|x| x.norm() < 1e-12);
    if zo != ze {
        "zero-vs-nonzero"
    } else if eval::proportional_float(obs, exp, 1e-6) {
        "wrong-scalar-factor"
    } else {
        "wrong-entries"
    }
}

/// Shared by diagrams and circuits: check one exact and one float tensor against `exp`.
fn judge_tensors(
    site: &str,
    n: usize,
    exp: &Tens,
    t4: Result<Tensor4, Caught>,
    tf: Result<TensorF, Caught>,
    stats: &mut JudgeStats,
    tf_root_cause: &dyn Fn(&[Cf], &[Cf]) -> Option<(String, Value)>,
) -> Vec<Finding> {
    let mut out = vec![];
    let want_shape = vec![2usize; n];
    let expf = exp.to_float();
    match t4 {
        Err(Caught::Oracle(_)) | Err(Caught::Budget(_)) => {}
        Err(e) => out.push(panic_finding(&format!("{site}.to_tensor4"), &e)),
        Ok(t) => {
            if t.shape() != &want_shape[..] {
                out.push(Finding {
                    sig: format!("{site}.to_tensor4|wrong-shape"),
                    detail: json!({"observed_shape": t.shape(), "expected_shape": want_shape}),
                });
            } else {
                let obs = flatten(&t).expect("shape was checked");
                let d = diff4(&obs, exp, FLOAT_TOL);
                stats.entries_exact += d.exact_judged;
                stats.entries4_float += d.float_judged;
                if exp.is_exact() {
                    stats.approx_entries_in_exact_case += d.float_judged;
                }
                if !d.ok() {
                    let obsf: Vec<Cf> = obs.iter().map(cf_of_scalar).collect();
                    out.push(Finding {
                        sig: format!("{site}.to_tensor4|value-mismatch|{}", mismatch_class(&obsf, &expf)),
                        detail: json!({"diff": d.json(n), "observed": brief4(&obs), "expected": exp.brief()}),
                    });
                }
            }
        }
    }
    match tf {
        Err(Caught::Oracle(_)) | Err(Caught::Budget(_)) => {}
        Err(e) => out.push(panic_finding(&format!("{site}.to_tensorf"), &e)),
        Ok(t) => {
            if t.shape() != &want_shape[..] {
                out.push(Finding {
                    sig: format!("{site}.to_tensorf|wrong-shape"),
                    detail: json!({"observed_shape": t.shape(), "expected_shape": want_shape}),
                });
            } else {
                let obs = flatten(&t).expect("shape was checked");
                let d = difff(&obs, &expf, FLOAT_TOL);
                stats.entries_float += d.float_judged;
                if !d.ok() {
                    let (class, extra) = match tf_root_cause(&obs, &expf) {
                        Some((c, x)) => (c, x),
                        None => (mismatch_class(&obs, &expf).to_string(), Value::Null),
                    };
                    out.push(Finding {
                        sig: format!("{site}.to_tensorf|value-mismatch|{class}"),
                        detail: json!({"diff": d.json(n), "observed": brieff(&obs), "expected": exp.brief(), "root_cause": extra}),
                    });
                }
            }
        }
    }
    out
}

/// Judge one graph. Err = inconclusive / not judged (with the reason).
pub fn judge_graph<G: GraphLike + Clone>(g: &G) -> Result<(Vec<Finding>, JudgeStats), EvalError> {
    let exp = eval_graph(g)?;
    let n = g.inputs().len() + g.outputs().len();
    let mut stats = JudgeStats { oracle_exact: exp.is_exact(), nonzero: !exp.is_all_zero(), n_bnd: n, ..Default::default() };
    let t4 = guarded(|| g.to_tensor4());
    let tf = guarded(|| g.to_tensorf());
    // root cause probe for float mismatches: the f64 conversion of the stored scalar
    // (quizx multiplies the float tensor by `Complex::try_from(scalar)`)
    let scalar = *g.scalar();
    let root = move |obs: &[Cf], expf: &[Cf]| -> Option<(String, Value)> {
        let mine = cf_of_scalar(&scalar);
        let theirs = guarded(|| Complex::<f64>::try_from(scalar)).ok()?.ok()?;
        if (theirs - mine).norm() <= 1e-9 * mine.norm().max(1e-300) {
            return None;
        }
        // does the wrong conversion explain the whole mismatch?
        let explained = if mine.norm() > 0.0 {
            let f = theirs / mine;
            let adj: Vec<Cf> = expf.iter().map(|x| x * f).collect();
            difff(obs, &adj, 1e-6).ok()
        } else {
            false
        };
        if !explained {
            return None;
        }
        Some((
            "scalar-f64-conversion".to_string(),
            json!({
                "stored_scalar_raw_parts(sign,approx,mantissa,exp)": format!("{:?}", scalar.verif_raw()),
                "exact_value_of_stored_scalar": cfs(mine),
                "quizx_conversion_to_complex_f64": cfs(theirs),
                "explains_whole_mismatch": explained,
            }),
        ))
    };
    let out = judge_tensors("graph", n, &exp, t4, tf, &mut stats, &root);
    Ok((out, stats))
}

fn oracle_circuit(c: &Circ) -> Tens {
    if c.is_pi4() {
        Tens::Exact(sim::tensor_exact(c).0)
    } else {
        Tens::Float(sim::tensor_float(c).0)
    }
}

pub fn judge_circuit(c: &Circ) -> (Vec<Finding>, JudgeStats) {
    let exp = oracle_circuit(c);
    let n = 2 * c.n;
    let mut stats = JudgeStats { oracle_exact: exp.is_exact(), nonzero: true, n_bnd: n, ..Default::default() };
    let qc = crate::gen::circuit::to_quizx_layout(c);
    let t4 = guarded(|| qc.to_tensor4());
    let tf = guarded(|| qc.to_tensorf());
    let out = judge_tensors("Circuit", n, &exp, t4, tf, &mut stats, &|_: &[Cf], _: &[Cf]| None);
    (out, stats)
}

/// `call site|failure kind` of a signature: what a witness is minimised against. The third
/// component (the value-mismatch class) is taken from the MINIMISED witness, so that one
/// root cause does not spread over several signatures.
pub fn sig_prefix(sig: &str) -> String {
    sig.split('|').take(2).collect::<Vec<_>>().join("|")
}

/// Greedy 1-minimal circuit with respect to "a finding whose signature starts with
/// `sig_prefix` is produced", followed by removal of unused qubits.
pub fn minimise_circuit(c: &Circ, sig_prefix: &str) -> Circ {
    let fails = |c: &Circ| judge_circuit(c).0.iter().any(|f| f.sig.starts_with(sig_prefix));
    let mut cur = c.clone();
    let mut progress = true;
    while progress {
        progress = false;
        for k in 0..cur.gates.len() {
            let mut cand = cur.clone();
            cand.gates.remove(k);
            if fails(&cand) {
                cur = cand;
                progress = true;
                break;
            }
        }
    }
    // compact qubits
    let mut used: Vec<usize> = cur.gates.iter().flat_map(|g| g.qubits()).collect();
    used.sort();
    used.dedup();
    if !used.is_empty() && used.len() < cur.n {
        let m = |q: usize| used.iter().position(|&u| u == q).unwrap();
        let gates: Option<Vec<G>> = cur
            .gates
            .iter()
            .map(|g| {
                Some(match g {
                    G::Rz(q, p) => G::Rz(m(*q), *p),
                    G::Rx(q, p) => G::Rx(m(*q), *p),
                    G::X(q) => G::X(m(*q)),
                    G::Z(q) => G::Z(m(*q)),
                    G::S(q) => G::S(m(*q)),
                    G::T(q) => G::T(m(*q)),
                    G::Sdg(q) => G::Sdg(m(*q)),
                    G::Tdg(q) => G::Tdg(m(*q)),
                    G::H(q) => G::H(m(*q)),
                    G::Cx(a, b) => G::Cx(m(*a), m(*b)),
                    G::Cz(a, b) => G::Cz(m(*a), m(*b)),
                    G::Xcx(a, b) => G::Xcx(m(*a), m(*b)),
                    G::Swap(a, b) => G::Swap(m(*a), m(*b)),
                    G::Ccz(a, b, c) => G::Ccz(m(*a), m(*b), m(*c)),
                    G::Ccx(a, b, c) => G::Ccx(m(*a), m(*b), m(*c)),
                    _ => return None,
                })
            })
            .collect();
        if let Some(gates) = gates {
            let cand = Circ { n: used.len(), gates };
            if fails(&cand) {
                cur = cand;
            }
        }
    }
    cur
}

fn gate_kinds(c: &Circ) -> String {
    let mut k: Vec<&str> = c.gates.iter().map(|g| g.name()).collect();
    k.sort();
    k.dedup();
    if k.is_empty() {
        "none".to_string()
    } else {
        k.join("+")
    }
}

// =========================================================================================
// diagram families
// =========================================================================================

#[derive(Clone, Copy, PartialEq, Debug)]
enum ScalarMode {
    AsDescribed,
    /// multiply the stored scalar by two float-valued numbers, so that its coefficients are
    /// approximate and (about half of the time) have 64 significant mantissa bits
    FloatProduct,
}

fn build_for<GG: GraphLike + Clone>(d: &DDesc, scr: Option<u64>, mode: ScalarMode, extra: (f64, f64, f64, f64)) -> GG {
    let (mut g, _) = d.build::<GG>(scr);
    if mode == ScalarMode::FloatProduct {
        let s = *g.scalar() * Scalar4::complex(extra.0, extra.1) * Scalar4::complex(extra.2, extra.3);
        *g.scalar_mut() = s;
    }
    g
}

fn check_diagram(family: &'static str, index: u64, r: &mut Rng, d: &DDesc, mode: ScalarMode) {
    check_diagram_opts(family, index, r, d, mode, false)
}

/// `vec_plain_only`: vector backend, ids in creation order. quizx contracts the spiders in
/// `vertices()` order; for a chain of thousands of spiders any other order (recycled ids, hash
/// iteration order) leaves hundreds of indices open at once - a cost of the evaluator, not a
/// defect, and nothing this monitor can afford to run.
fn check_diagram_opts(family: &'static str, index: u64, r: &mut Rng, d: &DDesc, mode: ScalarMode, vec_plain_only: bool) {
    let c = ctx();
    let scr = if !vec_plain_only && r.chance(0.5) { Some(r.next_u64()) } else { None };
    let extra = (r.f64() * 2.0 - 1.0, r.f64() * 2.0 - 1.0, r.f64() * 2.0 - 1.0, r.f64() * 2.0 - 1.0);
    let flags = flags_of(d);
    let mut any_stats = None;
    for backend in ["vec", "hash"] {
        if vec_plain_only && backend == "hash" {
            continue;
        }
        let res = if backend == "vec" {
            let g: quizx::vec_graph::Graph = build_for(d, scr, mode, extra);
            judge_graph(&g).map(|x| (x, graph_json(&g)))
        } else {
            let g: quizx::hash_graph::Graph = build_for(d, scr, mode, extra);
            judge_graph(&g).map(|x| (x, graph_json(&g)))
        };
        let ((findings, stats), gj) = match res {
            Ok(x) => x,
            Err(EvalError::TooWide(_)) => {
                c.skipped();
                return;
            }
            Err(EvalError::IllFormed(m)) => {
                c.harness_error(&format!("C08 generator produced an ill-formed diagram ({family}#{index}): {m}"));
                return;
            }
        };
        cnt(&format!("graph-evaluations:{backend}"), 2);
        cnt("tensor4-entries-compared-exactly", stats.entries_exact as u64);
        cnt("tensor4-entries-compared-in-float", stats.entries4_float as u64);
        cnt("tensorf-entries-compared", stats.entries_float as u64);
        cnt("approx-flagged-entries-in-exact-diagrams", stats.approx_entries_in_exact_case as u64);
        cnt(if stats.oracle_exact { "diagrams-with-exact-oracle" } else { "diagrams-with-float-oracle" }, 1);
        mx("max-boundaries", stats.n_bnd as u64);
        for f in findings {
            // minimise on the description (same backend, same scramble and scalar mode)
            let prefix = sig_prefix(&f.sig);
            let judge_desc = |dd: &DDesc| {
                if backend == "vec" {
                    judge_graph(&build_for::<quizx::vec_graph::Graph>(dd, scr, mode, extra))
                } else {
                    judge_graph(&build_for::<quizx::hash_graph::Graph>(dd, scr, mode, extra))
                }
            };
            let fails = |dd: &DDesc| -> bool { matches!(judge_desc(dd), Ok((fs, _)) if fs.iter().any(|x| x.sig.starts_with(&prefix))) };
            let small = minimise(d, &fails);
            // the class (third component) is that of the minimised witness
            let small_sig = match judge_desc(&small) {
                Ok((fs, _)) => fs.iter().find(|x| x.sig.starts_with(&prefix)).map(|x| x.sig.clone()),
                _ => None,
            }
            .unwrap_or_else(|| f.sig.clone());
            c.violation(
                &small_sig,
                family,
                index,
                json!({
                    "backend": backend, "scrambled_ids": scr.is_some(), "scalar_mode": format!("{mode:?}"),
                    "float_factors": [extra.0, extra.1, extra.2, extra.3],
                    "diagram": d.to_json(), "graph_as_built": gj, "shape_flags": flags.names(),
                    "minimised_diagram": small.to_json(),
                    "finding": f.detail,
                }),
            );
        }
        any_stats = Some(stats);
    }
    let stats = any_stats.unwrap();
    for n in flags.names() {
        cnt(&format!("shape:{n}"), 1);
    }
    if d.inputs.len() > 0 && d.outputs.len() > 0 {
        cnt("shape:has-inputs-and-outputs", 1);
    }
    let nontrivial = d.verts.len() >= 2 && !d.edges.is_empty() && stats.nonzero;
    c.case(family, if nontrivial { Some(d.hash() ^ (mode as u64)) } else { None });
    c.evals(3); // 2 backends x 2 number types per diagram
    c.sample_n(3, || json!({"family": family, "index": index, "diagram": d.to_json(), "flags": flags.names()}));
}

// =========================================================================================
// circuit families
// =========================================================================================

fn check_circuit(family: &'static str, index: u64, circ: &Circ) {
    let c = ctx();
    let (findings, stats) = judge_circuit(circ);
    cnt("circuit-evaluations", 2);
    cnt("tensor4-entries-compared-exactly", stats.entries_exact as u64);
    cnt("tensor4-entries-compared-in-float", stats.entries4_float as u64);
    cnt("tensorf-entries-compared", stats.entries_float as u64);
    cnt(if stats.oracle_exact { "circuits-with-exact-oracle" } else { "circuits-with-float-oracle" }, 1);
    mx("max-circuit-qubits", circ.n as u64);
    mx("max-circuit-gates", circ.gates.len() as u64);
    for g in &circ.gates {
        cnt(&format!("gate:{}", g.name()), 1);
    }
    for f in findings {
        let prefix = sig_prefix(&f.sig);
        let small = minimise_circuit(circ, &prefix);
        let (sf, _) = judge_circuit(&small);
        let small_f = sf.iter().find(|x| x.sig.starts_with(&prefix));
        let small_detail = small_f.map(|x| x.detail.clone());
        let small_sig = small_f.map(|x| x.sig.clone()).unwrap_or_else(|| f.sig.clone());
        let sig = if small_sig.contains("|panic|") { small_sig } else { format!("{}|gates={}", small_sig, gate_kinds(&small)) };
        c.violation(
            &sig,
            family,
            index,
            json!({
                "circuit": circ_json(circ), "finding": f.detail,
                "minimised_circuit": circ_json(&small), "minimised_finding": small_detail,
            }),
        );
    }
    c.case(family, if circ.gates.len() >= 2 { Some(circ_hash(circ)) } else { None });
    c.evals(1);
    c.sample_n(5, || json!({"family": family, "index": index, "circuit": circ_json(circ)}));
}

fn circ_params(max_q: usize, max_d: usize, pool: PhPool, swap: bool) -> CircParams {
    let mut p = CircParams::unitary(max_q, max_d, pool);
    p.pp = false; // Circuit::to_tensor panics "Unsupported gate" on pp / ancilla / measure
    p.swap = swap;
    p
}

// =========================================================================================
// helper constructors and in-place operations
// =========================================================================================

#[derive(Clone, Copy, Debug, PartialEq)]
pub enum Layout {
    Standard,
    Swapped(usize, usize),
    ColumnMajor,
    Strided(usize),
    Inverted(usize),
}

impl Layout {
    pub fn name(&self) -> &'static str {
        match self {
            Layout::Standard => "standard",
            Layout::Swapped(..) => "swap_axes",
            Layout::ColumnMajor => "column-major",
            Layout::Strided(_) => "strided-slice",
            Layout::Inverted(_) => "inverted-axis",
        }
    }
    pub fn pick(r: &mut Rng, nd: usize) -> Layout {
        if nd == 0 {
            return Layout::Standard;
        }
        match r.below(if nd >= 2 { 6 } else { 3 }) {
            0 => Layout::Standard,
            1 => Layout::Strided(r.below(nd)),
            2 => Layout::Inverted(r.below(nd)),
            3 => Layout::ColumnMajor,
            _ => {
                let i = r.below(nd);
                let mut j = r.below(nd - 1);
                if j >= i {
                    j += 1;
                }
                Layout::Swapped(i, j)
            }
        }
    }
}

/// An ndarray whose LOGICAL content is `m`, stored in the requested memory layout.
pub fn build<A: Elem>(m: &MT<A::M>, l: Layout) -> Tensor<A> {
    let nd = m.nd;
    let shape = vec![2usize; nd];
    let at = |ix: &[usize]| A::of_m(&m.data[flat_of(ix)]);
    match l {
        Layout::Standard => Array::from_shape_fn(IxDyn(&shape), |ix| at(ix.slice())),
        Layout::Swapped(i, j) => {
            let mut a = Array::from_shape_fn(IxDyn(&shape), |ix| {
                let mut v = ix.slice().to_vec();
                v.swap(i, j);
                at(&v)
            });
            a.swap_axes(i, j);
            a
        }
        Layout::ColumnMajor => {
            let a = Array::from_shape_fn(IxDyn(&shape), |ix| {
                let mut v = ix.slice().to_vec();
                v.reverse();
                at(&v)
            });
            a.reversed_axes()
        }
        Layout::Strided(k) => {
            let mut sh = shape.clone();
            sh[k] = 4;
            let junk = A::of_m(&A::M::from_phase(1, 4));
            let mut a = Array::from_shape_fn(IxDyn(&sh), |ix| {
                let mut v = ix.slice().to_vec();
                let odd = v[k] % 2 == 1;
                v[k] /= 2;
                if odd {
                    junk
                } else {
                    at(&v)
                }
            });
            a.slice_axis_inplace(Axis(k), Slice::new(0, None, 2));
            a
        }
        Layout::Inverted(k) => {
            let mut a = Array::from_shape_fn(IxDyn(&shape), |ix| {
                let mut v = ix.slice().to_vec();
                v[k] = 1 - v[k];
                at(&v)
            });
            a.invert_axis(Axis(k));
            a
        }
    }
}

pub fn gen_mt<A: Elem>(r: &mut Rng, nd: usize, zero_prob: f64) -> MT<A::M> {
    MT::new(nd, (0..(1usize << nd)).map(|_| if r.chance(zero_prob) { A::M::zero() } else { A::gen_m(r) }).collect())
}

fn mt_json<A: Elem>(m: &MT<A::M>) -> Value {
    json!({"indices": m.nd, "entries(flat, first index most significant)": m.data.iter().map(|x| format!("{x:?}")).collect::<Vec<_>>()})
}

fn ph_q(p: (i64, i64)) -> Rational64 {
    Rational64::new(p.0, p.1)
}

/// Compare a quizx result tensor with the model; returns a finding on disagreement.
fn judge_result<A: Elem>(site: &str, cond: &str, res: Result<Tensor<A>, Caught>, exp: &MT<A::M>, input: Value) -> Option<Finding> {
    let ty = A::NAME;
    match res {
        Err(Caught::Oracle(_)) | Err(Caught::Budget(_)) => None,
        Err(e) => Some(Finding { sig: format!("{site}|panic|{cond}"), detail: json!({"panic": e.text(), "element_type": ty, "input": input}) }),
        Ok(t) => {
            let want = vec![2usize; exp.nd];
            if t.shape() != &want[..] {
                return Some(Finding {
                    sig: format!("{site}|wrong-shape|{cond}"),
                    detail: json!({"observed_shape": t.shape(), "expected_shape": want, "element_type": ty, "input": input}),
                });
            }
            let obs = flatten(&t).expect("shape checked");
            let d = diff_model::<A>(&obs, exp);
            if d.ok() {
                None
            } else {
                Some(Finding {
                    sig: format!("{site}<{ty}>|value-mismatch|{cond}"),
                    detail: json!({
                        "diff": d.json(exp.nd), "input": input,
                        "observed": obs.iter().take(64).map(|x| format!("{:?}", x.to_m())).collect::<Vec<_>>(),
                        "expected": exp.data.iter().take(64).map(|x| format!("{x:?}")).collect::<Vec<_>>(),
                    }),
                })
            }
        }
    }
}

fn constructor_cases<A: Elem>() -> Vec<(String, Box<dyn Fn() -> Tensor<A> + Send + Sync>, MT<A::M>)> {
    let mut v: Vec<(String, Box<dyn Fn() -> Tensor<A> + Send + Sync>, MT<A::M>)> = vec![];
    for q in 0..=4usize {
        v.push((format!("ident({q})"), Box::new(move || Tensor::<A>::ident(q)), MT::ident(q)));
    }
    for q in 1..=6usize {
        v.push((format!("delta({q})"), Box::new(move || Tensor::<A>::delta(q)), MT::delta(q)));
    }
    let mut phases: Vec<(i64, i64)> = vec![(0, 1), (1, 4), (1, 2), (3, 4), (1, 1), (-1, 4), (-1, 2), (-3, 4)];
    if !A::EXACT {
        phases.extend([(1, 3), (-2, 5), (7, 8), (-5, 16), (1, 1024)]);
    }
    for q in 1..=3usize {
        for &p in &phases {
            v.push((format!("cphase({}/{},{q})", p.0, p.1), Box::new(move || Tensor::<A>::cphase(ph_q(p), q)), MT::cphase(p.0, p.1, q)));
        }
    }
    v.push(("hadamard()".into(), Box::new(|| Tensor::<A>::hadamard()), MT::hadamard()));
    v
}

fn run_constructors<A: Elem>(family: &'static str) {
    let n = constructor_cases::<A>().len();
    par_cases(family, n, move |_r, i| {
        let c = ctx();
        let cases = constructor_cases::<A>();
        let (name, f, exp) = &cases[i as usize];
        let res = guarded(|| f());
        let site = name.split('(').next().unwrap().to_string();
        if let Some(fi) = judge_result::<A>(&site, "constructor", res, exp, json!({"call": name})) {
            c.violation(&fi.sig, family, i, fi.detail);
        }
        cnt(&format!("helper:{site}<{}>", A::NAME), 1);
        c.case(family, Some(hash_bytes(format!("{}{}", A::NAME, name).as_bytes())));
    });
}

#[derive(Clone, Debug)]
enum Op {
    Had(usize),
    Delta(Vec<usize>),
    CPhase((i64, i64), Vec<usize>),
}

fn gen_qs(r: &mut Rng, nd: usize) -> Vec<usize> {
    let mut qs: Vec<usize> = (0..nd).collect();
    r.shuffle(&mut qs);
    qs.truncate(1 + r.below(nd.min(3)));
    qs
}

fn check_inplace<A: Elem>(family: &'static str, index: u64, r: &mut Rng) {
    let nd = 1 + r.below(5);
    check_inplace_nd::<A>(family, index, r, nd)
}

fn check_inplace_nd<A: Elem>(family: &'static str, index: u64, r: &mut Rng, nd: usize) {
    let c = ctx();
    let zp = *r.pick(&[0.0, 0.3]);
    let m0 = gen_mt::<A>(r, nd, zp);
    let layout = Layout::pick(r, nd);
    let mut t: Tensor<A> = build::<A>(&m0, layout);
    match flatten(&t) {
        Ok(f) if diff_model::<A>(&f, &m0).ok() => {}
        _ => {
            c.harness_error(&format!("C08 layout builder does not reproduce the model tensor ({layout:?})"));
            return;
        }
    }
    let mut m = m0.clone();
    let nops = 1 + r.below(3);
    let mut history = vec![];
    for _ in 0..nops {
        let op = match r.below(3) {
            // the first and the last axis are where a size-dependent strategy would special-case
            0 => Op::Had(if nd > 6 && r.chance(0.6) { *r.pick(&[0, nd - 1]) } else { r.below(nd) }),
            1 => Op::Delta(gen_qs(r, nd)),
            _ => Op::CPhase(A::gen_ph(r), gen_qs(r, nd)),
        };
        history.push(format!("{op:?}"));
        let (site, exp) = match &op {
            Op::Had(i) => ("hadamard_at", m.hadamard_at(*i)),
            Op::Delta(qs) => ("delta_at", m.delta_at(qs)),
            Op::CPhase(p, qs) => ("cphase_at", m.cphase_at(p.0, p.1, qs)),
        };
        let mut t2 = t.clone();
        let res = guarded(move || {
            match &op {
                Op::Had(i) => t2.hadamard_at(*i),
                Op::Delta(qs) => t2.delta_at(qs),
                Op::CPhase(p, qs) => t2.cphase_at(ph_q(*p), qs),
            }
            t2
        });
        cnt(&format!("helper:{site}<{}>:{}", A::NAME, layout.name()), 1);
        let input = json!({"tensor": mt_json::<A>(&m0), "layout": format!("{layout:?}"), "operations": history});
        let cond = if layout == Layout::Standard { "standard-layout" } else { "nonstandard-layout" };
        match judge_result::<A>(site, cond, res.clone(), &exp, input) {
            Some(f) => {
                c.violation(&f.sig, family, index, f.detail);
                break;
            }
            None => {}
        }
        match res {
            Ok(tt) => t = tt,
            Err(_) => break,
        }
        m = exp;
    }
    let h = hash_bytes(format!("{}{:?}{:?}{:?}", A::NAME, m0.data, layout, history).as_bytes());
    c.case(family, if nd >= 2 { Some(h) } else { None });
}

// ------------------------------------------------------------------------------------------
// plug_n_qubits
// ------------------------------------------------------------------------------------------

fn check_plug<A: Elem>(family: &'static str, index: u64, r: &mut Rng) {
    let c = ctx();
    // scenario: 0 baseline (other has exactly 2n indices, standard layouts -- the only form
    // the in-repo test uses), 1 self in a non-standard layout, 2 other in a non-standard
    // layout, 3 other.ndim != 2n, 4 free mix
    let scenario = r.below(5);
    let (d1, d2, n) = loop {
        let n = r.below(4);
        let d1 = n + r.below(4 - n.min(3));
        let d2 = if scenario <= 2 { 2 * n } else { n + r.below(4) };
        if d1 + d2 - 2 * n <= 6 && d1 <= 5 && d2 <= 6 {
            if scenario == 3 && d2 == 2 * n {
                continue;
            }
            if (scenario == 1 && d1 == 0) || (scenario == 2 && d2 == 0) {
                continue;
            }
            break (d1, d2, n);
        }
    };
    let (za, zb) = (*r.pick(&[0.0, 0.3]), *r.pick(&[0.0, 0.3]));
    let ma = gen_mt::<A>(r, d1, za);
    let mb = gen_mt::<A>(r, d2, zb);
    let nonstd = |r: &mut Rng, nd: usize| loop {
        let l = Layout::pick(r, nd);
        if l != Layout::Standard {
            break l;
        }
    };
    let (la, lb) = match scenario {
        0 | 3 => (Layout::Standard, Layout::Standard),
        1 => (nonstd(r, d1), Layout::Standard),
        2 => (Layout::Standard, nonstd(r, d2)),
        _ => (Layout::pick(r, d1), Layout::pick(r, d2)),
    };
    let exp = ma.plug(n, &mb);
    let run = |la: Layout, lb: Layout| -> Result<Tensor<A>, Caught> {
        let a = build::<A>(&ma, la);
        let b = build::<A>(&mb, lb);
        guarded(move || a.plug_n_qubits(n, &b))
    };
    let input = json!({
        "self": mt_json::<A>(&ma), "self_layout": format!("{la:?}"),
        "other": mt_json::<A>(&mb), "other_layout": format!("{lb:?}"), "n": n,
    });
    cnt(&format!("helper:plug_n_qubits<{}>", A::NAME), 1);
    cnt(&format!("plug:self-layout={}", la.name()), 1);
    cnt(&format!("plug:other-layout={}", lb.name()), 1);
    cnt(
        if d2 == 2 * n {
            "plug:other-ndim=2n"
        } else if d2 > 2 * n {
            "plug:other-ndim>2n"
        } else {
            "plug:other-ndim<2n"
        },
        1,
    );
    cnt(&format!("plug:n={n}"), 1);
    let first = judge_result::<A>("plug_n_qubits", "?", run(la, lb), &exp, input.clone());
    if let Some(f) = first {
        // attribute the failure: remove the non-baseline conditions one at a time
        let ndim_cond = if d2 > 2 * n {
            "other-ndim>2n"
        } else if d2 < 2 * n {
            "other-ndim<2n"
        } else {
            "baseline"
        };
        let both_std = judge_result::<A>("plug_n_qubits", ndim_cond, run(Layout::Standard, Layout::Standard), &exp, input.clone());
        let reported = if let Some(f2) = both_std {
            f2
        } else {
            let self_std = judge_result::<A>("plug_n_qubits", "other-nonstandard-layout", run(Layout::Standard, lb), &exp, input.clone());
            match self_std {
                Some(f3) => f3,
                None => Finding { sig: f.sig.replace("|?", "|self-nonstandard-layout"), detail: f.detail },
            }
        };
        c.violation(&reported.sig, family, index, reported.detail);
    }
    let h = hash_bytes(format!("{}{:?}{:?}{:?}{:?}{n}", A::NAME, ma.data, mb.data, la, lb).as_bytes());
    c.case(family, if n >= 1 && d1 + d2 >= 3 { Some(h) } else { None });
}

// =========================================================================================
// comparison helpers
// =========================================================================================

/// A literal tensor as a `ToTensor` implementor, so that `compare` / `scalar_compare` can
/// be driven with arbitrary pairs (the conversion to the float type goes through quizx's
/// `TryFrom<Scalar4>`, on small exact values only).
#[derive(Clone)]
pub struct Lit(pub Tensor4);

impl ToTensor for Lit {
    fn to_tensor<A: TensorElem>(&self) -> Tensor<A> {
        self.0.map(|s| A::try_from(*s).unwrap())
    }
}

pub const PAIR_CLASSES: [&str; 11] = [
    "identical",
    "unit-scaled",
    "nonunit-scaled",
    "zero-scaled",
    "entry-perturbed",
    "first-nonzero-moved",
    "both-zero",
    "different-ndim",
    "same-size-different-shape",
    "scaled-and-perturbed",
    "independent",
];

fn nonunit(r: &mut Rng) -> R {
    let w = |k| R::omega_pow(k);
    match r.below(6) {
        0 => R::one().add(&w(1)),
        1 => R::sqrt2_pow(1),
        2 => R::int(2),
        3 => R::int(3),
        4 => R::one().add(&w(1).mul(&R::int(2))),
        _ => R::from_i64s([1, 0, 0, -1], -1),
    }
}

/// (T, U, reshape U's first two axes into one?) for a class
fn gen_pair(r: &mut Rng, class: &str) -> (MT<R>, MT<R>, bool) {
    let nd = match class {
        "same-size-different-shape" => 2 + r.below(3),
        _ => r.below(5),
    };
    let zp = *r.pick(&[0.0, 0.3, 0.7]);
    let mut t = gen_mt::<Scalar4>(r, nd, zp);
    if class != "both-zero" && t.is_all_zero() {
        t.data[r.below(1 << nd)] = Scalar4::gen_m(r);
    }
    let len = 1usize << nd;
    let mut reshape = false;
    let u = match class {
        "identical" => t.clone(),
        "unit-scaled" => t.scale(&R::omega_pow(1 + r.below(7) as i64)),
        "nonunit-scaled" => t.scale(&nonunit(r)),
        "zero-scaled" => t.scale(&R::zero()),
        "entry-perturbed" => {
            let mut u = t.clone();
            let e = r.below(len);
            u.data[e] = match r.below(3) {
                0 => u.data[e].add(&R::one()),
                1 if !u.data[e].is_zero() => R::zero(),
                _ => u.data[e].add(&Scalar4::gen_m(r)),
            };
            u
        }
        "first-nonzero-moved" => {
            let mut u = t.clone();
            let p = t.first_nonzero().unwrap();
            let zeros: Vec<usize> = (0..len).filter(|&e| t.data[e].is_zero()).collect();
            match r.below(3) {
                // an earlier entry becomes non-zero
                0 if p > 0 => u.data[r.below(p)] = Scalar4::gen_m(r),
                // the same first non-zero VALUE, at another position (scalar_eq then
                // finds equal leading values and must still answer false)
                1 if !zeros.is_empty() => u.data.swap(p, zeros[r.below(zeros.len())]),
                // the first non-zero entry disappears
                _ => u.data[p] = R::zero(),
            }
            u
        }
        "both-zero" => {
            t = MT::zeros(nd);
            MT::zeros(nd)
        }
        "different-ndim" => {
            let nd2 = if nd == 0 || r.chance(0.5) { nd + 1 } else { nd - 1 };
            match r.below(3) {
                0 => gen_mt::<Scalar4>(r, nd2, zp),
                1 => MT::zeros(nd2),
                // the same data repeated / truncated
                _ => MT::from_fn(nd2, |e| t.data[e % len].clone()),
            }
        }
        "same-size-different-shape" => {
            reshape = true;
            if r.chance(0.5) {
                t.clone()
            } else {
                t.scale(&R::omega_pow(2))
            }
        }
        "scaled-and-perturbed" => {
            let mut u = t.scale(&if r.chance(0.5) { R::omega_pow(1 + r.below(7) as i64) } else { nonunit(r) });
            let e = r.below(len);
            u.data[e] = u.data[e].add(&R::one());
            u
        }
        _ => gen_mt::<Scalar4>(r, nd, zp),
    };
    (t, u, reshape)
}

fn reshape_first_two(t: &Tensor4) -> Tensor4 {
    let mut sh: Vec<usize> = t.shape().to_vec();
    let a = sh.remove(0);
    sh[0] *= a;
    let data: Vec<Scalar4> = t.iter().cloned().collect();
    Array::from_shape_vec(IxDyn(&sh), data).expect("reshape")
}

fn report_bool(site: &str, ty: &str, class: &str, got: Result<bool, Caught>, want: bool, family: &'static str, index: u64, input: &Value) {
    let c = ctx();
    cnt(&format!("compare:{site}<{ty}>:model={want}"), 1);
    match got {
        Ok(b) if b == want => {}
        Ok(b) => c.violation(
            &format!("{site}<{ty}>|answers-{b}-model-{want}|{class}"),
            family,
            index,
            json!({"observed": b, "expected_by_model": want, "pair": input}),
        ),
        Err(Caught::Oracle(_)) | Err(Caught::Budget(_)) => {}
        Err(e) => c.violation(&format!("{site}<{ty}>|panic|{class}"), family, index, json!({"panic": e.text(), "pair": input})),
    }
}

fn check_pair4(family: &'static str, index: u64, r: &mut Rng) {
    let c = ctx();
    let class = PAIR_CLASSES[(index as usize) % PAIR_CLASSES.len()];
    let (mt, mu, reshape) = gen_pair(r, class);
    let (lt, lu) = if r.chance(0.5) { (Layout::Standard, Layout::Standard) } else { (Layout::pick(r, mt.nd), Layout::pick(r, mu.nd)) };
    let t: Tensor4 = build::<Scalar4>(&mt, lt);
    let mut u: Tensor4 = build::<Scalar4>(&mu, lu);
    if reshape {
        u = reshape_first_two(&u);
    }
    let same_shape = t.shape() == u.shape();
    let eq_m = same_shape && mt.data == mu.data;
    let seq_m = same_shape && eval::proportional_exact(&mt.data, &mu.data);
    let input = json!({
        "class": class, "t0": mt_json::<Scalar4>(&mt), "t0_layout": format!("{lt:?}"), "t0_shape": t.shape(),
        "t1": mt_json::<Scalar4>(&mu), "t1_layout": format!("{lu:?}"), "t1_shape": u.shape(),
    });
    cnt(&format!("pairs4:{class}:equal={eq_m}:proportional={seq_m}"), 1);
    // exact type: every clause is decided
    let (t1, u1) = (t.clone(), u.clone());
    report_bool("==", "Scalar4", class, guarded(move || t1 == u1), eq_m, family, index, &input);
    let (t1, u1) = (t.clone(), u.clone());
    report_bool("scalar_eq", "Scalar4", class, guarded(move || Tensor4::scalar_eq(&t1, &u1)), seq_m, family, index, &input);
    let (t1, u1) = (t.clone(), u.clone());
    report_bool("scalar_eq(swapped-args)", "Scalar4", class, guarded(move || Tensor4::scalar_eq(&u1, &t1)), seq_m, family, index, &input);
    let (a, b) = (Lit(t.clone()), Lit(u.clone()));
    report_bool("compare", "Scalar4", class, guarded(|| Tensor4::compare(&a, &b)), eq_m, family, index, &input);
    report_bool("scalar_compare", "Scalar4", class, guarded(|| Tensor4::scalar_compare(&a, &b)), seq_m, family, index, &input);
    // float type through the same literals: only the float-robust clauses
    let tf: Vec<Cf> = mt.data.iter().map(|x| x.to_cf()).collect();
    let uf: Vec<Cf> = mu.data.iter().map(|x| x.to_cf()).collect();
    let scale = tf.iter().chain(uf.iter()).map(|x| x.norm()).fold(1e-300f64, f64::max);
    let clearly_unequal = !same_shape || tf.iter().zip(uf.iter()).any(|(x, y)| (x - y).norm() > 1e-3 * scale);
    let clearly_unprop = !same_shape || !eval::proportional_float(&tf, &uf, 1e-3) || !eval::proportional_float(&uf, &tf, 1e-3);
    if class == "identical" {
        report_bool("compare", "Complex64", class, guarded(|| TensorF::compare(&a, &b)), true, family, index, &input);
        report_bool("scalar_compare", "Complex64", class, guarded(|| TensorF::scalar_compare(&a, &b)), true, family, index, &input);
    } else {
        if clearly_unequal {
            report_bool("compare", "Complex64", class, guarded(|| TensorF::compare(&a, &b)), false, family, index, &input);
        } else {
            cnt("compare:not-judged-in-float(not float-robust)", 1);
        }
        if clearly_unprop {
            report_bool("scalar_compare", "Complex64", class, guarded(|| TensorF::scalar_compare(&a, &b)), false, family, index, &input);
        } else {
            cnt("scalar_compare:not-judged-in-float(not float-robust)", 1);
        }
    }
    let h = hash_bytes(format!("{:?}{:?}{lt:?}{lu:?}", mt.data, mu.data).as_bytes());
    c.case(family, if mt.nd >= 1 { Some(h) } else { None });
    c.evals(8);
}

/// TensorF pairs built directly from float data: identical => true, different shape =>
/// false, clearly different => false.
fn check_pairf(family: &'static str, index: u64, r: &mut Rng) {
    let c = ctx();
    let classes = ["identical", "different-ndim", "entry-perturbed", "independent", "clearly-scaled", "both-zero", "zero-vs-nonzero"];
    let class = classes[(index as usize) % classes.len()];
    let nd = r.below(5);
    let zp = *r.pick(&[0.0, 0.3, 0.7]);
    let mut mt = gen_mt::<Cf>(r, nd, zp);
    if mt.is_all_zero() {
        mt.data[0] = Cf::new(1.0, -0.5);
    }
    let len = 1usize << nd;
    let mu: MT<Cf> = match class {
        "identical" => mt.clone(),
        "different-ndim" => {
            let nd2 = if nd == 0 || r.chance(0.5) { nd + 1 } else { nd - 1 };
            MT::from_fn(nd2, |e| mt.data[e % len])
        }
        "entry-perturbed" => {
            let mut u = mt.clone();
            let e = r.below(len);
            u.data[e] += Cf::new(0.75, 0.25);
            u
        }
        "clearly-scaled" => mt.scale(&Cf::new(0.3, 1.1)),
        "both-zero" => {
            mt = MT::zeros(nd);
            MT::zeros(nd)
        }
        "zero-vs-nonzero" => MT::zeros(nd),
        _ => gen_mt::<Cf>(r, nd, zp),
    };
    let (lt, lu) = (Layout::pick(r, mt.nd), Layout::pick(r, mu.nd));
    let t: TensorF = build::<Cf>(&mt, lt);
    let u: TensorF = build::<Cf>(&mu, lu);
    let same_shape = mt.nd == mu.nd;
    let input = json!({"class": class, "t0": mt_json::<Cf>(&mt), "t0_layout": format!("{lt:?}"), "t1": mt_json::<Cf>(&mu), "t1_layout": format!("{lu:?}")});
    let scale = mt.data.iter().chain(mu.data.iter()).map(|x| x.norm()).fold(1e-300f64, f64::max);
    let identical = same_shape && mt.data == mu.data;
    let clearly_unequal = !same_shape || mt.data.iter().zip(mu.data.iter()).any(|(x, y)| (x - y).norm() > 1e-3 * scale);
    let clearly_unprop =
        !same_shape || !eval::proportional_float(&mt.data, &mu.data, 1e-3) || !eval::proportional_float(&mu.data, &mt.data, 1e-3);
    if identical {
        let (t1, u1) = (t.clone(), u.clone());
        report_bool("==", "Complex64", class, guarded(move || t1 == u1), true, family, index, &input);
        let (t1, u1) = (t.clone(), u.clone());
        report_bool("scalar_eq", "Complex64", class, guarded(move || TensorF::scalar_eq(&t1, &u1)), true, family, index, &input);
    } else {
        if clearly_unequal {
            let (t1, u1) = (t.clone(), u.clone());
            report_bool("==", "Complex64", class, guarded(move || t1 == u1), false, family, index, &input);
        }
        if clearly_unprop {
            let (t1, u1) = (t.clone(), u.clone());
            report_bool("scalar_eq", "Complex64", class, guarded(move || TensorF::scalar_eq(&t1, &u1)), false, family, index, &input);
        } else {
            cnt("scalar_eq:not-judged-in-float(not float-robust)", 1);
        }
    }
    let h = hash_bytes(format!("{:?}{:?}{lt:?}{lu:?}", mt.data, mu.data).as_bytes());
    c.case(family, if nd >= 1 { Some(h) } else { None });
}

/// compare / scalar_compare on real diagrams and circuits, relation decided by the oracles.
fn check_compare_objects(family: &'static str, index: u64, r: &mut Rng) {
    let c = ctx();
    let classes = ["identical", "scalar-changed", "zero-scalar", "phase-changed", "independent", "different-boundary-count", "circuit-pair"];
    let class = classes[(index as usize) % classes.len()];
    let judge = |class: &str, e0: &Tens, e1: &Tens, input: Value, res4: [Result<bool, Caught>; 2], resf: [Result<bool, Caught>; 2], identical: bool| {
        let same_len = e0.len() == e1.len();
        if let (Tens::Exact(a), Tens::Exact(b)) = (e0, e1) {
            let eq_m = same_len && a == b;
            let seq_m = same_len && eval::proportional_exact(a, b);
            cnt(&format!("objects:{class}:equal={eq_m}:proportional={seq_m}"), 1);
            let [r0, r1] = res4;
            report_bool("compare(objects)", "Scalar4", class, r0, eq_m, family, index, &input);
            report_bool("scalar_compare(objects)", "Scalar4", class, r1, seq_m, family, index, &input);
        }
        let (f0, f1) = (e0.to_float(), e1.to_float());
        let scale = f0.iter().chain(f1.iter()).map(|x| x.norm()).fold(1e-300f64, f64::max);
        let [r0, r1] = resf;
        if identical {
            report_bool("compare(objects)", "Complex64", class, r0, true, family, index, &input);
            report_bool("scalar_compare(objects)", "Complex64", class, r1, true, family, index, &input);
        } else {
            if !same_len || f0.iter().zip(f1.iter()).any(|(x, y)| (x - y).norm() > 1e-3 * scale) {
                report_bool("compare(objects)", "Complex64", class, r0, false, family, index, &input);
            }
            // a tensor that is exactly zero need not come out as exact 0.0 in floating point
            // (1 + e^{i pi} leaves 1e-16), so "zero versus non-zero" is not a float-robust
            // clause: both operands must be clearly non-zero
            let n0 = f0.iter().map(|x| x.norm()).fold(0.0f64, f64::max);
            let n1 = f1.iter().map(|x| x.norm()).fold(0.0f64, f64::max);
            let both_nonzero = n0 > 1e-6 && n1 > 1e-6;
            if !same_len || (both_nonzero && (!eval::proportional_float(&f0, &f1, 1e-3) || !eval::proportional_float(&f1, &f0, 1e-3))) {
                report_bool("scalar_compare(objects)", "Complex64", class, r1, false, family, index, &input);
            } else {
                cnt("scalar_compare(objects):not-judged-in-float(not float-robust)", 1);
            }
        }
    };
    if class == "circuit-pair" {
        let mut p = circ_params(3, 8, PhPool::Exact, true);
        p.xcx = false; // keeps this family independent of the XCX evaluation (covered by the circuit families)
        let c0 = gen_circuit(r, &p);
        let mut c1 = c0.clone();
        let sub = r.below(4);
        match sub {
            0 => {}
            1 => {
                // insert a gate and its inverse somewhere: still equal
                let q = r.below(c1.n);
                let at = r.below(c1.gates.len() + 1);
                let (g, gi) = r.pick(&[(G::T(q), G::Tdg(q)), (G::H(q), G::H(q)), (G::S(q), G::Sdg(q)), (G::X(q), G::X(q))]).clone();
                c1.gates.insert(at, gi);
                c1.gates.insert(at, g);
            }
            2 => {
                // X rz(-a) X = e^{-i a} rz(a): equal up to a global phase only
                let q = r.below(c1.n);
                c1.gates.push(G::Rz(q, (1, 4)));
                let mut c0b = c0.clone();
                c0b.gates.extend([G::X(q), G::Rz(q, (-1, 4)), G::X(q)]);
                if !judge_circuit(&c0b).0.is_empty() || !judge_circuit(&c1).0.is_empty() {
                    cnt("objects:skipped(operand tensor already wrong)", 1);
                    c.skipped();
                    return;
                }
                let (e0, e1) = (oracle_circuit(&c0b), oracle_circuit(&c1));
                let (q0, q1) = (to_quizx(&c0b), to_quizx(&c1));
                let input = json!({"class": class, "sub": "global-phase", "c0": circ_json(&c0b), "c1": circ_json(&c1)});
                let res4 = [guarded(|| Tensor4::compare(&q0, &q1)), guarded(|| Tensor4::scalar_compare(&q0, &q1))];
                let resf = [guarded(|| TensorF::compare(&q0, &q1)), guarded(|| TensorF::scalar_compare(&q0, &q1))];
                judge("circuit-pair:global-phase", &e0, &e1, input, res4, resf, false);
                c.case(family, Some(circ_hash(&c0b) ^ circ_hash(&c1).rotate_left(1)));
                return;
            }
            _ => {
                if !c1.gates.is_empty() {
                    let k = r.below(c1.gates.len());
                    c1.gates.remove(k);
                }
            }
        }
        if !judge_circuit(&c0).0.is_empty() || !judge_circuit(&c1).0.is_empty() {
            cnt("objects:skipped(operand tensor already wrong)", 1);
            c.skipped();
            return;
        }
        let (e0, e1) = (oracle_circuit(&c0), oracle_circuit(&c1));
        let (q0, q1) = (to_quizx(&c0), to_quizx(&c1));
        let input = json!({"class": class, "sub": sub, "c0": circ_json(&c0), "c1": circ_json(&c1)});
        let res4 = [guarded(|| Tensor4::compare(&q0, &q1)), guarded(|| Tensor4::scalar_compare(&q0, &q1))];
        let resf = [guarded(|| TensorF::compare(&q0, &q1)), guarded(|| TensorF::scalar_compare(&q0, &q1))];
        judge(&format!("circuit-pair:{sub}"), &e0, &e1, input, res4, resf, sub == 0);
        c.case(family, Some(circ_hash(&c0) ^ circ_hash(&c1).rotate_left(1)));
        return;
    }
    let params = DiagParams { max_spiders: 6, max_bnd: 4, pool: PhasePool::Exact, graph_like: false, bare_wires: true, var_prob: 0.0 };
    let d0 = if r.chance(0.5) { gen_random(r, &params) } else { gen_shapes(r, PhasePool::Exact, 4) };
    let mut d1 = d0.clone();
    match class {
        "identical" => {}
        "scalar-changed" => {
            d1.scalar = gen_scalar(r);
        }
        "zero-scalar" => {
            d1.scalar = DScalar { coeffs: [0; 4], pow: 0 };
            if r.chance(0.3) {
                // both zero
                let mut d0z = d0.clone();
                d0z.scalar = DScalar { coeffs: [0; 4], pow: 0 };
                return compare_descs(family, index, "zero-scalar:both", &d0z, &d1, false, &judge);
            }
        }
        "phase-changed" => {
            let sp: Vec<usize> = (0..d1.verts.len()).filter(|&i| d1.verts[i].kind != crate::oracle::eval::VK::B).collect();
            if let Some(&i) = sp.get(r.below(sp.len().max(1))) {
                d1.verts[i].ph = gen_phase(r, PhasePool::Exact);
            }
        }
        "different-boundary-count" => {
            d1 = loop {
                let d = gen_random(r, &params);
                if d.inputs.len() + d.outputs.len() != d0.inputs.len() + d0.outputs.len() {
                    break d;
                }
            };
        }
        _ => {
            // independent diagram with the same number of boundaries (any in/out split)
            let nb = d0.inputs.len() + d0.outputs.len();
            let mut tries = 0;
            d1 = loop {
                let d = gen_random(r, &params);
                tries += 1;
                if d.inputs.len() + d.outputs.len() == nb || tries > 200 {
                    break d;
                }
            };
        }
    }
    compare_descs(family, index, class, &d0, &d1, class == "identical", &judge);
}

fn compare_descs(
    family: &'static str,
    index: u64,
    class: &str,
    d0: &DDesc,
    d1: &DDesc,
    identical: bool,
    judge: &dyn Fn(&str, &Tens, &Tens, Value, [Result<bool, Caught>; 2], [Result<bool, Caught>; 2], bool),
) {
    let c = ctx();
    // mixed backends on purpose: compare() takes two independent `impl ToTensor`
    let (g0, _) = d0.build::<quizx::vec_graph::Graph>(None);
    let (g1, _) = d1.build::<quizx::hash_graph::Graph>(Some(d1.hash()));
    let (e0, e1) = match (eval_graph(&g0), eval_graph(&g1)) {
        (Ok(a), Ok(b)) => (a, b),
        _ => {
            c.skipped();
            return;
        }
    };
    // compare() claims equality of the evaluated tensors; if an operand's evaluation is
    // itself wrong that is reported by the diagram families, not blamed on compare()
    let operand_ok = |r: Result<(Vec<Finding>, JudgeStats), EvalError>| matches!(r, Ok((f, _)) if f.is_empty());
    if !operand_ok(judge_graph(&g0)) || !operand_ok(judge_graph(&g1)) {
        cnt("objects:skipped(operand tensor already wrong)", 1);
        c.skipped();
        return;
    }
    let input = json!({"class": class, "g0(vec backend)": d0.to_json(), "g1(hash backend, scrambled ids)": d1.to_json()});
    let res4 = [guarded(|| Tensor4::compare(&g0, &g1)), guarded(|| Tensor4::scalar_compare(&g0, &g1))];
    let resf = [guarded(|| TensorF::compare(&g0, &g1)), guarded(|| TensorF::scalar_compare(&g0, &g1))];
    // "identical" in the float clause needs bitwise identical evaluation; two backends may
    // contract in a different order, so the float `true` clause is only demanded when the
    // same object is compared with itself
    let (res4, resf, identical) = if identical {
        let r4 = [guarded(|| Tensor4::compare(&g0, &g0)), guarded(|| Tensor4::scalar_compare(&g0, &g0))];
        let rf = [guarded(|| TensorF::compare(&g0, &g0)), guarded(|| TensorF::scalar_compare(&g0, &g0))];
        // the cross-backend exact comparison is still judged
        if let (Tens::Exact(a), Tens::Exact(b)) = (&e0, &e1) {
            let [x0, x1] = res4;
            report_bool("compare(objects,cross-backend)", "Scalar4", class, x0, a == b, family, index, &input);
            report_bool("scalar_compare(objects,cross-backend)", "Scalar4", class, x1, eval::proportional_exact(a, b), family, index, &input);
        }
        let _ = resf;
        (r4, rf, true)
    } else {
        (res4, resf, false)
    };
    if identical {
        judge(class, &e0, &e0, input, res4, resf, true);
    } else {
        judge(class, &e0, &e1, input, res4, resf, false);
    }
    c.case(family, if d0.verts.len() >= 2 { Some(d0.hash() ^ d1.hash().rotate_left(1) ^ hash_bytes(class.as_bytes())) } else { None });
    c.evals(7);
}

// =========================================================================================
// sanitizer layer (thorough tier)
// =========================================================================================

fn run_sanitizer() {
    let c = ctx();
    let script = format!("{}/harness/sanitize_c08.sh", crate::fw::VERIF_DIR);
    let out = std::process::Command::new("bash").arg(&script).output();
    match out {
        Err(e) => c.inconclusive("miri-not-run", json!({"error": e.to_string()})),
        Ok(o) => {
            let txt = String::from_utf8_lossy(&o.stdout).to_string();
            let last = txt.lines().rev().find(|l| l.trim_start().starts_with('{')).unwrap_or("").to_string();
            match serde_json::from_str::<Value>(&last) {
                Ok(v) => {
                    let ub = v.get("ub_reports").and_then(|x| x.as_u64()).unwrap_or(0);
                    let inconclusive = v.get("inconclusive").and_then(|x| x.as_bool()).unwrap_or(false);
                    let mism = v.get("mismatches").and_then(|x| x.as_u64()).unwrap_or(0);
                    if inconclusive {
                        c.inconclusive("miri", v.clone());
                    } else {
                        if ub > 0 {
                            c.violation("miri_c08|undefined-behaviour-report", "sanitizer", 0, v.clone());
                        }
                        if mism > 0 {
                            c.violation("miri_c08|result-mismatch-under-miri", "sanitizer", 0, v.clone());
                        }
                    }
                    c.extra("sanitizer_miri", v);
                }
                Err(_) => c.inconclusive("miri-unparsable-summary", json!({"stdout_tail": txt.lines().rev().take(5).collect::<Vec<_>>() })),
            }
        }
    }
}

// =========================================================================================
// run
// =========================================================================================

pub fn run() {
    let c = ctx();
    let t = c.tier;
    if let Err(e) = tmodel::self_test() {
        c.harness_error(&format!("tmodel self-test failed: {e}"));
        return;
    }
    c.set_rule(
        "cases = generated diagrams (each evaluated in 2 backends x 2 number types), circuits (2 number types), helper calls and tensor pairs; \
         a diagram is non-trivial when it has >= 2 vertices, >= 1 edge and a reference tensor that is not identically zero; a circuit when it has >= 2 gates; \
         an in-place/plug helper case when the tensors have >= 2 indices (plug: n >= 1); a comparison pair when the tensors have >= 1 index; \
         distinct = distinct serialised inputs (64-bit hash)",
    );
    c.assume("independent evaluator O2, gate simulator O3, ring O1 and the tensor model (oracle/tmodel.rs) are correct (self-tested at start; O2/O3/tmodel cross-checked against each other)");
    c.assume("Tensor4 entries are read through the raw-parts hook; entries flagged approximate by quizx, and diagrams/circuits with phases outside pi/4, are compared in f64 with tolerance 1e-8*max(1,largest entry)");
    c.assume("circuit tensor index order verified from tensor.rs: axes 0..q inputs, q..2q outputs (gates are applied to the input axes in reverse order; all supported gates are symmetric matrices)");
    c.assume("TensorF comparison helpers are judged only on float-robust clauses: identical => true, different shape => false, difference / non-proportionality above 1e-3 relative => false");
    c.assume("plug_n_qubits is called with every n <= min(ndim self, ndim other) as its doc comment allows; delta_at / cphase_at with distinct in-range axes");

    // ---- diagrams -----------------------------------------------------------------------
    let k = t.pick(3usize, 40usize);
    let ms = t.pick(8usize, 11usize);
    par_cases("diag-arbitrary-exact", 700 * k, move |r, i| {
        let d = gen_random(r, &DiagParams { max_spiders: ms, max_bnd: 6, pool: PhasePool::Exact, graph_like: false, bare_wires: true, var_prob: 0.0 });
        check_diagram("diag-arbitrary-exact", i, r, &d, ScalarMode::AsDescribed);
    });
    par_cases("diag-arbitrary-float", 400 * k, move |r, i| {
        let d = gen_random(r, &DiagParams { max_spiders: ms, max_bnd: 6, pool: PhasePool::Float, graph_like: false, bare_wires: true, var_prob: 0.0 });
        check_diagram("diag-arbitrary-float", i, r, &d, ScalarMode::AsDescribed);
    });
    par_cases("diag-graph-like", 400 * k, move |r, i| {
        let d = gen_random(r, &DiagParams { max_spiders: ms + 2, max_bnd: 6, pool: PhasePool::CliffordHeavy, graph_like: true, bare_wires: false, var_prob: 0.0 });
        check_diagram("diag-graph-like", i, r, &d, ScalarMode::AsDescribed);
    });
    par_cases("diag-gadget-rich", 300 * k, move |r, i| {
        let pool = if r.chance(0.5) { PhasePool::Exact } else { PhasePool::CliffordHeavy };
        let d = gen_gadget_rich(r, 5, pool, 0.0);
        check_diagram("diag-gadget-rich", i, r, &d, ScalarMode::AsDescribed);
    });
    par_cases("diag-shapes-exact", 800 * k, move |r, i| {
        let d = gen_shapes(r, PhasePool::Exact, 7);
        check_diagram("diag-shapes-exact", i, r, &d, ScalarMode::AsDescribed);
    });
    par_cases("diag-shapes-float", 300 * k, move |r, i| {
        let d = gen_shapes(r, PhasePool::Float, 7);
        check_diagram("diag-shapes-float", i, r, &d, ScalarMode::AsDescribed);
    });
    par_cases("diag-float-scalar", 100 * k, move |r, i| {
        let d = if r.chance(0.5) {
            gen_shapes(r, PhasePool::Exact, 4)
        } else {
            gen_random(r, &DiagParams { max_spiders: 5, max_bnd: 4, pool: PhasePool::Float, graph_like: false, bare_wires: true, var_prob: 0.0 })
        };
        check_diagram("diag-float-scalar", i, r, &d, ScalarMode::FloatProduct);
    });
    // exhaustive tiny diagrams
    let max_ns = t.pick(2usize, 3usize);
    let mut space_total = 0u64;
    let mut done = true;
    for ns in 0..=max_ns {
        let space = tiny_space(ns);
        // ns = 3 is 4.2e6 diagrams: thorough tier walks a fixed stride through it
        let stride = if ns == 3 { 7u64 } else { 1 };
        space_total += space / stride;
        let chunk = 256u64;
        let nchunks = ((space / stride + chunk - 1) / chunk) as usize;
        let fam: &'static str = ["diag-tiny-0", "diag-tiny-1", "diag-tiny-2", "diag-tiny-3"][ns];
        par_cases(fam, nchunks, move |r, ci| {
            for j in 0..chunk {
                let idx = (ci * chunk + j) * stride;
                if let Some(d) = tiny_diagram(ns, idx) {
                    check_diagram(fam, ci, r, &d, ScalarMode::AsDescribed);
                }
            }
        });
        if c.out_of_time() {
            done = false;
        }
    }
    c.extra("exhaustive_tiny", json!({"max_spiders": max_ns, "diagrams": space_total, "stride_at_3_spiders": 7, "completed": done}));

    // ---- circuits -----------------------------------------------------------------------
    let (cq, cd) = t.pick((4usize, 16usize), (5usize, 30usize));
    par_cases("circ-exact", 700 * k, move |r, i| {
        let swap = r.chance(0.5);
        let circ = gen_circuit(r, &circ_params(cq, cd, PhPool::Exact, swap));
        check_circuit("circ-exact", i, &circ);
    });
    par_cases("circ-float", 400 * k, move |r, i| {
        let swap = r.chance(0.5);
        let circ = gen_circuit(r, &circ_params(cq, cd, PhPool::Float, swap));
        check_circuit("circ-float", i, &circ);
    });
    par_cases("circ-short", 400 * k, move |r, i| {
        // short circuits on few qubits: every gate kind alone and in pairs is hit often
        let circ = gen_circuit(r, &circ_params(3, 3, PhPool::Exact, true));
        check_circuit("circ-short", i, &circ);
    });

    // 8-9 qubits: tensors of 2^16 entries and more (the helpers are free to switch strategy by size)
    par_cases("circ-wide", t.pick(80usize, 2_500usize), move |r, i| {
        let mut p = circ_params(9, 10, if r.chance(0.7) { PhPool::Exact } else { PhPool::Float }, true);
        p.min_qubits = 8;
        let mut circ = gen_circuit(r, &p);
        // the ends of the register see every kind of step, swaps included
        let n = circ.n;
        for _ in 0..r.below(4) {
            let q = *r.pick(&[0, n - 1]);
            let other = 1 + r.below(n - 2);
            let g = match r.below(5) {
                0 => G::H(q),
                1 => G::Swap(q, other),
                2 => G::Cx(other, q),
                3 => G::Rx(q, (1, 4)),
                _ => G::Swap(other, q),
            };
            let pos = r.below(circ.gates.len() + 1);
            circ.gates.insert(pos, g);
        }
        check_circuit("circ-wide", i, &circ);
    });
    // 8 wires in, 8 wires out (16-17 open indices while contracting), a few spiders per wire,
    // some cross links between neighbouring wires, the odd extra boundary
    par_cases("diag-wide", t.pick(40usize, 1_500usize), move |r, i| {
        let m = 8;
        let mut verts: Vec<DV> = vec![];
        let mut edges: Vec<(usize, usize, EK)> = vec![];
        let (mut inputs, mut outputs) = (vec![], vec![]);
        let mut mids: Vec<Vec<usize>> = vec![];
        let ek = |r: &mut Rng| if r.chance(0.3) { EK::H } else { EK::N };
        for _ in 0..m {
            let bi = verts.len();
            verts.push(DV { kind: VK::B, ph: (0, 1), vars: vec![] });
            inputs.push(bi);
            let len = r.below(3);
            let mut prev = bi;
            let mut mine = vec![];
            for _ in 0..len {
                let v = verts.len();
                verts.push(DV { kind: if r.chance(0.6) { VK::Z } else { VK::X }, ph: gen_phase(r, PhasePool::Exact), vars: vec![] });
                let k = ek(r);
                edges.push((prev, v, k));
                mine.push(v);
                prev = v;
            }
            let bo = verts.len();
            verts.push(DV { kind: VK::B, ph: (0, 1), vars: vec![] });
            let k = ek(r);
            edges.push((prev, bo, k));
            outputs.push(bo);
            mids.push(mine);
        }
        for w in 0..m - 1 {
            if !mids[w].is_empty() && !mids[w + 1].is_empty() && r.chance(0.4) {
                let (a, b) = (*r.pick(&mids[w]), *r.pick(&mids[w + 1]));
                let k = ek(r);
                edges.push((a.min(b), a.max(b), k));
            }
        }
        if r.chance(0.3) {
            // a 17th open index
            if let Some(w) = (0..m).find(|&w| !mids[w].is_empty()) {
                let b = verts.len();
                verts.push(DV { kind: VK::B, ph: (0, 1), vars: vec![] });
                edges.push((mids[w][0], b, EK::N));
                outputs.push(b);
            }
        }
        r.shuffle(&mut inputs);
        let d = DDesc { verts, edges, inputs, outputs, scalar: gen_scalar(r) };
        check_diagram("diag-wide", i, r, &d, ScalarMode::AsDescribed);
    });

    // one wire through 200-3500 spiders: thousands of Hadamard-edge factors 1/sqrt2 (and of
    // phase factors) on a tensor that stays tiny - what is accumulated must stay in range in
    // both number types
    par_cases("diag-long-chain", t.pick(48usize, 1_500usize), move |r, i| {
        // a third of the cases: Hadamard edges only, 2050-3600 of them (sqrt2^n leaves the f64 range at n = 2048)
        let (n, h_p) = if i % 3 == 0 { (2050 + r.below(1550), 1.0) } else { (r.log_uniform(200, 3500), *r.pick(&[0.3, 0.7, 1.0])) };
        let mut verts: Vec<DV> = vec![DV { kind: VK::B, ph: (0, 1), vars: vec![] }];
        let mut edges: Vec<(usize, usize, EK)> = vec![];
        for k in 0..n {
            // (the all-Hadamard third in one colour: a colour change would turn Z-H-X into Z-N-Z)
            let kind = if i % 3 == 0 || r.chance(0.7) { VK::Z } else { VK::X };
            // mostly phase-free: the map stays far from zero
            let ph = if r.chance(0.85) { (0, 1) } else { gen_phase(r, PhasePool::Exact) };
            verts.push(DV { kind, ph, vars: vec![] });
            edges.push((k, k + 1, if r.chance(h_p) { EK::H } else { EK::N }));
        }
        verts.push(DV { kind: VK::B, ph: (0, 1), vars: vec![] });
        edges.push((n, n + 1, EK::N));
        let d = DDesc { verts, edges, inputs: vec![0], outputs: vec![n + 1], scalar: gen_scalar(r) };
        mx("max-chain-length", n as u64);
        check_diagram_opts("diag-long-chain", i, r, &d, ScalarMode::AsDescribed, true);
    });

    // ---- helpers ------------------------------------------------------------------------
    par_cases("helpers-inplace-large-exact", t.pick(24usize, 600usize), |r, i| {
        let nd = 15 + r.below(3);
        check_inplace_nd::<Scalar4>("helpers-inplace-large-exact", i, r, nd)
    });
    par_cases("helpers-inplace-large-float", t.pick(24usize, 600usize), |r, i| {
        let nd = 15 + r.below(3);
        check_inplace_nd::<Complex<f64>>("helpers-inplace-large-float", i, r, nd)
    });
    run_constructors::<Scalar4>("helpers-constructors-exact");
    run_constructors::<Complex<f64>>("helpers-constructors-float");
    par_cases("helpers-inplace-exact", 600 * k, |r, i| check_inplace::<Scalar4>("helpers-inplace-exact", i, r));
    par_cases("helpers-inplace-float", 400 * k, |r, i| check_inplace::<Complex<f64>>("helpers-inplace-float", i, r));
    par_cases("helpers-plug-exact", 800 * k, |r, i| check_plug::<Scalar4>("helpers-plug-exact", i, r));
    par_cases("helpers-plug-float", 400 * k, |r, i| check_plug::<Complex<f64>>("helpers-plug-float", i, r));
    par_cases("compare-pairs-exact", 1100 * k, |r, i| check_pair4("compare-pairs-exact", i, r));
    par_cases("compare-pairs-float", 560 * k, |r, i| check_pairf("compare-pairs-float", i, r));
    par_cases("compare-objects", 560 * k, |r, i| check_compare_objects("compare-objects", i, r));

    // ---- sanitizer ------------------------------------------------------------------------
    if t == crate::fw::Tier::Thorough && c.replay.is_none() {
        run_sanitizer();
    } else {
        c.extra("sanitizer_miri", json!({"ran": false, "reason": "thorough tier only"}));
    }
    c.extra("exhaustive", json!(false));
    flush_counters();
}

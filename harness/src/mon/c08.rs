//! C08 -- monitor (to be written)
use crate::fw::ctx;

pub fn run() {
    ctx().harness_error("C08 monitor not implemented yet");
}

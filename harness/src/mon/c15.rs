//! C15 -- circuit adjoint inverts; basic-gate expansion and concatenation keep meaning;
//! reversing twice restores; gate statistics partition the gates consistently.
//!
//! Events: for each generated unitary circuit c (harness type `Circ`, converted with
//! `gen::circuit::to_quizx`), the REAL quizx operations `to_adjoint` / `adjoint`,
//! `to_basic_gates`, `reverse`, the four `Add` impls and `+=`, and `stats` are executed;
//! every result is converted back with `from_quizx` and judged with the gate-matrix
//! simulator O3 (`oracle::sim`): exactly in Z[omega][1/2] when all phases are multiples
//! of pi/4, with tolerance 1e-8 otherwise.
//!
//! Readings fixed here (where the property text leaves room):
//! * "basic gate" = any gate kind other than CCZ / TOFF / ParityPhase acting on one or
//!   two distinct in-range qubits (that is what `push_basic_gates` documents: "1 and 2
//!   qubit Clifford + phase gates"; XCX and SWAP are pushed unchanged and are accepted).
//! * "the advertised number of gates" = sum of `Gate::num_basic_gates()` over the gates.
//! * Statistics: the hard requirements are the two partitions (oneq+twoq+moreq == total
//!   == cliff+non_cliff), additivity over gates, arity classes by number of qubit
//!   arguments, stability under `to_adjoint`, and: a gate that is NOT a Clifford unitary
//!   (t, tdg, ccz, ccx, rz/rx/pp with a phase that is not a multiple of pi/2) must be
//!   counted non-Clifford, and the elementary Clifford kinds (x, z, s, sdg, h, cx, cz,
//!   swap, rz/rx with a multiple of pi/2) must be counted Clifford. Compound kinds that
//!   happen to denote a Clifford unitary (xcx; pp with a multiple of pi/2) may be counted
//!   either way -- quizx counts them non-Clifford, which is a consistent (syntactic)
//!   partition; it is recorded in the evidence (`stats_note:*`), not flagged.
//! * Concatenating circuits with different qubit counts is documented to panic for the
//!   `Add` impls; it is exercised and counted, never flagged. `+=` has no such check in
//!   the code; what it does on a mismatch is only recorded.

use crate::fw::{ctx, guarded, par_cases, Caught};
use crate::gen::circuit::{circ_hash, circ_json, from_quizx, gen_circuit, gen_ph, to_gate, to_quizx, CircParams, PhPool};
use crate::gen::prng::Rng;
use crate::oracle::eval::compose;
use crate::oracle::ring::{Num, R};
use crate::oracle::sim::{tensor_exact, tensor_float, Circ, Ph, G};
use crate::snap::{Tens, FLOAT_TOL};
use quizx::circuit::Circuit;
use quizx::gate::GType;
use serde_json::{json, Value};
use std::sync::Arc;

fn unitary(c: &Circ, exact: bool) -> Tens {
    if exact {
        Tens::Exact(tensor_exact(c).0)
    } else {
        Tens::Float(tensor_float(c).0)
    }
}

fn identity(n: usize, exact: bool) -> Tens {
    let d = 1usize << n;
    if exact {
        let mut v = vec![R::zero(); d * d];
        for i in 0..d {
            v[(i << n) | i] = R::one();
        }
        Tens::Exact(v)
    } else {
        let mut v = vec![<crate::oracle::ring::Cf as Num>::zero(); d * d];
        for i in 0..d {
            v[(i << n) | i] = <crate::oracle::ring::Cf as Num>::one();
        }
        Tens::Float(v)
    }
}

fn compose_t(a: &Tens, b: &Tens, n: usize) -> Tens {
    match (a, b) {
        (Tens::Exact(x), Tens::Exact(y)) => Tens::Exact(compose(x, n, n, y, n, n)),
        _ => Tens::Float(compose(&a.to_float(), n, n, &b.to_float(), n, n)),
    }
}

fn is_compound(g: &G) -> bool {
    matches!(g, G::Ccz(..) | G::Ccx(..) | G::Pp(..))
}

fn half_multiple(p: &Ph) -> bool {
    2 % p.1 == 0
}

#[derive(Clone, Copy, PartialEq, Eq, Debug)]
enum Class {
    MustCliff,
    MustNonCliff,
    /// Clifford unitary written as a compound kind: either count is accepted
    Either,
}

fn my_class(g: &G) -> Class {
    match g {
        G::X(_) | G::Z(_) | G::S(_) | G::Sdg(_) | G::H(_) | G::Cx(..) | G::Cz(..) | G::Swap(..) => Class::MustCliff,
        G::Rz(_, p) | G::Rx(_, p) => {
            if half_multiple(p) {
                Class::MustCliff
            } else {
                Class::MustNonCliff
            }
        }
        G::T(_) | G::Tdg(_) | G::Ccz(..) | G::Ccx(..) => Class::MustNonCliff,
        G::Pp(_, p) => {
            if half_multiple(p) {
                Class::Either
            } else {
                Class::MustNonCliff
            }
        }
        G::Xcx(..) => Class::Either,
        // not generated here (unitary circuits only)
        G::InitAnc(_) | G::PostSel(_) | G::MeasureD(..) | G::MeasureR(..) => Class::Either,
    }
}

fn single(n: usize, g: &G) -> Circ {
    Circ { n, gates: vec![g.clone()] }
}

fn push_all(mut a: Circuit, b: &Circuit) -> Circuit {
    // harness-side concatenation that does not go through the `Add` impls under test
    for g in b.gates.iter() {
        a.push(g.clone());
    }
    a
}

/// One violation per failing gate kind, so that a root cause in one gate kind gives one
/// signature whatever else the witness circuit contains.
fn per_kind_violations(prefix: &str, bad: &[&G], family: &'static str, index: u64, detail: Value) {
    let mut k: Vec<&str> = bad.iter().map(|g| g.name()).collect();
    k.sort();
    k.dedup();
    if k.is_empty() {
        k.push("none-alone(only-in-combination)");
    }
    for kind in k {
        ctx().violation(&format!("{prefix}|kind={kind}"), family, index, detail.clone());
    }
}

fn panic_violation(op: &str, e: &Caught, family: &'static str, index: u64, input: Value) -> bool {
    let c = ctx();
    match e {
        Caught::Oracle(m) => {
            c.inconclusive("oracle-error", json!({"op": op, "msg": m, "input": input}));
        }
        other => {
            c.violation(&format!("{op}|panic|{}", other.site()), family, index, json!({"what": "panic", "op": op, "panic": other.text(), "input": input}));
        }
    }
    false
}

/// adjoint clause on one circuit; returns true when it held
fn adjoint_holds(hc: &Circ, exact: bool) -> Result<bool, Caught> {
    let qc = to_quizx(hc);
    let adj = guarded(|| qc.to_adjoint())?;
    let cat = push_all(qc.clone(), &adj);
    let hcat = match from_quizx(&cat) {
        Ok(h) => h,
        Err(_) => return Ok(false),
    };
    let ex = exact && hcat.is_pi4();
    let u = guarded(|| unitary(&hcat, ex))?;
    Ok(u.same(&identity(hc.n, ex), FLOAT_TOL))
}

/// expansion clause (unitary part) on one circuit
fn expansion_holds(hc: &Circ, exact: bool) -> Result<bool, Caught> {
    let qc = to_quizx(hc);
    let b = guarded(|| qc.to_basic_gates())?;
    let hb = match from_quizx(&b) {
        Ok(h) => h,
        Err(_) => return Ok(false),
    };
    let ex = exact && hb.is_pi4();
    let u0 = guarded(|| unitary(hc, ex))?;
    let u1 = guarded(|| unitary(&hb, ex))?;
    Ok(u0.same(&u1, FLOAT_TOL))
}

/// The same circuit as `to_quizx(hc)`, but built the way the extractor builds circuits:
/// the tail with `push`, then the head with `push_front` in reverse order. The gate
/// sequence is identical, the memory layout of the VecDeque is not (it wraps around), and
/// in-place operations are applied to this very object, never to a clone (cloning a
/// VecDeque makes it contiguous again).
fn to_quizx_wrapped(hc: &Circ, split: usize) -> quizx::circuit::Circuit {
    let mut q = quizx::circuit::Circuit::new(hc.n);
    let k = split.min(hc.gates.len());
    for g in &hc.gates[k..] {
        q.push(to_gate(g));
    }
    for g in hc.gates[..k].iter().rev() {
        q.push_front(to_gate(g));
    }
    q
}

fn check_circuit(family: &'static str, index: u64, hc: &Circ) {
    let c = ctx();
    let exact = hc.is_pi4();
    let input = circ_json(hc);
    let n = hc.n;
    let qc = to_quizx(hc);
    c.count(if exact { "pool:exact" } else { "pool:float" }, 1);
    for g in &hc.gates {
        c.count(&format!("gate:{}", g.name()), 1);
        if let G::Pp(qs, _) = g {
            c.count(&format!("pp_arity:{}", qs.len()), 1);
        }
    }
    c.maximum("max_qubits", n as u64);
    c.maximum("max_gates", hc.gates.len() as u64);

    // ---- 1. adjoint ----------------------------------------------------------------
    c.count("op:to_adjoint", 1);
    let split = if hc.gates.is_empty() { 0 } else { 1 + (index as usize + hc.gates.len()) % hc.gates.len() };
    match guarded(|| {
        let a = qc.to_adjoint();
        // in place, on a circuit assembled with push_front + push (wrapped deque)
        let mut b = to_quizx_wrapped(hc, split);
        if b != qc {
            panic!("harness: wrapped construction differs");
        }
        b.adjoint();
        (a, b)
    }) {
        Err(e) => {
            panic_violation("to_adjoint", &e, family, index, input.clone());
        }
        Ok((adj, adj_inplace)) => {
            if adj != adj_inplace {
                c.violation("adjoint|in-place-differs-from-to_adjoint", family, index, json!({"input": input, "to_adjoint": adj.to_string(), "adjoint": adj_inplace.to_string()}));
            }
            if adj.num_qubits() != n || adj.num_gates() != hc.gates.len() {
                c.violation(
                    "to_adjoint|shape-changed",
                    family,
                    index,
                    json!({"input": input, "expected": {"qubits": n, "gates": hc.gates.len()}, "observed": {"qubits": adj.num_qubits(), "gates": adj.num_gates()}}),
                );
            } else {
                match adjoint_holds(hc, exact) {
                    Err(e) => {
                        panic_violation("to_adjoint", &e, family, index, input.clone());
                    }
                    Ok(true) => {}
                    Ok(false) => {
                        // minimise: which single gates fail on their own?
                        let bad: Vec<&G> = hc.gates.iter().filter(|g| matches!(adjoint_holds(&single(n, g), exact), Ok(false))).collect();
                        per_kind_violations(
                            "to_adjoint|not-inverse",
                            &bad,
                            family,
                            index,
                            json!({"what": "U(c ; c.to_adjoint()) != identity", "input": input, "adjoint": adj.to_string(),
                                   "failing_single_gates": bad.iter().map(|g| format!("{g:?}")).collect::<Vec<_>>(), "exact": exact}),
                        );
                    }
                }
            }
        }
    }

    // ---- 2. basic-gate expansion ----------------------------------------------------
    c.count("op:to_basic_gates", 1);
    match guarded(|| qc.to_basic_gates()) {
        Err(e) => {
            panic_violation("to_basic_gates", &e, family, index, input.clone());
        }
        Ok(b) => {
            let advertised: usize = qc.gates.iter().map(|g| g.num_basic_gates()).sum();
            c.maximum("max_expanded_gates", b.num_gates() as u64);
            if b.num_qubits() != n {
                c.violation("to_basic_gates|qubit-count-changed", family, index, json!({"input": input, "expected": n, "observed": b.num_qubits()}));
            }
            if b.num_gates() != advertised {
                let bad: Vec<&G> = hc
                    .gates
                    .iter()
                    .filter(|g| {
                        let q = to_quizx(&single(n, g));
                        q.to_basic_gates().num_gates() != q.gates[0].num_basic_gates()
                    })
                    .collect();
                per_kind_violations(
                    "to_basic_gates|gate-count-not-as-advertised",
                    &bad,
                    family,
                    index,
                    json!({"input": input, "expected_sum_num_basic_gates": advertised, "observed_num_gates": b.num_gates(), "expansion": b.to_string()}),
                );
            }
            // all gates basic
            for g in b.gates.iter() {
                let arity_ok = g.t.num_qubits() == Some(g.qs.len()) && (g.qs.len() == 1 || g.qs.len() == 2);
                let kind_ok = !matches!(
                    g.t,
                    GType::CCZ | GType::TOFF | GType::ParityPhase | GType::UnknownGate | GType::InitAncilla | GType::PostSelect | GType::Measure | GType::MeasureReset
                );
                let distinct = g.qs.len() < 2 || g.qs[0] != g.qs[1];
                let in_range = g.qs.iter().all(|&q| q < n);
                if !(arity_ok && kind_ok && distinct && in_range) {
                    c.violation(
                        &format!("to_basic_gates|non-basic-gate|{}", g.t.qasm_name()),
                        family,
                        index,
                        json!({"input": input, "offending_gate": format!("{g:?}"), "expansion": b.to_string()}),
                    );
                    break;
                }
            }
            // expansion of an already basic circuit is the circuit itself
            match guarded(|| b.to_basic_gates()) {
                Ok(bb) => {
                    if bb != b {
                        c.violation("to_basic_gates|not-idempotent", family, index, json!({"input": input, "once": b.to_string(), "twice": bb.to_string()}));
                    }
                }
                Err(e) => {
                    panic_violation("to_basic_gates", &e, family, index, input.clone());
                }
            }
            match expansion_holds(hc, exact) {
                Err(e) => {
                    panic_violation("to_basic_gates", &e, family, index, input.clone());
                }
                Ok(true) => {}
                Ok(false) => {
                    let bad: Vec<&G> = hc.gates.iter().filter(|g| matches!(expansion_holds(&single(n, g), exact), Ok(false))).collect();
                    per_kind_violations(
                        "to_basic_gates|unitary-changed",
                        &bad,
                        family,
                        index,
                        json!({"what": "U(to_basic_gates(c)) != U(c) (exact comparison, not up to phase)", "input": input, "expansion": b.to_string(),
                               "failing_single_gates": bad.iter().map(|g| format!("{g:?}")).collect::<Vec<_>>(), "exact": exact}),
                    );
                }
            }
        }
    }

    // ---- 3. reverse -----------------------------------------------------------------
    c.count("op:reverse", 1);
    match guarded(|| {
        // in place on the wrapped construction, and the second reversal on the same object
        let mut r1 = to_quizx_wrapped(hc, split);
        r1.reverse();
        let snapshot = r1.clone();
        r1.reverse();
        (snapshot, r1)
    }) {
        Err(e) => {
            panic_violation("reverse", &e, family, index, input.clone());
        }
        Ok((r1, r2)) => {
            if r2 != qc {
                c.violation("reverse|twice-does-not-restore", family, index, json!({"input": input, "observed": r2.to_string()}));
            }
            let mut expect: Vec<quizx::gate::Gate> = hc.gates.iter().map(to_gate).collect();
            expect.reverse();
            let got: Vec<quizx::gate::Gate> = r1.gates.iter().cloned().collect();
            if got != expect || r1.num_qubits() != n {
                c.violation("reverse|once-is-not-the-reversed-gate-list", family, index, json!({"input": input, "observed": r1.to_string()}));
            }
        }
    }

    // ---- 4. statistics --------------------------------------------------------------
    c.count("op:stats", 1);
    match guarded(|| (qc.stats(), qc.to_adjoint().stats())) {
        Err(e) => {
            panic_violation("stats", &e, family, index, input.clone());
        }
        Ok((s, sa)) => {
            let arr = json!({"qubits": s.qubits, "total": s.total, "oneq": s.oneq, "twoq": s.twoq, "moreq": s.moreq, "cliff": s.cliff, "non_cliff": s.non_cliff});
            if s.qubits != n || s.total != hc.gates.len() || s.oneq + s.twoq + s.moreq != s.total || s.cliff + s.non_cliff != s.total {
                c.violation("stats|partition-sums", family, index, json!({"input": input, "observed": arr, "expected": {"qubits": n, "total": hc.gates.len()}}));
            }
            if s != sa {
                c.violation("stats|changes-under-to_adjoint", family, index, json!({"input": input, "stats": arr, "stats_of_adjoint": format!("{sa:?}")}));
            }
            // per gate: observed class = statistics of the one-gate circuit
            let (mut o1, mut o2, mut o3, mut sum_cl, mut sum_ncl) = (0usize, 0usize, 0usize, 0usize, 0usize);
            for g in &hc.gates {
                let sg = to_quizx(&single(n, g)).stats();
                match g.qubits().len() {
                    1 => o1 += 1,
                    2 => o2 += 1,
                    _ => o3 += 1,
                }
                sum_cl += sg.cliff;
                sum_ncl += sg.non_cliff;
                let counted_cliff = sg.cliff == 1 && sg.non_cliff == 0;
                let counted_non = sg.cliff == 0 && sg.non_cliff == 1;
                if !(counted_cliff || counted_non) {
                    c.violation(&format!("stats|single-gate-not-in-exactly-one-class|{}", g.name()), family, index, json!({"gate": format!("{g:?}"), "stats": format!("{sg:?}")}));
                    continue;
                }
                match (my_class(g), counted_cliff) {
                    (Class::MustCliff, false) => c.violation(
                        &format!("stats|clifford-gate-counted-non-clifford|{}", g.name()),
                        family,
                        index,
                        json!({"gate": format!("{g:?}"), "expected": "cliff", "observed": "non_cliff", "input": input}),
                    ),
                    (Class::MustNonCliff, true) => c.violation(
                        &format!("stats|non-clifford-gate-counted-clifford|{}", g.name()),
                        family,
                        index,
                        json!({"gate": format!("{g:?}"), "expected": "non_cliff", "observed": "cliff", "input": input}),
                    ),
                    (Class::Either, cl) => c.count(&format!("stats_note:clifford-unitary-compound-kind:{}:counted-{}", g.name(), if cl { "cliff" } else { "non_cliff" }), 1),
                    (Class::MustCliff, true) => c.count("stats:cliff-confirmed", 1),
                    (Class::MustNonCliff, false) => c.count("stats:non_cliff-confirmed", 1),
                }
            }
            if (s.oneq, s.twoq, s.moreq) != (o1, o2, o3) {
                c.violation("stats|arity-classes", family, index, json!({"input": input, "observed": arr, "expected": {"oneq": o1, "twoq": o2, "moreq": o3}}));
            }
            if (s.cliff, s.non_cliff) != (sum_cl, sum_ncl) {
                c.violation(
                    "stats|not-additive-over-gates",
                    family,
                    index,
                    json!({"input": input, "observed": arr, "expected_from_single_gate_circuits": {"cliff": sum_cl, "non_cliff": sum_ncl}}),
                );
            }
        }
    }

    let nontrivial = hc.gates.len() >= 3 || hc.gates.iter().any(is_compound);
    c.case(family, if nontrivial { Some(circ_hash(hc)) } else { None });
    c.sample_n(4, || json!({"family": family, "index": index, "circuit": input, "exact": exact}));
}

const ADD_IMPLS: [&str; 5] = ["Circuit+Circuit", "Circuit+&Circuit", "&Circuit+Circuit", "&Circuit+&Circuit", "Circuit+=&Circuit"];

fn apply_add(which: usize, mk_a: &dyn Fn() -> Circuit, mk_b: &dyn Fn() -> Circuit) -> (Circuit, Circuit, Circuit) {
    // returns (result, left operand afterwards, right operand afterwards) -- for the
    // borrowing impls the operands must be unchanged. Operands that are MOVED into the
    // operator are built afresh by `mk_*` (a clone would be a contiguous, exactly allocated
    // deque whatever the original looked like; a freshly assembled circuit keeps its layout:
    // wrapped ring buffer, spare capacity).
    let (l, r) = (mk_a(), mk_b());
    match which {
        0 => (mk_a() + mk_b(), l, r),
        1 => {
            let res = mk_a() + &r;
            (res, l, r)
        }
        2 => {
            let res = &l + mk_b();
            (res, l, r)
        }
        3 => {
            let res = &l + &r;
            (res, l, r)
        }
        _ => {
            let mut t = mk_a();
            t += &r;
            (t, l, r)
        }
    }
}

fn check_concat(family: &'static str, index: u64, h1: &Circ, h2: &Circ) {
    let c = ctx();
    let n = h1.n;
    assert_eq!(n, h2.n);
    let input = json!({"c1": circ_json(h1), "c2": circ_json(h2)});
    let exact = h1.is_pi4() && h2.is_pi4();
    let (q1, q2) = (to_quizx(h1), to_quizx(h2));
    // how the operands handed to the operators are assembled (by case index): plain pushes,
    // push + push_front (wrapped deque), and a right operand with room to spare
    let lay = index % 4;
    let split1 = if h1.gates.is_empty() { 0 } else { 1 + (index as usize / 4) % h1.gates.len() };
    let split2 = if h2.gates.is_empty() { 0 } else { 1 + (index as usize / 4) % h2.gates.len() };
    let mk_a = move || match lay {
        1 | 3 => to_quizx_wrapped(h1, split1),
        _ => to_quizx(h1),
    };
    let mk_b = move || {
        let mut b = if lay == 2 { to_quizx_wrapped(h2, split2) } else { to_quizx(h2) };
        if lay >= 2 {
            b.gates.reserve(h1.gates.len() + 8);
        }
        b
    };
    if mk_a() != q1 || mk_b() != q2 {
        c.inconclusive("oracle-error", json!({"msg": "operand construction variants differ from the plain construction"}));
        return;
    }
    c.count(&format!("concat:operand-layout:{}", ["pushed", "left-wrapped", "right-wrapped-with-spare-capacity", "left-wrapped-right-with-spare-capacity"][lay as usize]), 1);
    let u1 = unitary(h1, exact);
    let u2 = unitary(h2, exact);
    // U(c1 + c2) = U(c2) * U(c1): first c1, then c2
    let expect_u = compose_t(&u1, &u2, n);
    let mut expect_gates = h1.gates.clone();
    expect_gates.extend(h2.gates.iter().cloned());
    let mut results: Vec<Circuit> = vec![];
    for (w, name) in ADD_IMPLS.iter().enumerate() {
        c.count(&format!("add:{name}"), 1);
        match guarded(|| apply_add(w, &mk_a, &mk_b)) {
            Err(e) => {
                panic_violation(&format!("add:{name}"), &e, family, index, input.clone());
            }
            Ok((res, l, r)) => {
                if l != q1 || r != q2 {
                    c.violation(&format!("add:{name}|operand-modified"), family, index, json!({"input": input}));
                }
                match from_quizx(&res) {
                    Err(m) => c.violation(&format!("add:{name}|result-not-a-circuit"), family, index, json!({"input": input, "why": m, "observed": res.to_string()})),
                    Ok(hr) => {
                        if hr.n != n || hr.gates != expect_gates {
                            c.violation(
                                &format!("add:{name}|gate-list-is-not-c1-then-c2"),
                                family,
                                index,
                                json!({"input": input, "observed": circ_json(&hr)}),
                            );
                        }
                        let ex = exact && hr.is_pi4();
                        match guarded(|| unitary(&hr, ex)) {
                            Ok(u) => {
                                if !u.same(&expect_u, FLOAT_TOL) {
                                    c.violation(
                                        &format!("add:{name}|map-is-not-U(c2)*U(c1)"),
                                        family,
                                        index,
                                        json!({"input": input, "observed": circ_json(&hr), "expected_map": expect_u.brief(), "observed_map": u.brief()}),
                                    );
                                }
                            }
                            Err(e) => {
                                panic_violation(&format!("add:{name}"), &e, family, index, input.clone());
                            }
                        }
                    }
                }
                results.push(res);
            }
        }
    }
    if results.windows(2).any(|w| w[0] != w[1]) {
        c.violation("add|impls-disagree", family, index, json!({"input": input, "results": results.iter().map(|r| r.to_string()).collect::<Vec<_>>()}));
    }
    let nontrivial = !h1.gates.is_empty() && !h2.gates.is_empty();
    c.case(family, if nontrivial { Some(circ_hash(h1) ^ circ_hash(h2).rotate_left(1)) } else { None });
    c.sample_n(6, || json!({"family": family, "index": index, "pair": input}));
}

/// Different qubit counts: documented to panic for the `Add` impls. Counted only.
fn check_mismatch(family: &'static str, h1: &Circ, h2: &Circ) {
    let c = ctx();
    let (q1, q2) = (to_quizx(h1), to_quizx(h2));
    for (w, name) in ADD_IMPLS.iter().enumerate() {
        match guarded(|| apply_add(w, &|| q1.clone(), &|| q2.clone())) {
            Err(Caught::Panic { msg, .. }) => {
                if msg.contains("different numbers of qubits") {
                    c.count(&format!("mismatch:{name}:documented-panic"), 1);
                } else {
                    c.count(&format!("mismatch:{name}:other-panic"), 1);
                }
            }
            Err(_) => c.count(&format!("mismatch:{name}:other"), 1),
            Ok((res, _, _)) => {
                c.count(&format!("mismatch:{name}:no-panic(result-has-{}-qubits)", if res.num_qubits() == h1.n { "left" } else { "other" }), 1);
            }
        }
    }
    c.case(family, None);
}

// --------------------------------------------------------------------------------------
// generators specific to this property
// --------------------------------------------------------------------------------------

fn ordered_tuples(n: usize, k: usize) -> Vec<Vec<usize>> {
    fn rec(n: usize, k: usize, cur: &mut Vec<usize>, out: &mut Vec<Vec<usize>>) {
        if cur.len() == k {
            out.push(cur.clone());
            return;
        }
        for q in 0..n {
            if !cur.contains(&q) {
                cur.push(q);
                rec(n, k, cur, out);
                cur.pop();
            }
        }
    }
    let mut out = vec![];
    rec(n, k, &mut vec![], &mut out);
    out
}

fn norm_ph(num: i64, den: i64) -> Ph {
    let p = crate::gen::circuit::ph_to_phase((num, den)).to_rational();
    (*p.numer(), *p.denom())
}

/// every gate kind x every ordered tuple of distinct qubits x a phase list, on n qubits
fn single_gate_space(n: usize) -> Vec<Circ> {
    let mut phases: Vec<Ph> = (-3..=4).map(|k| norm_ph(k, 4)).collect();
    phases.extend([norm_ph(1, 3), norm_ph(-2, 5), norm_ph(7, 8), norm_ph(-1, 16), norm_ph(5, 12)]);
    let mut gs: Vec<G> = vec![];
    for q in 0..n {
        gs.extend([G::X(q), G::Z(q), G::S(q), G::T(q), G::Sdg(q), G::Tdg(q), G::H(q)]);
        for p in &phases {
            gs.push(G::Rz(q, *p));
            gs.push(G::Rx(q, *p));
        }
    }
    for t in ordered_tuples(n, 2) {
        gs.extend([G::Cx(t[0], t[1]), G::Cz(t[0], t[1]), G::Xcx(t[0], t[1]), G::Swap(t[0], t[1])]);
    }
    for t in ordered_tuples(n, 3) {
        gs.push(G::Ccz(t[0], t[1], t[2]));
        gs.push(G::Ccx(t[0], t[1], t[2]));
    }
    for k in 1..=n {
        for t in ordered_tuples(n, k) {
            for p in &phases {
                gs.push(G::Pp(t.clone(), *p));
            }
        }
    }
    gs.into_iter().map(|g| Circ { n, gates: vec![g] }).collect()
}

/// circuits dominated by compound gates: ccz / ccx in all argument orders, pp of every arity
fn gen_compound_heavy(r: &mut Rng, max_q: usize, max_d: usize) -> Circ {
    let n = 1 + r.below(max_q);
    let depth = 1 + r.below(max_d);
    let pool = if r.chance(0.6) { PhPool::Exact } else { PhPool::Float };
    let mut gates = vec![];
    for _ in 0..depth {
        let mut qs: Vec<usize> = (0..n).collect();
        r.shuffle(&mut qs);
        let g = match r.below(10) {
            0..=2 if n >= 3 => G::Ccz(qs[0], qs[1], qs[2]),
            3..=5 if n >= 3 => G::Ccx(qs[0], qs[1], qs[2]),
            6 => G::H(qs[0]),
            7 if n >= 2 => G::Cx(qs[0], qs[1]),
            8 => G::T(qs[0]),
            _ => {
                let w = 1 + r.below(n);
                qs.truncate(w);
                G::Pp(qs, gen_ph(r, pool))
            }
        };
        gates.push(g);
    }
    Circ { n, gates }
}

pub fn run() {
    let c = ctx();
    let t = c.tier;
    c.set_rule(
        "cases = unitary circuits (families: random exact / float pools, compound-heavy, single-gate exhaustive) each put through to_adjoint/adjoint, to_basic_gates, reverse x2, stats; plus circuit pairs through the four Add impls and +=. A single circuit is non-trivial when it has >= 3 gates or contains ccz/ccx/pp; a pair when both operands are non-empty; distinct = distinct circuit (pair) descriptions (64-bit hash)",
    );
    c.assume("gate-matrix simulator O3 (harness/src/oracle/sim.rs) and exact ring O1 are correct (self-tested at start)");
    c.assume("conversion harness circuit <-> quizx circuit (gen::circuit::{to_quizx, from_quizx}) is a faithful one-to-one mapping of gate kinds, qubit arguments and phases");
    c.assume("'advertised number of basic gates' is read as the sum of Gate::num_basic_gates(); 'basic' = not CCZ/TOFF/ParityPhase, one or two distinct in-range qubits");

    let (nq, nd, n_rand) = t.pick((6usize, 40usize, 9000usize), (6usize, 60usize, 250_000usize));
    par_cases("unitary-exact", n_rand, move |r, i| {
        let hc = gen_circuit(r, &CircParams::unitary(nq, nd, PhPool::Exact));
        check_circuit("unitary-exact", i, &hc);
    });
    par_cases("unitary-float", n_rand / 2, move |r, i| {
        let hc = gen_circuit(r, &CircParams::unitary(nq, nd, PhPool::Float));
        check_circuit("unitary-float", i, &hc);
    });
    let (cq, cd) = t.pick((6usize, 12usize), (7usize, 16usize));
    par_cases("compound-heavy", n_rand / 2, move |r, i| {
        let hc = gen_compound_heavy(r, cq, cd);
        check_circuit("compound-heavy", i, &hc);
    });

    // size edges: 7-8 qubits with parity phases of arity up to 8 (float comparison: the exact
    // ring on 256x256 matrices is too slow), 100-300 gates on 2-3 qubits, phase denominators
    // above 2^16
    par_cases("wide-compound", t.pick(60usize, 4_000usize), move |r, i| {
        let n = 7 + r.below(2);
        let depth = 1 + r.below(6);
        let mut gates = vec![];
        for _ in 0..depth {
            let mut qs: Vec<usize> = (0..n).collect();
            r.shuffle(&mut qs);
            let g = match r.below(8) {
                0 => G::Ccz(qs[0], qs[1], qs[2]),
                1 => G::Ccx(qs[0], qs[1], qs[2]),
                2 => G::H(qs[0]),
                3 => G::Cx(qs[0], qs[1]),
                4 => G::Swap(qs[0], qs[1]),
                _ => {
                    let w = *r.pick(&[1usize, 2, 5, 6, 7, 8]);
                    qs.truncate(w.min(n));
                    G::Pp(qs, gen_ph(r, PhPool::Float))
                }
            };
            gates.push(g);
        }
        // one phase outside the pi/4 grid keeps the whole case on the float path
        gates.push(G::Rz(r.below(n), (1, 5)));
        check_circuit("wide-compound", i, &Circ { n, gates });
    });
    par_cases("long-narrow", t.pick(150usize, 8_000usize), move |r, i| {
        let n = 2 + r.below(2);
        let d = *r.pick(&[100usize, 180, 300]);
        let mut p = CircParams::unitary(n, d, PhPool::Exact);
        p.min_qubits = n;
        let hc = gen_circuit(r, &p);
        check_circuit("long-narrow", i, &hc);
    });
    // 1000-4200 gates on 1-2 qubits (block sizes such as 512 / 1024 / 4096 are crossed, with
    // lengths that are and are not multiples of them)
    par_cases("very-long", t.pick(120usize, 6_000usize), move |r, i| {
        let n = 1 + r.below(2);
        let len = if r.chance(0.5) {
            *r.pick(&[1000usize, 1024, 1025, 1030, 2048, 2100, 4096, 4200]) + if r.chance(0.3) { r.below(7) } else { 0 }
        } else {
            r.log_uniform(200, 5000)
        };
        let mut p = CircParams::unitary(n, len, PhPool::Exact);
        p.min_qubits = n;
        p.ccz = false;
        p.pp = r.chance(0.3);
        let mut hc = gen_circuit(r, &p);
        // gen_circuit draws a depth <= len: top up to the intended length with copies of its own gates
        let mut k = 0;
        while hc.gates.len() < len && !hc.gates.is_empty() {
            hc.gates.push(hc.gates[k].clone());
            k += 1;
        }
        check_circuit("very-long", i, &hc);
    });
    // concatenation of very unequal lengths, in both orders
    par_cases("concat-unequal", t.pick(150usize, 8_000usize), move |r, i| {
        let n = 1 + r.below(2);
        let (long, short) = if r.chance(0.5) {
            (*r.pick(&[512usize, 600, 1024, 1100, 2500]), *r.pick(&[1usize, 2, 3, 8, 40, 64]))
        } else {
            (r.log_uniform(100, 3000), r.log_uniform(1, 100))
        };
        let mut pl = CircParams::unitary(n, long, PhPool::Exact);
        pl.min_qubits = n;
        pl.ccz = false;
        let mut a = gen_circuit(r, &pl);
        let mut k = 0;
        while a.gates.len() < long && !a.gates.is_empty() {
            a.gates.push(a.gates[k].clone());
            k += 1;
        }
        let mut ps = CircParams::unitary(n, short, PhPool::Exact);
        ps.min_qubits = n;
        ps.ccz = false;
        let mut b = gen_circuit(r, &ps);
        if b.gates.is_empty() {
            b.gates.push(G::T(0));
        }
        if r.chance(0.5) {
            check_concat("concat-unequal", i, &b, &a);
        } else {
            check_concat("concat-unequal", i, &a, &b);
        }
    });
    par_cases("big-denominators", t.pick(1500usize, 60_000usize), move |r, i| {
        let mut hc = gen_circuit(r, &CircParams::unitary(4, 12, PhPool::Float));
        for g in hc.gates.iter_mut() {
            if let G::Rz(_, p) | G::Rx(_, p) | G::Pp(_, p) = g {
                if r.chance(0.7) {
                    let d = *r.pick(&[65_537i64, 65_536 * 3, 1_000_003, (1 << 31) - 1, (1 << 40) + 15, 1 << 50, 1 << 55, 1 << 60, (1 << 61) - 1]);
                    let k = match r.below(6) {
                        0 => 1,
                        1 => d - 1,
                        2 => -(d - 1),
                        // next to a multiple of 1/2 or 1/4: a Clifford / T phase up to the last bit
                        3 => d / 2 + *r.pick(&[1i64, -1]),
                        4 => *r.pick(&[1i64, -1, 3, -3]) * (d / 4) + *r.pick(&[1i64, -1]),
                        _ => r.range(-d + 1, d),
                    };
                    let q = quizx::phase::Phase::new(num::rational::Rational64::new(k, d)).to_rational();
                    *p = (*q.numer(), *q.denom());
                }
            }
        }
        check_circuit("big-denominators", i, &hc);
    });

    // exhaustive single gates: every kind x every ordered qubit tuple x phase list
    let max_n = t.pick(5usize, 6usize);
    let mut space: Vec<Circ> = vec![];
    for n in 1..=max_n {
        space.extend(single_gate_space(n));
    }
    let total = space.len();
    let space = Arc::new(space);
    let sp = space.clone();
    par_cases("single-gate-exhaustive", total, move |_r, i| {
        check_circuit("single-gate-exhaustive", i, &sp[i as usize]);
    });
    c.extra("single_gate_exhaustive", json!({"max_qubits": max_n, "space": total, "completed": !c.out_of_time()}));

    // concatenation
    let (pq, pd, n_pairs) = t.pick((5usize, 20usize, 6000usize), (5usize, 30usize, 150_000usize));
    par_cases("concat-pairs", n_pairs, move |r, i| {
        let pool = if r.chance(0.7) { PhPool::Exact } else { PhPool::Float };
        let n = 1 + r.below(pq);
        let mut p = CircParams::unitary(n, pd, pool);
        p.min_qubits = n;
        let h1 = gen_circuit(r, &p);
        let h2 = if r.chance(0.1) { Circ { n, gates: vec![] } } else { gen_circuit(r, &p) };
        check_concat("concat-pairs", i, &h1, &h2);
    });
    par_cases("concat-qubit-mismatch", t.pick(40, 400), move |r, _i| {
        let n1 = 1 + r.below(4);
        let mut n2 = 1 + r.below(4);
        if n2 == n1 {
            n2 += 1;
        }
        let mut p1 = CircParams::unitary(n1, 6, PhPool::Exact);
        p1.min_qubits = n1;
        let mut p2 = CircParams::unitary(n2, 6, PhPool::Exact);
        p2.min_qubits = n2;
        let h1 = gen_circuit(r, &p1);
        let h2 = gen_circuit(r, &p2);
        check_mismatch("concat-qubit-mismatch", &h1, &h2);
    });
    c.extra("exhaustive", json!(false));
}

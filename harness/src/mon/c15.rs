//! C15 -- monitor (to be written)
use crate::fw::ctx;

pub fn run() {
    ctx().harness_error("C15 monitor not implemented yet");
}

//! C07 -- graph scalars: exact ring arithmetic, honest approx flag, faithful conversions,
//! dyadic ordering.
//!
//! Workload: random straight-line programs (expression DAGs) over `Scalar4` and over
//! `Dyadic`. After EVERY node the stored value is read through the raw-parts hook
//! (`verif_raw`, never through `val_and_exp` / `complex_value`, which are under test) and
//! compared with the same node evaluated in the exact BigInt model `oracle::ring::R`.
//!
//! Verdict rules (readings of the property text, chosen so correct code cannot be blamed):
//! * result NOT flagged approximate  =>  stored value == model value exactly; `is_zero`,
//!   `is_one`, `==` (against every earlier unflagged node) and
//!   `exact_phase_and_sqrt2_pow` agree with the model value.  Equivalently: stored value
//!   != model value  =>  the flag must be set ("honest flag").
//! * result flagged approximate => nothing is demanded of value, `==` or the predicates.
//! * f64 constants are exact dyadic numbers in the model (they are "arbitrary f64
//!   constants" of the quantifier); phases that are not multiples of pi/4 enter the model
//!   with the value quizx stored for them and must be flagged (their true value is
//!   irrational).
//! * conversions (`TryFrom<&Scalar4>/<Scalar4> for Complex<f64>`, `complex_value`,
//!   `f64::try_from(Dyadic)`) are judged against the STORED value (exact or approximate
//!   node alike) converted exactly (BigInt -> nearest f64), tolerance 1e-12 * largest
//!   |coefficient|; only inside the exponent window the conversion itself accepts
//!   (an `Err` is a violation only if every non-zero coefficient lies in
//!   [2^-800, 2^900], where no reading of "supported window" could exclude it;
//!   other `Err`s are counted by cause).
//! * `From<f64>` must round-trip bit-exactly (up to the sign of zero) inside that window.
//! * `Dyadic::cmp`, `<`, `>` must be the order of the stored real numbers (flags are not
//!   part of the value); `abs_diff_eq(a,b,eps)` must be true when |a-b| <= eps/4 and false
//!   when |a-b| >= 4 eps (factor-4 margin: the subtraction may truncate).
//! * "supported exponent range": all exponents stay below 2^29 in magnitude so that the i32
//!   exponent arithmetic cannot overflow.
//! * after a violating node the model is re-synchronised to the stored value so that one
//!   defect is reported once, at the node where it happens.

use crate::fw::{ctx, guarded, par_cases, Caught};
use crate::gen::prng::{hash_str, Rng};
use crate::oracle::ratio::{self, dyadic_to_f64_nearest, f64_decode, Q};
use crate::oracle::ring::{self, r_of_scalar, Num, R};
use approx::AbsDiffEq;
use num::bigint::BigInt;
use num::complex::Complex;
use num::Signed;
use quizx::phase::Phase;
use quizx::scalar::{Dyadic, FromPhase, One, Scalar4, Sqrt2, Zero};
use serde_json::{json, Value};
use std::cmp::Ordering;
use std::collections::{BTreeMap, BTreeSet};
use std::sync::Mutex;

type Raw = (bool, bool, u64, i32);

const EXP_LIMIT: i64 = 1 << 29;
/// largest width (in bits) the exact model is allowed to reach in one value
const MODEL_BITS: i64 = 20_000;

#[derive(Default)]
struct Tally(BTreeMap<String, u64>);
impl Tally {
    fn add(&mut self, k: &str) {
        *self.0.entry(k.to_string()).or_default() += 1;
    }
    fn flush(self) {
        let c = ctx();
        for (k, n) in self.0 {
            c.count(&k, n);
        }
    }
}

/// Signatures already reported with a full witness: repeats are only counted (building the
/// program listing for every one of 10^5 occurrences of a known defect would dominate the run).
static SEEN: Mutex<BTreeSet<String>> = Mutex::new(BTreeSet::new());

fn first_time(sig: &str) -> bool {
    SEEN.lock().unwrap_or_else(|e| e.into_inner()).insert(sig.to_string())
}

// ------------------------------------------------------------------------------------
// raw helpers
// ------------------------------------------------------------------------------------

fn r_of_raw(raw: Raw) -> R {
    let (s, _a, m, e) = raw;
    if m == 0 {
        return R::zero();
    }
    let v = BigInt::from(m);
    R::new([if s { -v } else { v }, BigInt::zero(), BigInt::zero(), BigInt::zero()], e as i64)
}

fn raw_json(r: &Raw) -> Value {
    json!({"sign": r.0, "approx": r.1, "mantissa": format!("0x{:016x}", r.2), "exp": r.3})
}

fn raws_json(r: &[Raw; 4]) -> Value {
    json!(r.iter().map(raw_json).collect::<Vec<_>>())
}

/// (lowest bit exponent, one past the highest bit exponent) of a model value
fn span(m: &R) -> Option<(i64, i64)> {
    if Num::is_zero(m) {
        return None;
    }
    let bits = m.c.iter().map(|x| x.bits() as i64).max().unwrap();
    Some((m.e, m.e + bits))
}

fn joint_width(a: &R, b: &R) -> i64 {
    match (span(a), span(b)) {
        (Some((l1, h1)), Some((l2, h2))) => h1.max(h2) - l1.min(l2),
        (Some((l, h)), None) | (None, Some((l, h))) => h - l,
        (None, None) => 0,
    }
}

fn width(a: &R) -> i64 {
    span(a).map(|(l, h)| h - l).unwrap_or(0)
}

fn shift_class(a: &Raw, b: &Raw) -> Option<&'static str> {
    if a.2 == 0 || b.2 == 0 {
        return None;
    }
    let s = (a.3 as i64 - b.3 as i64).abs();
    Some(match s {
        0 => "0",
        1 => "1",
        2..=31 => "2..31",
        32..=62 => "32..62",
        63 => "63",
        64 => "64",
        65 => "65",
        66..=128 => "66..128",
        _ => ">128",
    })
}

// ------------------------------------------------------------------------------------
// operand pools
// ------------------------------------------------------------------------------------

fn gen_mant(r: &mut Rng) -> i64 {
    let v: i64 = match r.below(16) {
        0 => 0,
        1 => 1,
        2 => 1i64 << r.below(63),
        3 => (1i64 << r.range(1, 62)) + 1,
        4 => (1i64 << r.range(1, 62)) - 1,
        5 => *r.pick(&[(1i64 << 32) + 1, (1i64 << 32) - 1, (1i64 << 31) + 1, 0xFFFF_FFFF, 0x1_0000_0001]),
        6 => i64::MAX,
        7 => i64::MAX - r.range(0, 3),
        8 => (r.next_u64() >> 1) as i64,                // random 63 bit
        9 => ((r.next_u64() >> 1) | 1 | (1 << 62)) as i64, // odd, top bit of i64 set
        10 => (r.next_u64() >> r.below(63)) as i64 & i64::MAX,
        11 => r.range(-16, 16),
        12 => r.range(-1024, 1024),
        13 => 3 * (1i64 << r.below(60)),
        14 => {
            if r.chance(0.05) {
                i64::MIN
            } else {
                i64::MIN + 1
            }
        }
        _ => r.range(2, 9),
    };
    if v != i64::MIN && r.chance(0.4) {
        -v
    } else {
        v
    }
}

#[derive(Clone, Copy)]
struct ExpBase(i64);

fn gen_base(r: &mut Rng) -> ExpBase {
    ExpBase(match r.below(12) {
        0..=4 => 0,
        5 => r.range(-20, 20),
        6 => r.range(-100, 100),
        7 => r.range(-1000, 1000),
        8 => *r.pick(&[-1022i64, -1021, -1074, -960, 960, 1023, 1024, -63, 63]),
        9 => r.range(-(1 << 20), 1 << 20),
        10 => (1 << 27) - r.range(0, 1000),
        _ => -(1 << 27) + r.range(0, 1000),
    })
}

fn gen_exp(r: &mut Rng, base: ExpBase) -> i32 {
    let off = match r.below(10) {
        0..=3 => 0,
        4 => *r.pick(&[1i64, -1, 2, -2]),
        5 => *r.pick(&[62i64, 63, 64, 65, 66, -62, -63, -64, -65, -66]),
        6 => *r.pick(&[100i64, 127, 128, 129, -100, -127, -128, -129, 31, 32, 33, -31, -32, -33]),
        7 => r.range(-70, 70),
        8 => r.range(-8, 8),
        _ => r.range(-300, 300),
    };
    (base.0 + off) as i32
}

fn gen_f64(r: &mut Rng) -> f64 {
    match r.below(14) {
        0 => *r.pick(&[0.0, -0.0, 1.0, -1.0, 0.5, 2.0, 0.1, -0.3, 1.0 / 3.0, std::f64::consts::PI, std::f64::consts::SQRT_2, 4.3, -55.13]),
        1 => r.range(-1000, 1000) as f64,
        2 => r.f64() * 2.0 - 1.0,
        3 => (r.f64() - 0.5) * 1e6,
        4 => (r.f64() - 0.5) * 1e-6,
        5 => *r.pick(&[1e-300, 1e300, 5e-324, f64::MAX, f64::MIN_POSITIVE, -f64::MAX, 2.2250738585072009e-308, 1e-290, 1e-280, 3e-289, 1e270]),
        6 => ((1u64 << 53) - 1) as f64 * 2f64.powi(r.range(-80, 80) as i32),
        7 => (r.range(1, 1 << 20) as f64) * 2f64.powi(r.range(-60, 60) as i32),
        8 => {
            // random finite bit pattern
            loop {
                let f = f64::from_bits(r.next_u64());
                if f.is_finite() {
                    break f;
                }
            }
        }
        9 => {
            let k = r.range(-8, 8) as f64;
            (std::f64::consts::PI * k / 8.0).cos()
        }
        10 => 2f64.powi(r.range(-1074, 1023) as i32),
        11 => f64::from_bits(r.next_u64() >> 12) , // subnormal
        _ => (r.f64() * 2.0 - 1.0) * 2f64.powi(r.range(-40, 40) as i32),
    }
}

fn r_of_f64(x: f64) -> R {
    let (m, e) = f64_decode(x).expect("finite");
    R::new([BigInt::from(m), BigInt::zero(), BigInt::zero(), BigInt::zero()], e)
}

/// a phase n/d for from_phase & co
fn gen_phase(r: &mut Rng) -> (i64, i64) {
    match r.below(10) {
        0..=5 => (r.range(-9, 9), 4),
        6 => (r.range(-4, 4), 2),
        7 => (r.range(-3, 3), 1),
        8 => (r.range(-20, 20), *r.pick(&[3i64, 5, 7, 8, 16, 12])),
        _ => (r.range(-300, 300), r.range(1, 300)),
    }
}

fn gcd(a: i64, b: i64) -> i64 {
    let (mut a, mut b) = (a.abs(), b.abs());
    while b != 0 {
        let t = a % b;
        a = b;
        b = t;
    }
    a
}

/// exact model of e^{i pi n/d} when it lies in Z[omega]
fn phase_model(n: i64, d: i64) -> Option<R> {
    let g = gcd(n, d).max(1);
    let (n, d) = (n / g, d / g);
    if 4 % d == 0 {
        Some(R::omega_pow(n * (4 / d)))
    } else {
        None
    }
}

// ------------------------------------------------------------------------------------
// Scalar4 programs
// ------------------------------------------------------------------------------------

#[derive(Clone)]
struct Node {
    real: Scalar4,
    raw: [Raw; 4],
    flagged: bool,
    model: R,
    /// bound on |exponent| of any stored coefficient
    eb: i64,
    op: Value,
    kind: &'static str,
    args: (usize, usize),
}

fn eb_of_raw(raw: &[Raw; 4]) -> i64 {
    raw.iter().filter(|r| r.2 != 0).map(|r| (r.3 as i64).abs() + 64).max().unwrap_or(0)
}

struct Prog {
    family: &'static str,
    index: u64,
    nodes: Vec<Node>,
    tally: Tally,
    violated: bool,
    /// the Scalar4 multiplications (x, y) the op about to be pushed consists of; used only to
    /// classify an unflagged mismatch (was an intermediate accumulator an approx-flagged zero?)
    pending_steps: Vec<(Scalar4, Scalar4)>,
}

impl Prog {
    fn listing(&self, upto: usize) -> Value {
        json!(self
            .nodes
            .iter()
            .take(upto + 1)
            .enumerate()
            .map(|(i, n)| json!({"node": i, "op": n.op, "raw(a,b,c,d)": raws_json(&n.raw), "flagged_approx": n.flagged, "model": format!("{}", n.model)}))
            .collect::<Vec<_>>())
    }

    fn violation(&mut self, sig: &str, at: usize, detail: Value) {
        self.violated = true;
        if !first_time(sig) {
            ctx().violation(sig, self.family, self.index, Value::Null);
            return;
        }
        let mut d = detail;
        d["program"] = self.listing(at);
        d["failing_node"] = json!(at);
        ctx().violation(sig, self.family, self.index, d);
    }

    /// Judge a freshly computed node and append it.
    fn push(&mut self, real: Scalar4, mut model: R, op: Value, kind: &'static str, args: (usize, usize), operand_has_approx_zero: bool, irrational_const: bool) {
        let steps = std::mem::take(&mut self.pending_steps);
        let raw = real.verif_raw();
        let flagged = raw.iter().any(|r| r.1);
        let stored = r_of_scalar(&real);
        let idx = self.nodes.len();
        let eb = eb_of_raw(&raw);
        self.tally.add(&format!("node:{kind}"));
        self.tally.add(if flagged { "nodes:flagged-approx" } else { "nodes:exact" });
        if raw.iter().any(|r| r.2 & 1 == 1) {
            self.tally.add("mantissa:64-significant-bits");
        }
        if raw.iter().any(|r| r.2 == 0 && r.1) {
            self.tally.add("coefficient:approx-flagged-zero");
        }
        if raw.iter().any(|r| r.2 == 0 && (r.0 || r.3 != 0)) {
            // zero is documented to be canonical (normalize): sign off, exp 0
            self.tally.add("coefficient:non-canonical-zero");
        }
        self.nodes.push(Node { real, raw, flagged, model: model.clone(), eb, op, kind, args });
        if raw.iter().any(|r| r.2 != 0 && r.2 >> 63 == 0) {
            // same root cause as in the Dyadic family (carry path of Dyadic::add), same signature
            if self.nodes[..idx].iter().any(|n| n.raw.iter().any(|r| r.2 != 0 && r.2 >> 63 == 0)) {
                self.tally.add("cascade:not-normalised-mantissa-passed-on");
            } else {
                // representation detail of the current implementation (named in the property's
                // anchors, not in its statement): observed, not judged - what it breaks (order,
                // subtraction, conversions) is judged by those clauses themselves
                let _ = kind;
                self.tally.add("observation:stored-mantissa-not-normalised(via Scalar4)");
            }
        }
        if irrational_const && !flagged {
            self.violation(&format!("{kind}|irrational-constant-not-flagged"), idx, json!({"what": "a phase that is not a multiple of pi/4 has an irrational value; the stored float must be flagged approximate"}));
        }
        if stored != model {
            if flagged {
                self.tally.add("nodes:flagged-and-value-differs-from-model");
                if Num::is_zero(&stored) && !Num::is_zero(&model) {
                    self.tally.add("nodes:flagged-zero-with-nonzero-model");
                }
            } else {
                // one root cause = one signature: the op kind stays in the detail when the
                // discriminating condition already identifies the cause
                let inner_az = !operand_has_approx_zero && steps.iter().any(|(x, y)| mul_intermediate_approx_zero(&x.verif_raw(), &y.verif_raw()));
                let sig = if operand_has_approx_zero {
                    "Scalar4-arithmetic|unflagged-result-differs-from-exact-value|operand-has-approx-flagged-zero-coefficient".to_string()
                } else if inner_az {
                    // same root cause (Dyadic::add returns the other operand when one is zero and
                    // forgets the zero's approx flag), but the approx-flagged zero is an
                    // intermediate accumulator inside Scalar4::mul, not visible in the operands
                    "Scalar4-arithmetic|unflagged-result-differs-from-exact-value|approx-flagged-zero-accumulator-inside-mul".to_string()
                } else {
                    format!("{kind}|unflagged-result-differs-from-exact-value|other")
                };
                self.violation(
                    &sig,
                    idx,
                    json!({"what": "result is not flagged approximate but differs from the exact value", "operation": kind, "stored": format!("{stored}"), "exact": format!("{model}")}),
                );
                // re-synchronise so that descendants are judged on their own
                model = stored.clone();
                self.nodes[idx].model = model.clone();
            }
        } else if flagged {
            self.tally.add("nodes:flagged-but-value-exact");
        }
        if !flagged {
            self.check_exact_node(idx);
        }
        self.check_conversion(idx);
    }

    fn check_exact_node(&mut self, idx: usize) {
        let n = self.nodes[idx].clone();
        let m = &n.model;
        // is_zero / is_one
        let z = n.real.is_zero();
        if z != Num::is_zero(m) {
            self.violation("Scalar4::is_zero|disagrees-with-exact-value", idx, json!({"observed": z, "exact": format!("{m}")}));
        }
        let o = n.real.is_one();
        let want_one = *m == R::one();
        if want_one {
            self.tally.add("pred:is_one-true");
        }
        if z {
            self.tally.add("pred:is_zero-true");
        }
        if o != want_one {
            self.violation("Scalar4::is_one|disagrees-with-exact-value", idx, json!({"observed": o, "exact": format!("{m}")}));
        }
        // exact_phase_and_sqrt2_pow
        let want = phase_form(m);
        match guarded(|| n.real.exact_phase_and_sqrt2_pow()) {
            Err(e) => self.violation(&format!("exact_phase_and_sqrt2_pow|panic|{}", e.site()), idx, json!({"panic": e.text()})),
            Ok(got) => {
                let got_kp = got.map(|(ph, p)| {
                    let r = ph.to_rational();
                    (Q::from_i64s(*r.numer(), *r.denom()), p as i64)
                });
                let ok = match (&want, &got_kp) {
                    (None, None) => true,
                    (Some((k, p)), Some((q, p2))) => p == p2 && q.congruent_mod2(&Q::from_i64s(*k, 4)),
                    _ => false,
                };
                self.tally.add(if want.is_some() { "exact_phase:recognisable" } else { "exact_phase:not-of-that-form" });
                if !ok {
                    let full64 = n.raw.iter().any(|r| r.2 & 1 == 1);
                    let class = match (&want, &got_kp) {
                        (None, Some(_)) => "false-positive",
                        (Some(_), None) => "false-negative",
                        _ => "wrong-phase-or-power",
                    };
                    let cond = if full64 { "coefficient-with-64-significant-bits" } else { "other" };
                    self.violation(
                        &format!("exact_phase_and_sqrt2_pow|{class}|{cond}"),
                        idx,
                        json!({"observed": got_kp.map(|(q, p)| json!({"phase": format!("{q}"), "sqrt2_pow": p})), "expected": want.map(|(k, p)| json!({"phase": format!("{k}/4"), "sqrt2_pow": p})), "exact": format!("{m}")}),
                    );
                }
            }
        }
        // == against every earlier unflagged node
        for j in 0..idx {
            if self.nodes[j].flagged {
                continue;
            }
            let want_eq = self.nodes[j].model == *m;
            let got_eq = self.nodes[j].real == n.real;
            let got_ne = self.nodes[j].real != n.real;
            self.tally.add(if want_eq { "eq:equal-values" } else { "eq:different-values" });
            if got_eq != want_eq || got_ne == got_eq {
                let class = if want_eq { "equal-values-compare-unequal" } else { "different-values-compare-equal" };
                self.violation(&format!("Scalar4::eq|{class}"), idx, json!({"other_node": j, "observed_eq": got_eq, "expected_eq": want_eq}));
                break;
            }
        }
    }

    fn check_conversion(&mut self, idx: usize) {
        let n = self.nodes[idx].clone();
        let tops: Vec<i64> = n.raw.iter().filter(|r| r.2 != 0).map(|r| r.3 as i64 + 64).collect();
        let max_top = tops.iter().copied().max();
        let by_ref = guarded(|| Complex::<f64>::try_from(&n.real));
        let by_val = guarded(|| Complex::<f64>::try_from(n.real));
        let cv = guarded(|| n.real.complex_value());
        let (by_ref, by_val) = match (by_ref, by_val) {
            (Ok(a), Ok(b)) => (a, b),
            (Err(e), _) | (_, Err(e)) => {
                self.violation(&format!("TryFrom<Scalar4> for Complex|panic|{}", e.site()), idx, json!({"panic": e.text()}));
                return;
            }
        };
        let same_bits = |a: &Complex<f64>, b: &Complex<f64>| (a.re == b.re || (a.re.is_nan() && b.re.is_nan())) && (a.im == b.im || (a.im.is_nan() && b.im.is_nan()));
        let differ = match (&by_ref, &by_val) {
            (Ok(a), Ok(b)) => !same_bits(a, b),
            (Err(_), Err(_)) => false,
            _ => true,
        };
        if differ {
            self.violation("TryFrom<Scalar4> for Complex|by-ref-and-by-value-differ", idx, json!({"by_ref": format!("{by_ref:?}"), "by_value": format!("{by_val:?}")}));
        }
        match by_ref {
            Err(_) => {
                // complex_value() is documented to be the unwrapped conversion: it panics here
                if cv.is_ok() {
                    self.violation("complex_value|inconsistent-with-TryFrom", idx, json!({"try_from": "Err", "complex_value": format!("{:?}", cv.ok())}));
                }
                let all_in_safe_window = tops.iter().all(|t| *t - 1 >= -800 && *t <= 900);
                if all_in_safe_window {
                    self.violation(
                        "TryFrom<Scalar4> for Complex|err-for-representable-scalar|all-coefficients-in-[2^-800,2^900]",
                        idx,
                        json!({"what": "conversion refused although every non-zero coefficient is comfortably inside the f64 range"}),
                    );
                } else {
                    let min_top = tops.iter().copied().min().unwrap_or(0);
                    let cause = if max_top.unwrap_or(0) > 900 {
                        "coefficient-above-2^900"
                    } else if max_top.unwrap_or(0) - 1 < -800 {
                        "all-coefficients-below-2^-800"
                    } else if min_top - 1 < -800 {
                        "tiny-coefficient-next-to-representable-one"
                    } else {
                        "other"
                    };
                    self.tally.add(&format!("conv:err:{cause}"));
                }
            }
            Ok(got) => {
                match &cv {
                    Ok(c2) if same_bits(c2, &got) => {}
                    other => {
                        self.violation("complex_value|inconsistent-with-TryFrom", idx, json!({"try_from": format!("{got:?}"), "complex_value": format!("{:?}", other.as_ref().map_err(|e| e.text()))}));
                    }
                }
                let Some(mt) = max_top else {
                    // zero scalar
                    self.tally.add("conv:judged");
                    if got.re != 0.0 || got.im != 0.0 {
                        self.violation("complex_value|zero-scalar-converts-to-nonzero", idx, json!({"observed": format!("{got:?}")}));
                    }
                    return;
                };
                if mt > 1000 {
                    // the exact value is not (safely) representable: nothing is demanded
                    self.tally.add("conv:skipped-value-above-2^1000");
                    return;
                }
                // expected from the STORED value, exactly
                let st = r_of_scalar(&n.real);
                let f = |x: &BigInt| dyadic_to_f64_nearest(x, st.e);
                let a = f(&st.c[0]);
                let c2 = f(&st.c[2]);
                let bmd = f(&(&st.c[1] - &st.c[3]));
                let bpd = f(&(&st.c[1] + &st.c[3]));
                let h = std::f64::consts::FRAC_1_SQRT_2;
                let want = Complex::new(a + bmd * h, c2 + bpd * h);
                let big = st.c.iter().map(|x| x.abs()).max().unwrap();
                let m = dyadic_to_f64_nearest(&big, st.e);
                let tol = 1e-12 * m;
                let err = (got.re - want.re).abs().max((got.im - want.im).abs());
                self.tally.add("conv:judged");
                if !(err <= tol) {
                    // discriminating condition: is the observed number what one gets when a
                    // 64-significant-bit mantissa wraps negative (q -> q - sgn(q) 2^top(q)) in one
                    // of the four converted quantities a, c, b-d, b+d ?
                    let wrapped = |x: &BigInt| -> f64 {
                        if x.is_zero() {
                            return 0.0;
                        }
                        let t = BigInt::from(1) << (x.bits() as usize);
                        let w = if x.is_negative() { x + t } else { x - t };
                        dyadic_to_f64_nearest(&w, st.e)
                    };
                    let (bmd_x, bpd_x) = (&st.c[1] - &st.c[3], &st.c[1] + &st.c[3]);
                    let mut wrap = false;
                    for ra in [a, wrapped(&st.c[0])] {
                        for rb in [bmd, wrapped(&bmd_x)] {
                            for ia in [c2, wrapped(&st.c[2])] {
                                for ib in [bpd, wrapped(&bpd_x)] {
                                    let w = Complex::new(ra + rb * h, ia + ib * h);
                                    if (got.re - w.re).abs().max((got.im - w.im).abs()) <= tol {
                                        wrap = true;
                                    }
                                }
                            }
                        }
                    }
                    let cond = if wrap { "consistent-with-64-bit-mantissa-wrapping-negative" } else { "other" };
                    self.violation(
                        &format!("complex_value|inaccurate|{cond}"),
                        idx,
                        json!({"observed": format!("{got:?}"), "expected_from_stored_value": format!("{want:?}"), "largest_coefficient": m, "error": err, "tolerance": tol}),
                    );
                }
            }
        }
    }
}

/// If the value is omega^k * sqrt2^p return (k in 0..8, p).
fn phase_form(m: &R) -> Option<(i64, i64)> {
    if Num::is_zero(m) {
        return None;
    }
    for k in 0..8i64 {
        for parity in 0..2i64 {
            let base = R::omega_pow(k).mul(&R::sqrt2_pow(parity));
            if base.c == m.c {
                return Some((k, 2 * (m.e - base.e) + parity));
            }
        }
    }
    None
}

/// Rebuild a Dyadic with exactly the given stored parts (classification aid only).
fn dy_from_raw(r: &Raw) -> Option<Dyadic> {
    let (s, a, m, e) = *r;
    let mut d = if m == 0 {
        Dyadic::zero()
    } else if m & 1 == 0 {
        Dyadic::new((m >> 1) as i64, e.checked_add(1)?)
    } else {
        Dyadic::new((m >> 1) as i64, e.checked_add(1)?) + Dyadic::new(1, e)
    };
    if s {
        d = -d;
    }
    d.set_approx(a);
    (d.verif_raw() == *r).then_some(d)
}

/// Re-enact the accumulation order of `Scalar4 * Scalar4` on the real Dyadic operations and
/// report whether some accumulator passes through an approx-flagged zero. Used only to pick
/// the discriminating condition of a signature, never for a verdict.
fn mul_intermediate_approx_zero(x: &[Raw; 4], y: &[Raw; 4]) -> bool {
    let (x, y) = (*x, *y);
    guarded(move || {
        let xs: Vec<Option<Dyadic>> = x.iter().map(dy_from_raw).collect();
        let ys: Vec<Option<Dyadic>> = y.iter().map(dy_from_raw).collect();
        if xs.iter().chain(ys.iter()).any(|d| d.is_none()) {
            return false;
        }
        let xs: Vec<Dyadic> = xs.into_iter().map(|d| d.unwrap()).collect();
        let ys: Vec<Dyadic> = ys.into_iter().map(|d| d.unwrap()).collect();
        let mut acc = [Dyadic::zero(); 4];
        for i in 0..4 {
            if xs[i].is_zero() {
                continue;
            }
            for j in 0..4 {
                let pos = (i + j) % 8;
                let (k, t) = if pos < 4 { (pos, xs[i] * ys[j]) } else { (pos - 4, -xs[i] * ys[j]) };
                acc[k] = acc[k] + t;
                if acc[k].is_zero() && acc[k].approx() {
                    return true;
                }
            }
        }
        false
    })
    .unwrap_or(false)
}

fn has_approx_zero(raw: &[Raw; 4]) -> bool {
    raw.iter().any(|r| r.2 == 0 && r.1)
}

fn pick_node(r: &mut Rng, n: usize) -> usize {
    // biased to recent nodes
    if r.chance(0.5) {
        n - 1 - r.below(n.min(3))
    } else {
        r.below(n)
    }
}

fn gen_const(r: &mut Rng, p: &mut Prog, base: ExpBase) {
    let c = r.below(16);
    let (real, model, op, kind, irr): (Result<Scalar4, Caught>, R, Value, &'static str, bool) = match c {
        0..=3 => {
            let mut co = [0i64; 4];
            let nn = 1 + r.below(4);
            for _ in 0..nn {
                co[r.below(4)] = gen_mant(r);
            }
            if r.chance(0.3) {
                for x in co.iter_mut() {
                    if *x == 0 {
                        *x = gen_mant(r);
                    }
                }
            }
            let pow = gen_exp(r, base);
            (guarded(|| Scalar4::new(co, pow)), R::from_i64s(co, pow as i64), json!({"Scalar4::new": [co, pow]}), "Scalar4::new", false)
        }
        4 => {
            let co = [gen_mant(r), gen_mant(r), r.range(-3, 3), r.range(-3, 3)];
            (guarded(|| Scalar4::from(co)), R::from_i64s(co, 0), json!({"Scalar4::from([i64;4])": co}), "From<[i64;4]>", false)
        }
        5 => {
            let v = if r.chance(0.5) { r.range(-40, 40) } else { gen_mant(r) };
            (guarded(|| Scalar4::from(v)), R::from_i64s([v, 0, 0, 0], 0), json!({"Scalar4::from(i64)": v}), "From<i64>", false)
        }
        6 | 7 => {
            let x = gen_f64(r);
            let which = r.below(3);
            let name = ["From<f64>", "Scalar4::real", "From<[f64;4]>(x,0,0,0)"][which];
            let real = guarded(|| match which {
                0 => Scalar4::from(x),
                1 => Scalar4::real(x),
                _ => Scalar4::from([x, 0.0, 0.0, 0.0]),
            });
            (real, r_of_f64(x), json!({name: x, "bits": format!("{:016x}", x.to_bits())}), "f64-constant", false)
        }
        8 => {
            let (re, im) = (gen_f64(r), gen_f64(r));
            let which = r.below(2);
            let real = guarded(|| if which == 0 { Scalar4::complex(re, im) } else { Scalar4::from(Complex::new(re, im)) });
            let m = r_of_f64(re).add(&r_of_f64(im).mul(&R::omega_pow(2)));
            (real, m, json!({"Scalar4::complex": [re, im], "bits": [format!("{:016x}", re.to_bits()), format!("{:016x}", im.to_bits())]}), "complex-f64-constant", false)
        }
        9 => {
            let xs = [gen_f64(r), gen_f64(r), gen_f64(r), gen_f64(r)];
            let mut m = R::zero();
            for i in 0..4 {
                m = m.add(&r_of_f64(xs[i]).mul(&R::omega_pow(i as i64)));
            }
            (guarded(|| Scalar4::from(xs)), m, json!({"Scalar4::from([f64;4])": xs, "bits": xs.map(|x| format!("{:016x}", x.to_bits()))}), "From<[f64;4]>", false)
        }
        10 | 11 => {
            let (n, d) = gen_phase(r);
            let which = r.below(3);
            let real = guarded(|| match which {
                0 => Scalar4::from_phase((n, d)),
                1 => Scalar4::from_phase(Phase::new(num::Rational64::new(n, d))),
                _ => Scalar4::from(Phase::from((n, d))),
            });
            match phase_model(n, d) {
                Some(m) => (real, m, json!({"from_phase": [n, d]}), "from_phase", false),
                None => {
                    let m = real.as_ref().map(|s| r_of_scalar(s)).unwrap_or_else(|_| R::zero());
                    (real, m, json!({"from_phase": [n, d]}), "from_phase(float)", true)
                }
            }
        }
        12 => {
            let (n, d) = gen_phase(r);
            let real = guarded(|| Scalar4::one_plus_phase((n, d)));
            match phase_model(n, d) {
                Some(m) => (real, R::one().add(&m), json!({"one_plus_phase": [n, d]}), "one_plus_phase", false),
                None => {
                    let m = real.as_ref().map(|s| r_of_scalar(s)).unwrap_or_else(|_| R::zero());
                    (real, m, json!({"one_plus_phase": [n, d]}), "one_plus_phase(float)", true)
                }
            }
        }
        13 => {
            let pw = match r.below(4) {
                0 => r.range(-6, 6),
                1 => r.range(-200, 200),
                2 => 2 * base.0 + r.range(-3, 3),
                _ => r.range(-(1 << 27), 1 << 27),
            } as i32;
            let which = r.below(4);
            let (real, pw) = match which {
                0 if pw.abs() < 100 => (guarded(Scalar4::sqrt2), 1),
                1 if pw.abs() < 100 => (guarded(Scalar4::one_over_sqrt2), -1),
                _ => (guarded(|| Scalar4::sqrt2_pow(pw)), pw),
            };
            (real, R::sqrt2_pow(pw as i64), json!({"sqrt2_pow": pw}), "sqrt2_pow", false)
        }
        14 => match r.below(3) {
            0 => (guarded(Scalar4::zero), R::zero(), json!("zero()"), "zero", false),
            1 => (guarded(Scalar4::one), R::one(), json!("one()"), "one", false),
            _ => (guarded(Scalar4::minus_one), R::int(-1), json!("minus_one()"), "minus_one", false),
        },
        _ => {
            // small Gaussian-like integers: the bread and butter of ZX scalars
            let co = [r.range(-3, 3), r.range(-3, 3), r.range(-3, 3), r.range(-3, 3)];
            let pow = r.range(-6, 6) as i32 + base.0 as i32;
            (guarded(|| Scalar4::new(co, pow)), R::from_i64s(co, pow as i64), json!({"Scalar4::new": [co, pow]}), "Scalar4::new", false)
        }
    };
    match real {
        Ok(s) => {
            p.push(s, model, op, kind, (usize::MAX, usize::MAX), false, irr);
            if kind == "f64-constant" || kind == "complex-f64-constant" {
                check_f64_roundtrip(p);
            }
        }
        Err(e) => {
            p.violated = true;
            ctx().violation(&const_panic_sig(kind, &e), p.family, p.index, json!({"constructor": op, "panic": e.text()}));
        }
    }
}

/// One root cause, one signature: every integer constructor goes through `Dyadic::new`, whose
/// `-val` overflows for i64::MIN when overflow checks are on (debug builds).
fn const_panic_sig(kind: &str, e: &Caught) -> String {
    if e.text().contains("negate with overflow") {
        "Dyadic::new|panic|attempt to negate with overflow|coefficient=i64::MIN".to_string()
    } else {
        format!("{kind}|panic|{}", e.site())
    }
}

/// conversion from floats round-trips (last node is an f64 constant)
fn check_f64_roundtrip(p: &mut Prog) {
    let idx = p.nodes.len() - 1;
    let n = p.nodes[idx].clone();
    // the floats that went in are exactly the model coefficients 0 and 2
    let want_re = dyadic_to_f64_nearest(&n.model.c[0], n.model.e);
    let want_im = dyadic_to_f64_nearest(&n.model.c[2], n.model.e);
    // From<f64> must store the float exactly ("Dyadic can store any f64 losslessly")
    if r_of_scalar(&n.real) != n.model {
        p.violation("From<f64>|stored-value-differs-from-float", idx, json!({"stored": format!("{}", r_of_scalar(&n.real)), "float_exact": format!("{}", n.model)}));
        return;
    }
    match guarded(|| Complex::<f64>::try_from(&n.real)) {
        Err(e) => p.violation(&format!("From<f64>->Complex|panic|{}", e.site()), idx, json!({"panic": e.text()})),
        Ok(Err(_)) => {
            let tops: Vec<i64> = n.raw.iter().filter(|r| r.2 != 0).map(|r| r.3 as i64 + 64).collect();
            let small = tops.iter().any(|t| *t - 1 < -800);
            p.tally.add(if small { "f64-roundtrip:err:|x|<2^-800" } else { "f64-roundtrip:err:|x|>2^900" });
            // (an Err inside the safe window is reported by check_conversion)
        }
        Ok(Ok(c)) => {
            p.tally.add("f64-roundtrip:judged");
            if c.re != want_re || c.im != want_im {
                p.violation("From<f64>->Complex|round-trip-not-exact", idx, json!({"in": [want_re, want_im], "out": [c.re, c.im]}));
            }
        }
    }
}

fn gen_op(r: &mut Rng, p: &mut Prog, base: ExpBase) {
    let n = p.nodes.len();
    for _attempt in 0..8 {
        let a = pick_node(r, n);
        let b = if r.chance(0.12) { a } else { pick_node(r, n) };
        let (na, nb) = (p.nodes[a].clone(), p.nodes[b].clone());
        let opk = r.below(20);
        let az = has_approx_zero(&na.raw);
        let abz = az || has_approx_zero(&nb.raw);
        let variant = r.below(6);
        match opk {
            0..=4 | 5..=7 => {
                // add / sub
                let sub = opk >= 5;
                if joint_width(&na.model, &nb.model) > MODEL_BITS || joint_width(&r_of_scalar(&na.real), &r_of_scalar(&nb.real)) > MODEL_BITS {
                    continue;
                }
                let (x, y) = (na.real, nb.real);
                let real = guarded(|| match (sub, variant) {
                    (false, 0) => x + y,
                    (false, 1) => &x + y,
                    (false, 2) => x + &y,
                    (false, 3) => &x + &y,
                    (false, 4) => {
                        let mut t = x;
                        t += y;
                        t
                    }
                    (false, _) => {
                        let mut t = x;
                        t += &y;
                        t
                    }
                    (true, 0) => x - y,
                    (true, 1) => &x - y,
                    (true, 2) => x - &y,
                    (true, 3) => &x - &y,
                    (true, 4) => {
                        let mut t = x;
                        t -= y;
                        t
                    }
                    (true, _) => {
                        let mut t = x;
                        t -= &y;
                        t
                    }
                });
                let model = if sub { na.model.sub(&nb.model) } else { na.model.add(&nb.model) };
                for i in 0..4 {
                    if let Some(sc) = shift_class(&na.raw[i], &nb.raw[i]) {
                        p.tally.add(&format!("add-alignment-shift:{sc}"));
                    }
                }
                let kind = if sub { "sub" } else { "add" };
                finish_op(p, real, model, json!({kind: [a, b], "variant": variant}), kind, (a, b), abz);
                if let Some(last) = p.nodes.last() {
                    if last.kind == kind && last.raw.iter().all(|r| r.2 == 0) && !(na.raw.iter().all(|r| r.2 == 0)) {
                        p.tally.add("add:cancellation-to-zero");
                    }
                }
                return;
            }
            8..=12 => {
                if na.eb + nb.eb + 140 > EXP_LIMIT || width(&na.model) + width(&nb.model) > MODEL_BITS {
                    continue;
                }
                let (x, y) = (na.real, nb.real);
                let real = guarded(|| match variant {
                    0 => x * y,
                    1 => &x * y,
                    2 => x * &y,
                    3 => &x * &y,
                    4 => {
                        let mut t = x;
                        t *= y;
                        t
                    }
                    _ => {
                        let mut t = x;
                        t *= &y;
                        t
                    }
                });
                let model = na.model.mul(&nb.model);
                p.pending_steps = vec![(x, y)];
                finish_op(p, real, model, json!({"mul": [a, b], "variant": variant}), "mul", (a, b), abz);
                return;
            }
            13 => {
                let x = na.real;
                let real = guarded(|| x.conj());
                finish_op(p, real, na.model.conj(), json!({"conj": a}), "conj", (a, a), az);
                return;
            }
            14 => {
                // negation: Scalar4 has no Neg; the library idioms are minus_one()*x and 0 - x
                let x = na.real;
                let which = r.below(3);
                let real = guarded(|| match which {
                    0 => Scalar4::minus_one() * x,
                    1 => Scalar4::zero() - x,
                    _ => x * Scalar4::from_phase(1),
                });
                let name = ["neg(minus_one*x)", "neg(zero-x)", "neg(x*from_phase(1))"][which];
                p.pending_steps = match which {
                    0 => vec![(Scalar4::minus_one(), x)],
                    1 => vec![],
                    _ => vec![(x, Scalar4::from_phase(1))],
                };
                finish_op(p, real, na.model.neg(), json!({name: a}), "neg", (a, a), az);
                return;
            }
            15 => {
                let pw = match r.below(4) {
                    0 => r.range(-4, 4),
                    1 => r.range(-130, 130),
                    2 => -2 * base.0 + r.range(-2, 2),
                    _ => r.range(-(1 << 26), 1 << 26),
                };
                if na.eb + pw.abs() / 2 + 140 > EXP_LIMIT {
                    continue;
                }
                let mut x = na.real;
                let real = guarded(move || {
                    x.mul_sqrt2_pow(pw as i32);
                    x
                });
                p.pending_steps = vec![(na.real, Scalar4::sqrt2_pow(pw as i32))];
                finish_op(p, real, na.model.mul(&R::sqrt2_pow(pw)), json!({"mul_sqrt2_pow": [a as i64, pw]}), "mul_sqrt2_pow", (a, a), az);
                return;
            }
            16 | 17 => {
                let (pn, pd) = gen_phase(r);
                let one_plus = opk == 17 && r.chance(0.5);
                let cst = guarded(|| if one_plus { Scalar4::one_plus_phase((pn, pd)) } else { Scalar4::from_phase((pn, pd)) });
                let Ok(cst) = cst else { continue };
                let cm = match phase_model(pn, pd) {
                    Some(m) => {
                        if one_plus {
                            R::one().add(&m)
                        } else {
                            m
                        }
                    }
                    None => r_of_scalar(&cst),
                };
                if width(&na.model) + width(&cm) > MODEL_BITS {
                    continue;
                }
                let mut x = na.real;
                let real = guarded(move || {
                    if one_plus {
                        x.mul_one_plus_phase((pn, pd));
                    } else {
                        x.mul_phase((pn, pd));
                    }
                    x
                });
                let kind = if one_plus { "mul_one_plus_phase" } else { "mul_phase" };
                p.pending_steps = vec![(na.real, cst)];
                finish_op(p, real, na.model.mul(&cm), json!({kind: [a as i64, pn, pd]}), kind, (a, a), az || has_approx_zero(&cst.verif_raw()));
                return;
            }
            18 => {
                // Sum / Product over a few nodes; the empty and the one-element iterator included
                let k = match r.below(8) {
                    0 => 0,
                    1 => 1,
                    _ => 2 + r.below(3),
                };
                let idxs: Vec<usize> = (0..k).map(|_| pick_node(r, n)).collect();
                let prod = r.chance(0.4);
                let mut model = if prod { R::one() } else { R::zero() };
                let mut ok = true;
                let mut eb = 0i64;
                let mut any_az = false;
                for &i in &idxs {
                    let ni = &p.nodes[i];
                    any_az |= has_approx_zero(&ni.raw);
                    if prod {
                        eb += ni.eb + 140;
                        if width(&model) + width(&ni.model) > MODEL_BITS {
                            ok = false;
                            break;
                        }
                        model = model.mul(&ni.model);
                    } else {
                        if joint_width(&model, &ni.model) > MODEL_BITS || ni.eb > 1 << 20 {
                            ok = false;
                            break;
                        }
                        model = model.add(&ni.model);
                    }
                }
                if !ok || eb > EXP_LIMIT {
                    continue;
                }
                let vals: Vec<Scalar4> = idxs.iter().map(|&i| p.nodes[i].real).collect();
                {
                    // classification only: replay the fold to see whether an intermediate
                    // accumulator carries an approx-flagged zero coefficient
                    let vs = vals.clone();
                    if let Ok((seen, steps)) = guarded(move || {
                        let mut acc = if prod { Scalar4::one() } else { Scalar4::zero() };
                        let mut seen = false;
                        let mut steps = vec![];
                        for v in vs {
                            if prod {
                                steps.push((acc, v));
                            }
                            acc = if prod { acc * v } else { acc + v };
                            seen |= has_approx_zero(&acc.verif_raw());
                        }
                        (seen, steps)
                    }) {
                        any_az |= seen;
                        p.pending_steps = steps;
                    }
                }
                let real = guarded(move || if prod { vals.into_iter().product::<Scalar4>() } else { vals.into_iter().sum::<Scalar4>() });
                let kind = if prod { "Product" } else { "Sum" };
                let args = match idxs.len() {
                    0 => (a, a), // no operand: any existing node serves as the (unused) provenance
                    1 => (idxs[0], idxs[0]),
                    _ => (idxs[0], idxs[1]),
                };
                p.tally.add(&format!("{kind}:operands={}", idxs.len()));
                finish_op(p, real, model, json!({kind: idxs}), kind, args, any_az);
                return;
            }
            _ => {
                // twin: the same value by another route (feeds the == check with equal pairs)
                let x = na.real;
                let route = r.below(7);
                let (real, name): (Result<Scalar4, Caught>, &str) = match (route, na.kind) {
                    (0, "add") => {
                        let (u, v) = (p.nodes[na.args.0].real, p.nodes[na.args.1].real);
                        (guarded(|| v + u), "twin:commuted-add")
                    }
                    (0 | 1, "mul") => {
                        let (u, v) = (p.nodes[na.args.0].real, p.nodes[na.args.1].real);
                        p.pending_steps = vec![(v, u)];
                        (guarded(|| v * u), "twin:commuted-mul")
                    }
                    (2, _) => {
                        p.pending_steps = vec![(x, Scalar4::one())];
                        (guarded(|| x * Scalar4::one()), "twin:x*one")
                    }
                    (3, _) => (guarded(|| Scalar4::zero() + x), "twin:zero+x"),
                    (4, _) => (guarded(|| x.conj().conj()), "twin:conj-conj"),
                    (5, _) => {
                        let k = r.range(1, 7);
                        if let Ok(st) = guarded(move || {
                            let (c1, c2) = (Scalar4::from_phase((k, 4)), Scalar4::from_phase((8 - k, 4)));
                            vec![(x, c1), (x * c1, c2)]
                        }) {
                            p.pending_steps = st;
                        }
                        (
                            guarded(move || {
                                let mut t = x;
                                t.mul_phase((k, 4));
                                t.mul_phase((8 - k, 4));
                                t
                            }),
                            "twin:omega^k*omega^(8-k)",
                        )
                    }
                    _ => {
                        let pw = r.range(-9, 9) as i32;
                        if let Ok(st) = guarded(move || {
                            let (c1, c2) = (Scalar4::sqrt2_pow(pw), Scalar4::sqrt2_pow(-pw));
                            vec![(x, c1), (x * c1, c2)]
                        }) {
                            p.pending_steps = st;
                        }
                        (
                            guarded(move || {
                                let mut t = x;
                                t.mul_sqrt2_pow(pw);
                                t.mul_sqrt2_pow(-pw);
                                t
                            }),
                            "twin:sqrt2^p*sqrt2^-p",
                        )
                    }
                };
                let name: &'static str = match name {
                    "twin:commuted-add" => "twin:commuted-add",
                    "twin:commuted-mul" => "twin:commuted-mul",
                    "twin:x*one" => "twin:x*one",
                    "twin:zero+x" => "twin:zero+x",
                    "twin:conj-conj" => "twin:conj-conj",
                    "twin:omega^k*omega^(8-k)" => "twin:omega^k*omega^(8-k)",
                    _ => "twin:sqrt2^p*sqrt2^-p",
                };
                finish_op(p, real, na.model.clone(), json!({name: a}), name, (a, a), true_if_any_az(p, &na));
                return;
            }
        }
    }
    // nothing eligible: add a constant instead
    gen_const(r, p, base);
}

fn true_if_any_az(p: &Prog, n: &Node) -> bool {
    let mut az = has_approx_zero(&n.raw);
    if n.args.0 != usize::MAX {
        az |= has_approx_zero(&p.nodes[n.args.0].raw) || has_approx_zero(&p.nodes[n.args.1].raw);
    }
    az
}

fn finish_op(p: &mut Prog, real: Result<Scalar4, Caught>, model: R, op: Value, kind: &'static str, args: (usize, usize), az: bool) {
    match real {
        Ok(s) => p.push(s, model, op, kind, args, az, false),
        Err(e) => {
            let at = p.nodes.len().saturating_sub(1);
            p.violation(&format!("{kind}|panic|{}", e.site()), at, json!({"op": op, "panic": e.text()}));
        }
    }
}

fn scalar_program(family: &'static str, index: u64, r: &mut Rng) {
    let c = ctx();
    let base = gen_base(r);
    let len = 6 + r.below(19);
    let nconst = 2 + r.below(4);
    let mut p = Prog { family, index, nodes: vec![], tally: Tally::default(), violated: false, pending_steps: vec![] };
    for _ in 0..nconst {
        gen_const(r, &mut p, base);
    }
    while p.nodes.len() < len && !p.nodes.is_empty() {
        if r.chance(0.22) {
            gen_const(r, &mut p, base);
        } else {
            gen_op(r, &mut p, base);
        }
        if p.violated && p.nodes.len() > 40 {
            break;
        }
    }
    let n_ops = p.nodes.iter().filter(|n| n.args.0 != usize::MAX).count();
    let exact_nonzero_op = p.nodes.iter().any(|n| n.args.0 != usize::MAX && !n.flagged && !Num::is_zero(&n.model));
    let ser = serde_json::to_string(&p.nodes.iter().map(|n| &n.op).collect::<Vec<_>>()).unwrap_or_default();
    let h = hash_str(&ser);
    c.case(family, if n_ops >= 3 && exact_nonzero_op { Some(h) } else { None });
    c.evals(p.nodes.len().saturating_sub(1) as u64);
    c.maximum("max_model_bits", p.nodes.iter().map(|n| width(&n.model)).max().unwrap_or(0) as u64);
    c.maximum("max_abs_stored_exponent", p.nodes.iter().map(|n| n.eb).max().unwrap_or(0) as u64);
    if index < 3 {
        c.sample_n(4, || json!({"family": family, "index": index, "program": p.listing(p.nodes.len())}));
    }
    p.tally.flush();
}

// ------------------------------------------------------------------------------------
// Dyadic programs, ordering, abs_diff_eq, f64 conversion
// ------------------------------------------------------------------------------------

#[derive(Clone)]
struct DNode {
    real: Dyadic,
    raw: Raw,
    model: R,
    op: Value,
}

struct DProg {
    family: &'static str,
    index: u64,
    nodes: Vec<DNode>,
    tally: Tally,
}

impl DProg {
    fn listing(&self, upto: usize) -> Value {
        json!(self.nodes.iter().take(upto + 1).enumerate().map(|(i, n)| json!({"node": i, "op": n.op, "raw": raw_json(&n.raw), "model": format!("{}", n.model)})).collect::<Vec<_>>())
    }
    fn violation(&mut self, sig: &str, at: usize, detail: Value) {
        if !first_time(sig) {
            ctx().violation(sig, self.family, self.index, Value::Null);
            return;
        }
        let mut d = detail;
        d["program"] = self.listing(at);
        d["failing_node"] = json!(at);
        ctx().violation(sig, self.family, self.index, d);
    }
    fn push(&mut self, real: Dyadic, mut model: R, op: Value, kind: &'static str, operand_approx_zero: bool) {
        let raw = real.verif_raw();
        let stored = r_of_raw(raw);
        let idx = self.nodes.len();
        self.tally.add(&format!("dnode:{kind}"));
        self.tally.add(if raw.1 { "dnodes:flagged-approx" } else { "dnodes:exact" });
        if raw.2 & 1 == 1 {
            self.tally.add("dyadic-mantissa:64-significant-bits");
        }
        self.nodes.push(DNode { real, raw, model: model.clone(), op });
        if raw.2 != 0 && raw.2 >> 63 == 0 {
            // state invariant named by the property: "val normalised to have its top bit set".
            // Reported where it originates; neg/abs/... of such a value only pass it on.
            if self.nodes[..idx].iter().any(|n| n.raw.2 != 0 && n.raw.2 >> 63 == 0) {
                self.tally.add("cascade:not-normalised-mantissa-passed-on");
            } else {
                // representation detail (see above): observed, not judged
                let site = if kind == "add" || kind == "sub" { "add/sub" } else { kind };
                self.tally.add(&format!("observation:stored-mantissa-not-normalised:{site}"));
            }
        }
        if stored != model {
            if raw.1 {
                self.tally.add("dnodes:flagged-and-value-differs-from-model");
            } else {
                let sig = if operand_approx_zero {
                    "Dyadic-arithmetic|unflagged-result-differs-from-exact-value|operand-is-approx-flagged-zero".to_string()
                } else {
                    format!("Dyadic::{kind}|unflagged-result-differs-from-exact-value|other")
                };
                self.violation(&sig, idx, json!({"operation": kind, "stored": format!("{stored}"), "exact": format!("{model}")}));
                model = stored.clone();
                self.nodes[idx].model = model.clone();
            }
        }
        if !raw.1 {
            let z = real.is_zero();
            if z != Num::is_zero(&model) {
                self.violation("Dyadic::is_zero|disagrees-with-exact-value", idx, json!({"observed": z}));
            }
            for j in 0..idx {
                if self.nodes[j].raw.1 {
                    continue;
                }
                let want = self.nodes[j].model == model;
                let got = self.nodes[j].real == real;
                self.tally.add(if want { "deq:equal-values" } else { "deq:different-values" });
                if want != got {
                    let class = if want { "equal-values-compare-unequal" } else { "different-values-compare-equal" };
                    self.violation(&format!("Dyadic::eq|{class}"), idx, json!({"other_node": j, "observed_eq": got, "expected_eq": want}));
                    break;
                }
            }
        }
        self.check_views_and_f64(idx);
    }

    /// f64::try_from(Dyadic) against the stored value; val_and_exp/val/exp are only counted
    fn check_views_and_f64(&mut self, idx: usize) {
        let n = self.nodes[idx].clone();
        let (sign, _a, m, e) = n.raw;
        // signed views (not named by the property statement; root cause of the f64 defect): count only
        if let Ok((v, ex)) = guarded(|| n.real.val_and_exp()) {
            let view = if v == 0 { R::zero() } else { R::new([BigInt::from(v), BigInt::zero(), BigInt::zero(), BigInt::zero()], ex as i64) };
            if view != r_of_raw(n.raw) {
                self.tally.add("observation:val_and_exp-differs-from-stored-value(64-bit-mantissa-wrap)");
            }
        }
        let top = if m == 0 { None } else { Some(e as i64 + 64) };
        match guarded(|| f64::try_from(n.real)) {
            Err(pn) => self.violation(&format!("f64::try_from(Dyadic)|panic|{}", pn.site()), idx, json!({"panic": pn.text()})),
            Ok(Err(_)) => {
                match top {
                    Some(t) if t - 1 >= -800 && t <= 900 => self.violation("f64::try_from(Dyadic)|err-for-representable-value|value-in-[2^-800,2^900]", idx, json!({"raw": raw_json(&n.raw)})),
                    None => self.violation("f64::try_from(Dyadic)|err-for-zero", idx, json!({"raw": raw_json(&n.raw)})),
                    Some(t) if t - 1 < -800 => {
                        // how much of the f64 range is refused? record the largest refused magnitude
                        self.tally.add(if t - 1 >= -1022 { "dconv:err:normal-f64-range-value-below-2^-800" } else { "dconv:err:below-f64-normal-range" });
                    }
                    Some(_) => self.tally.add("dconv:err:above-2^900"),
                }
            }
            Ok(Ok(got)) => {
                let Some(t) = top else {
                    self.tally.add("dconv:judged");
                    if got != 0.0 {
                        self.violation("f64::try_from(Dyadic)|zero-converts-to-nonzero", idx, json!({"observed": got}));
                    }
                    return;
                };
                if t > 1000 {
                    self.tally.add("dconv:skipped-value-above-2^1000");
                    return;
                }
                let mb = BigInt::from(m);
                let want = dyadic_to_f64_nearest(&if sign { -mb } else { mb }, e as i64);
                self.tally.add("dconv:judged");
                if got == want {
                    self.tally.add("dconv:correctly-rounded");
                }
                if !((got - want).abs() <= 1e-12 * want.abs()) {
                    let wrapped = {
                        let w = BigInt::from(m) - (BigInt::from(1) << 64usize);
                        dyadic_to_f64_nearest(&if sign { -w } else { w }, e as i64)
                    };
                    let cond = if m & 1 == 1 && (got - wrapped).abs() <= 1e-12 * want.abs() { "consistent-with-64-bit-mantissa-wrapping-negative" } else { "other" };
                    self.violation(&format!("f64::try_from(Dyadic)|inaccurate|{cond}"), idx, json!({"raw": raw_json(&n.raw), "observed": got, "expected": want}));
                }
            }
        }
    }
}

/// exact order of two stored dyadics
fn cmp_raw(a: &Raw, b: &Raw) -> Ordering {
    // signed magnitude: (sign, top exponent, mantissa); stored mantissas are normalised
    let key = |r: &Raw| -> (i8, i64, u64) {
        if r.2 == 0 {
            (0, 0, 0)
        } else {
            // normalise defensively
            let lz = r.2.leading_zeros();
            (if r.0 { -1 } else { 1 }, r.3 as i64 - lz as i64, r.2 << lz)
        }
    };
    let (sa, ea, ma) = key(a);
    let (sb, eb, mb) = key(b);
    if sa != sb {
        return sa.cmp(&sb);
    }
    if sa == 0 {
        return Ordering::Equal;
    }
    let mag = (ea, ma).cmp(&(eb, mb));
    if sa > 0 {
        mag
    } else {
        mag.reverse()
    }
}

fn sign_class(r: &Raw) -> &'static str {
    if r.2 == 0 {
        "zero"
    } else if r.0 {
        "neg"
    } else {
        "pos"
    }
}

fn check_order(p: &mut DProg, i: usize, j: usize) {
    let (a, b) = (p.nodes[i].clone(), p.nodes[j].clone());
    let want = cmp_raw(&a.raw, &b.raw);
    let pair = format!("{}-vs-{}", sign_class(&a.raw), sign_class(&b.raw));
    p.tally.add(&format!("order:{pair}:{want:?}"));
    let detail = |obs: Value| json!({"a": raw_json(&a.raw), "b": raw_json(&b.raw), "a_value": format!("{}", r_of_raw(a.raw)), "b_value": format!("{}", r_of_raw(b.raw)), "expected": format!("{want:?}"), "observed": obs});
    let zero = a.raw.2 == 0 || b.raw.2 == 0;
    let denorm = |r: &Raw| r.2 != 0 && r.2 >> 63 == 0;
    let cond = if zero {
        "zero-operand"
    } else if denorm(&a.raw) || denorm(&b.raw) {
        "operand-mantissa-not-normalised"
    } else {
        "nonzero-operands"
    };
    match guarded(|| (a.real.cmp(&b.real), a.real.partial_cmp(&b.real), a.real < b.real, a.real > b.real, a.real <= b.real, a.real >= b.real)) {
        Err(e) => p.violation(&format!("Dyadic::cmp|panic|{}", e.site()), i.max(j), json!({"panic": e.text()})),
        Ok((c1, c2, lt, gt, le, ge)) => {
            if c1 != want || c2 != Some(want) {
                let sig = if cond == "operand-mantissa-not-normalised" { format!("Dyadic::cmp|wrong-order|{cond}") } else { format!("Dyadic::cmp|wrong-order|{cond}|{pair}") };
                p.violation(&sig, i.max(j), detail(json!(format!("{c1:?}"))));
            } else if lt != (want == Ordering::Less) || gt != (want == Ordering::Greater) || le != (want != Ordering::Greater) || ge != (want != Ordering::Less) {
                p.violation(&format!("Dyadic::lt/gt|inconsistent-with-order|{cond}"), i.max(j), detail(json!({"lt": lt, "gt": gt, "le": le, "ge": ge})));
            }
        }
    }
}

fn check_abs_diff(p: &mut DProg, i: usize, j: usize, eps: Option<Dyadic>) {
    let (a, b) = (p.nodes[i].clone(), p.nodes[j].clone());
    let (va, vb) = (r_of_raw(a.raw), r_of_raw(b.raw));
    if joint_width(&va, &vb) > MODEL_BITS {
        p.tally.add("absdiff:skipped-operands-too-far-apart-for-the-model");
        return;
    }
    let e = eps.unwrap_or_else(Dyadic::default_epsilon);
    let eraw = e.verif_raw();
    let ve = r_of_raw(eraw);
    if eraw.0 || eraw.2 == 0 {
        return; // only positive tolerances
    }
    let diff = va.sub(&vb);
    let diff = if diff.c[0].is_negative() { diff.neg() } else { diff };
    // decide with a factor-4 margin: |a-b| <= eps/4 => true ; |a-b| >= 4 eps => false
    let is_nonneg = |x: &R| !x.c[0].is_negative();
    let small = joint_width(&diff, &ve) <= MODEL_BITS && is_nonneg(&ve.sub(&diff.mul(&R::int(4))));
    let large = joint_width(&diff, &ve) <= MODEL_BITS && is_nonneg(&diff.sub(&ve.mul(&R::int(4))));
    let want = if small {
        true
    } else if large {
        false
    } else {
        p.tally.add("absdiff:skipped-within-factor-4-of-eps");
        return;
    };
    let class = if Num::is_zero(&diff) {
        "difference=0"
    } else if small {
        "difference<=eps/4"
    } else {
        "difference>=4eps"
    };
    p.tally.add(&format!("absdiff:{class}{}", if eps.is_none() { ":default-eps" } else { "" }));
    // an operand whose mantissa is not normalised (carry defect of Dyadic::add) derails the
    // internal subtraction: same root cause, own signature
    let denorm = |r: &Raw| r.2 != 0 && r.2 >> 63 == 0;
    let class = if denorm(&a.raw) || denorm(&b.raw) { "operand-mantissa-not-normalised" } else { class };
    match guarded(|| a.real.abs_diff_eq(&b.real, e)) {
        Err(pn) => p.violation(&format!("Dyadic::abs_diff_eq|panic|{}", pn.site()), i.max(j), json!({"panic": pn.text()})),
        Ok(got) => {
            if got != want {
                p.violation(
                    &format!("Dyadic::abs_diff_eq|wrong-answer|{class}"),
                    i.max(j),
                    json!({"a": raw_json(&a.raw), "b": raw_json(&b.raw), "epsilon": raw_json(&eraw), "a_value": format!("{va}"), "b_value": format!("{vb}"), "abs_difference": format!("{diff}"), "epsilon_value": format!("{ve}"), "observed": got, "expected": want}),
                );
            }
        }
    }
}

fn dyadic_program(family: &'static str, index: u64, r: &mut Rng) {
    let c = ctx();
    let base = gen_base(r);
    let len = 5 + r.below(14);
    let mut p = DProg { family, index, nodes: vec![], tally: Tally::default() };
    let mut n_ops = 0;
    while p.nodes.len() < len {
        let n = p.nodes.len();
        let make_const = n < 2 || r.chance(0.3);
        if make_const {
            match r.below(8) {
                0..=4 => {
                    let (v, e) = (gen_mant(r), gen_exp(r, base));
                    match guarded(|| Dyadic::new(v, e)) {
                        Ok(d) => p.push(d, R::from_i64s([v, 0, 0, 0], e as i64), json!({"Dyadic::new": [v, e as i64]}), "new", false),
                        Err(pn) => {
                            ctx().violation(&const_panic_sig("Dyadic::new", &pn), family, index, json!({"args": [v, e as i64], "panic": pn.text()}));
                        }
                    }
                }
                5 => {
                    let v = gen_mant(r);
                    match guarded(|| Dyadic::from(v)) {
                        Ok(d) => p.push(d, R::from_i64s([v, 0, 0, 0], 0), json!({"Dyadic::from(i64)": v}), "from_i64", false),
                        Err(pn) => ctx().violation(&const_panic_sig("Dyadic::from(i64)", &pn), family, index, json!({"args": v, "panic": pn.text()})),
                    }
                }
                6 => {
                    let x = gen_f64(r);
                    match guarded(|| Dyadic::from(x)) {
                        Ok(d) => {
                            p.push(d, r_of_f64(x), json!({"Dyadic::from(f64)": x, "bits": format!("{:016x}", x.to_bits())}), "from_f64", false);
                            let idx = p.nodes.len() - 1;
                            // From<f64> stores the float exactly, and it round-trips
                            if r_of_raw(d.verif_raw()) != r_of_f64(x) {
                                p.violation("Dyadic::from(f64)|stored-value-differs-from-float", idx, json!({"float": x}));
                            } else {
                                match guarded(|| f64::try_from(d)) {
                                    Ok(Ok(y)) => {
                                        p.tally.add("dyadic-f64-roundtrip:judged");
                                        if y != x {
                                            p.violation("Dyadic::from(f64)->f64|round-trip-not-exact", idx, json!({"in": x, "out": y}));
                                        }
                                    }
                                    Ok(Err(_)) => {
                                        let cls = if x == 0.0 {
                                            "zero"
                                        } else if x.abs() < f64::MIN_POSITIVE {
                                            "subnormal"
                                        } else if x.abs() < 2f64.powi(-800) {
                                            "normal-float-below-2^-800"
                                        } else if x.abs() > 2f64.powi(900) {
                                            "float-above-2^900"
                                        } else {
                                            "in-window"
                                        };
                                        p.tally.add(&format!("dyadic-f64-roundtrip:err:{cls}"));
                                        if x != 0.0 && x.abs() < 1.0 {
                                            // 2000 + floor(log2|x|) of the largest small float that did not round-trip
                                            c.maximum("largest_small_float_refused_by_f64_try_from:2000+floor(log2|x|)", (2000.0 + x.abs().log2().floor()) as u64);
                                        }
                                    }
                                    Err(_) => {}
                                }
                            }
                        }
                        Err(pn) => ctx().violation(&format!("Dyadic::from(f64)|panic|{}", pn.site()), family, index, json!({"float": x, "panic": pn.text()})),
                    }
                }
                _ => {
                    if let Ok(d) = guarded(Dyadic::zero) {
                        p.push(d, R::zero(), json!("Dyadic::zero()"), "zero", false);
                    }
                }
            }
            continue;
        }
        let a = pick_node(r, n);
        let b = if r.chance(0.15) { a } else { pick_node(r, n) };
        let (na, nb) = (p.nodes[a].clone(), p.nodes[b].clone());
        let (x, y) = (na.real, nb.real);
        let az = (na.raw.2 == 0 && na.raw.1) || (nb.raw.2 == 0 && nb.raw.1);
        let variant = r.chance(0.3);
        match r.below(9) {
            0..=2 | 3..=4 => {
                if joint_width(&na.model, &nb.model) > MODEL_BITS || joint_width(&r_of_raw(na.raw), &r_of_raw(nb.raw)) > MODEL_BITS {
                    continue;
                }
                let sub = r.chance(0.45);
                let real = guarded(|| match (sub, variant) {
                    (false, false) => x + y,
                    (false, true) => {
                        let mut t = x;
                        t += y;
                        t
                    }
                    (true, false) => x - y,
                    (true, true) => {
                        let mut t = x;
                        t -= y;
                        t
                    }
                });
                if let Some(sc) = shift_class(&na.raw, &nb.raw) {
                    p.tally.add(&format!("dyadic-add-alignment-shift:{sc}"));
                }
                let model = if sub { na.model.sub(&nb.model) } else { na.model.add(&nb.model) };
                let kind = if sub { "sub" } else { "add" };
                match real {
                    Ok(d) => {
                        p.push(d, model, json!({kind: [a, b]}), kind, az);
                        n_ops += 1;
                        if d.verif_raw().2 == 0 && na.raw.2 != 0 {
                            p.tally.add("dyadic-add:cancellation-to-zero");
                        }
                    }
                    Err(pn) => p.violation(&format!("Dyadic::{kind}|panic|{}", pn.site()), n - 1, json!({"operands": [a, b], "panic": pn.text()})),
                }
            }
            5..=6 => {
                let eb = |r: &Raw| (r.3 as i64).abs() + 64;
                if eb(&na.raw) + eb(&nb.raw) + 140 > EXP_LIMIT || width(&na.model) + width(&nb.model) > MODEL_BITS {
                    continue;
                }
                let real = guarded(|| {
                    if variant {
                        let mut t = x;
                        t *= y;
                        t
                    } else {
                        x * y
                    }
                });
                match real {
                    Ok(d) => {
                        p.push(d, na.model.mul(&nb.model), json!({"mul": [a, b]}), "mul", az);
                        n_ops += 1;
                    }
                    Err(pn) => p.violation(&format!("Dyadic::mul|panic|{}", pn.site()), n - 1, json!({"operands": [a, b], "panic": pn.text()})),
                }
            }
            7 => {
                match guarded(|| -x) {
                    Ok(d) => {
                        p.push(d, na.model.neg(), json!({"neg": a}), "neg", az);
                        n_ops += 1;
                    }
                    Err(pn) => p.violation(&format!("Dyadic::neg|panic|{}", pn.site()), n - 1, json!({"operand": a, "panic": pn.text()})),
                }
            }
            _ => {
                match guarded(|| x.abs()) {
                    Ok(d) => {
                        let m = if na.model.c[0].is_negative() { na.model.neg() } else { na.model.clone() };
                        p.push(d, m, json!({"abs": a}), "abs", az);
                        n_ops += 1;
                    }
                    Err(pn) => p.violation(&format!("Dyadic::abs|panic|{}", pn.site()), n - 1, json!({"operand": a, "panic": pn.text()})),
                }
            }
        }
    }
    // ordering and approximate equality on pairs of the values reached
    let n = p.nodes.len();
    for _ in 0..(2 * n) {
        let i = r.below(n);
        let j = match r.below(4) {
            0 => i,
            _ => r.below(n),
        };
        check_order(&mut p, i, j);
        let eps = match r.below(4) {
            0 => None,
            1 => Some(Dyadic::new(1, r.range(-200, 60) as i32)),
            2 => {
                // tolerance comparable to the operands
                let e = p.nodes[i].raw.3 as i64 + r.range(-10, 70);
                Some(Dyadic::new(r.range(1, 9), e.clamp(-(1 << 28), 1 << 28) as i32))
            }
            _ => Some(Dyadic::new((r.next_u64() >> 1) as i64 | 1, r.range(-300, 100) as i32)),
        };
        check_abs_diff(&mut p, i, j, eps);
    }
    let ser = serde_json::to_string(&p.nodes.iter().map(|n| &n.op).collect::<Vec<_>>()).unwrap_or_default();
    let exact_nonzero = p.nodes.iter().any(|n| !n.raw.1 && n.raw.2 != 0);
    c.case(family, if n_ops >= 2 && exact_nonzero { Some(hash_str(&ser)) } else { None });
    c.evals(p.nodes.len().saturating_sub(1) as u64);
    if index < 2 {
        c.sample_n(6, || json!({"family": family, "index": index, "program": p.listing(p.nodes.len())}));
    }
    p.tally.flush();
}

// ------------------------------------------------------------------------------------
// directed edge cases (deterministic; cheap; makes sure the named edges are always visited)
// ------------------------------------------------------------------------------------

fn directed(family: &'static str, index: u64, _r: &mut Rng) {
    let mut p = DProg { family, index, nodes: vec![], tally: Tally::default() };
    let consts: Vec<(i64, i32)> = vec![(0, 0), (1, 0), (-1, 0), (1, -100), (5, -200), (1, 70), (i64::MAX, 1), (i64::MAX, 0), (3, 62), (1, 64), (1, 63), (1, 65), (-3, 5), (1, -1021 - 63), (1, 1000)];
    for (v, e) in consts.iter() {
        let d = Dyadic::new(*v, *e);
        p.push(d, R::from_i64s([*v, 0, 0, 0], *e as i64), json!({"Dyadic::new": [v, e]}), "new", false);
    }
    // (2^63-1)*2 + 1 = 2^64-1 : an exact mantissa with 64 significant bits
    let a = p.nodes[6].clone();
    let b = p.nodes[1].clone();
    if let Ok(d) = guarded(|| a.real + b.real) {
        p.push(d, a.model.add(&b.model), json!({"add": [6, 1]}), "add", false);
    }
    // inexact cancellation to zero, then an exact addend: (2^70 + 1) - 2^70 + 1
    {
        let big = p.nodes[5].clone();
        if let Ok(t) = guarded(|| big.real + b.real) {
            p.push(t, big.model.add(&b.model), json!({"add": [5, 1]}), "add", false);
            let ti = p.nodes.len() - 1;
            let tm = p.nodes[ti].model.clone();
            if let Ok(u) = guarded(|| t - big.real) {
                p.push(u, tm.sub(&big.model), json!({"sub": [ti, 5]}), "sub", false);
                let um = p.nodes[ti + 1].model.clone();
                let az = u.verif_raw().2 == 0 && u.verif_raw().1;
                if let Ok(v) = guarded(|| u + b.real) {
                    p.push(v, um.add(&b.model), json!({"add": [ti + 1, 1]}), "add", az);
                }
            }
        }
    }
    // (2^64-1) + 1 : carry out of a full mantissa
    if let Some((at, full)) = p.nodes.iter().cloned().enumerate().find(|(_, n)| n.raw.2 == u64::MAX) {
        if let Ok(d) = guarded(|| full.real + b.real) {
            p.push(d, full.model.add(&b.model), json!({"add": [at, 1]}), "add", false);
        }
    }
    let n = p.nodes.len();
    for i in 0..n {
        for j in 0..n {
            check_order(&mut p, i, j);
        }
        check_abs_diff(&mut p, i, i, None);
    }
    check_abs_diff(&mut p, 0, 3, None);
    check_abs_diff(&mut p, 3, 4, None);
    check_abs_diff(&mut p, 1, 2, None);
    p.tally.flush();
    // Scalar4: the exact scalar 2^64-1 and friends through the recognisers and the conversion
    let mut q = Prog { family, index, nodes: vec![], tally: Tally::default(), violated: false, pending_steps: vec![] };
    q.push(Scalar4::new([i64::MAX, 0, 0, 0], 1), R::from_i64s([i64::MAX, 0, 0, 0], 1), json!({"Scalar4::new": [[i64::MAX, 0, 0, 0], 1]}), "Scalar4::new", (usize::MAX, usize::MAX), false, false);
    q.push(Scalar4::one(), R::one(), json!("one()"), "one", (usize::MAX, usize::MAX), false, false);
    let (x, y) = (q.nodes[0].clone(), q.nodes[1].clone());
    finish_op(&mut q, guarded(|| x.real + y.real), x.model.add(&y.model), json!({"add": [0, 1]}), "add", (0, 1), false);
    // inexact cancellation to zero, then an exact addend: (2^70 + 1) - 2^70 + 1
    {
        let at = q.nodes.len();
        q.push(Scalar4::new([1, 0, 0, 0], 70), R::pow2(70), json!({"Scalar4::new": [[1, 0, 0, 0], 70]}), "Scalar4::new", (usize::MAX, usize::MAX), false, false);
        let (big, one) = (q.nodes[at].clone(), q.nodes[1].clone());
        finish_op(&mut q, guarded(|| big.real + one.real), big.model.add(&one.model), json!({"add": [at, 1]}), "add", (at, 1), false);
        if let Some(t) = q.nodes.last().cloned() {
            finish_op(&mut q, guarded(|| t.real - big.real), t.model.sub(&big.model), json!({"sub": [at + 1, at]}), "sub", (at + 1, at), false);
        }
        if let Some(u) = q.nodes.last().cloned() {
            let az = has_approx_zero(&u.raw);
            finish_op(&mut q, guarded(|| u.real + one.real), u.model.add(&one.model), json!({"add": [at + 2, 1]}), "add", (at + 2, 1), az);
        }
    }
    // flag lost on an accumulator inside Scalar4::mul: x = 1 + 3*2^40 (-w - w^2 + w^3), x*x
    {
        let at = q.nodes.len();
        let co = [1i64, -(3 << 40), -(3 << 40), 3 << 40];
        q.push(Scalar4::new(co, 0), R::from_i64s(co, 0), json!({"Scalar4::new": [co, 0]}), "Scalar4::new", (usize::MAX, usize::MAX), false, false);
        let x = q.nodes[at].clone();
        q.pending_steps = vec![(x.real, x.real)];
        finish_op(&mut q, guarded(|| x.real * x.real), x.model.mul(&x.model), json!({"mul": [at, at]}), "mul", (at, at), false);
    }
    for k in 0..8 {
        for pw in [-3i64, -1, 0, 1, 2, 5] {
            let m = R::omega_pow(k).mul(&R::sqrt2_pow(pw));
            let real = guarded(|| {
                let mut s = Scalar4::from_phase((k, 4));
                s.mul_sqrt2_pow(pw as i32);
                s
            });
            finish_op(&mut q, real, m, json!({"from_phase*sqrt2_pow": [k, pw]}), "mul_sqrt2_pow", (0, 0), false);
        }
    }
    ctx().case(family, Some(hash_str("directed")));
    q.tally.flush();
}

pub fn run() {
    let c = ctx();
    if let Err(e) = ring::self_test() {
        c.harness_error(&format!("ring oracle self-test failed: {e}"));
        return;
    }
    if let Err(e) = ratio::self_test() {
        c.harness_error(&format!("ratio oracle self-test failed: {e}"));
        return;
    }
    c.set_rule(
        "one case = one random straight-line program (6-24 Scalar4 nodes, or 5-18 Dyadic nodes plus 2n ordering/abs_diff_eq pairs); every node is judged (evaluations counts nodes); a program is non-trivial when it has >= 3 (Scalar4) / >= 2 (Dyadic) operator nodes and at least one operator result that is NOT flagged approximate and non-zero; distinct = distinct 64-bit hashes of the serialised program",
    );
    c.assume("exact model oracle::ring::R (BigInt Z[omega][1/2]) and oracle::ratio (BigInt -> nearest f64) are correct; both self-tested at start");
    c.assume("supported exponent range taken as |exponent| < 2^29 so that quizx's i32 exponent arithmetic cannot overflow; constants use |pow| <= 2^27");
    c.assume("additions whose exact result would need more than 20000 bits in the model are not generated (alignment shifts up to ~20000 are)");
    c.assume("conversion Err is judged only when every non-zero coefficient lies in [2^-800, 2^900]; conversions of values above 2^1000 are not judged");
    let t = c.tier;
    par_cases("directed-edges", 1, |r, i| directed("directed-edges", i, r));
    let (ns, nd) = t.pick((150_000usize, 150_000usize), (12_000_000usize, 12_000_000usize));
    par_cases("scalar4-programs", ns, |r, i| scalar_program("scalar4-programs", i, r));
    par_cases("dyadic-programs", nd, |r, i| dyadic_program("dyadic-programs", i, r));
    c.extra("exhaustive", json!(false));
}

//! C07 -- monitor (to be written)
use crate::fw::ctx;

pub fn run() {
    ctx().harness_error("C07 monitor not implemented yet");
}
